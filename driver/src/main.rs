// kvfacts: rustc_private fact extractor for the KyroDB static checks.
//
// Used as RUSTC_WORKSPACE_WRAPPER: argv = [kvfacts, <rustc>, <rustc args...>].
// For every workspace crate whose name is listed in KVFACTS_CRATES (comma
// separated) it dumps, after macro expansion, the *promoted* MIR of every body
// (resolved callees, places with named field projections, constants, spans)
// plus ADT / impl / fn-signature tables as one JSON file
// $KVFACTS_OUT/<crate>[-<cfg tag>].json written with a single write.
// It never changes compilation: it returns Compilation::Continue.
#![feature(rustc_private)]
#![allow(clippy::all)]

extern crate rustc_abi;
extern crate rustc_data_structures;
extern crate rustc_driver;
extern crate rustc_hir;
extern crate rustc_index;
extern crate rustc_interface;
extern crate rustc_middle;
extern crate rustc_session;
extern crate rustc_span;

use rustc_driver::Compilation;
use rustc_hir::def::DefKind;
use rustc_hir::def_id::{DefId, LocalDefId};
use rustc_middle::mir::{
    self, AggregateKind, BasicBlockData, Body, BorrowKind, CastKind, Const, Operand, Place,
    ProjectionElem, Rvalue, StatementKind, TerminatorKind, UnwindAction,
};
use rustc_middle::ty::print::{CrateNamePrefixGuard, NoTrimmedGuard, NoVisibleGuard};
use rustc_middle::ty::{self, Instance, Ty, TyCtxt, TypingEnv};
use rustc_span::Span;
use std::fmt::Write as _;

// ---------------------------------------------------------------- JSON writer

struct J {
    s: String,
}

impl J {
    fn new() -> Self {
        J { s: String::with_capacity(1 << 20) }
    }
    fn raw(&mut self, t: &str) {
        self.s.push_str(t);
    }
    fn str(&mut self, t: &str) {
        self.s.push('"');
        for c in t.chars() {
            match c {
                '"' => self.s.push_str("\\\""),
                '\\' => self.s.push_str("\\\\"),
                '\n' => self.s.push_str("\\n"),
                '\r' => self.s.push_str("\\r"),
                '\t' => self.s.push_str("\\t"),
                c if (c as u32) < 0x20 => {
                    let _ = write!(self.s, "\\u{:04x}", c as u32);
                }
                c => self.s.push(c),
            }
        }
        self.s.push('"');
    }
    fn key(&mut self, k: &str) {
        self.str(k);
        self.s.push(':');
    }
    fn kv_str(&mut self, k: &str, v: &str) {
        self.key(k);
        self.str(v);
    }
    fn kv_num(&mut self, k: &str, v: u128) {
        self.key(k);
        let _ = write!(self.s, "{}", v);
    }
    fn kv_bool(&mut self, k: &str, v: bool) {
        self.key(k);
        self.s.push_str(if v { "true" } else { "false" });
    }
    fn comma(&mut self) {
        self.s.push(',');
    }
    /// remove a trailing comma if present (used after loops)
    fn uncomma(&mut self) {
        if self.s.ends_with(',') {
            self.s.pop();
        }
    }
}

// ---------------------------------------------------------------- helpers

struct Cx<'tcx> {
    tcx: TyCtxt<'tcx>,
}

impl<'tcx> Cx<'tcx> {
    fn path(&self, did: DefId) -> String {
        self.tcx.def_path_str(did)
    }

    fn ty_str(&self, t: Ty<'tcx>) -> String {
        format!("{}", t)
    }

    /// (file:line of the outermost call site, expansion descr or "")
    fn loc(&self, span: Span) -> (String, String) {
        let sm = self.tcx.sess.source_map();
        let exp = if span.from_expansion() {
            let ed = span.ctxt().outer_expn_data();
            match ed.kind {
                rustc_span::ExpnKind::Macro(_, name) => format!("m:{}", name),
                rustc_span::ExpnKind::Desugaring(d) => format!("d:{:?}", d),
                rustc_span::ExpnKind::AstPass(p) => format!("a:{:?}", p),
                rustc_span::ExpnKind::Root => String::new(),
            }
        } else {
            String::new()
        };
        let cs = span.source_callsite();
        if cs.is_dummy() {
            return ("?:0".to_string(), exp);
        }
        let lo = sm.lookup_char_pos(cs.lo());
        let fname = match &lo.file.name {
            rustc_span::FileName::Real(r) => match r.local_path() {
                Some(p) => p.to_string_lossy().to_string(),
                None => format!("{:?}", r),
            },
            other => format!("{:?}", other),
        };
        (format!("{}:{}", fname, lo.line), exp)
    }
}

struct BodyCx<'a, 'tcx> {
    cx: &'a Cx<'tcx>,
    body: &'a Body<'tcx>,
    env: TypingEnv<'tcx>,
}

impl<'a, 'tcx> BodyCx<'a, 'tcx> {
    fn tcx(&self) -> TyCtxt<'tcx> {
        self.cx.tcx
    }

    fn place(&self, j: &mut J, p: &Place<'tcx>) {
        let tcx = self.tcx();
        j.raw("{");
        j.kv_num("l", p.local.as_usize() as u128);
        if !p.projection.is_empty() {
            j.comma();
            j.key("p");
            j.raw("[");
            let mut pty = mir::PlaceTy::from_ty(self.body.local_decls[p.local].ty);
            for elem in p.projection.iter() {
                match elem {
                    ProjectionElem::Deref => j.str("*"),
                    ProjectionElem::Field(f, _) => {
                        let name = match pty.ty.kind() {
                            ty::Adt(adt, _) => {
                                let v = match pty.variant_index {
                                    Some(v) => v,
                                    None => rustc_abi::FIRST_VARIANT,
                                };
                                let vd = adt.variant(v);
                                let an = self.cx.path(adt.did());
                                if adt.is_enum() {
                                    format!("{}::{}.{}", an, vd.name, vd.fields[f].name)
                                } else {
                                    format!("{}.{}", an, vd.fields[f].name)
                                }
                            }
                            ty::Tuple(_) => format!(".{}", f.as_usize()),
                            ty::Closure(did, _)
                            | ty::Coroutine(did, _)
                            | ty::CoroutineClosure(did, _) => {
                                // upvar: name it if we can
                                let mut n = format!("^{}", f.as_usize());
                                if let Some(ldid) = did.as_local() {
                                    let caps = tcx.closure_captures(ldid);
                                    if let Some(c) = caps.get(f.as_usize()) {
                                        n = format!("^{}:{}", f.as_usize(), c.var_ident.name);
                                    }
                                }
                                n
                            }
                            _ => format!(".{}", f.as_usize()),
                        };
                        j.str(&name);
                    }
                    ProjectionElem::Index(l) => {
                        j.raw("{");
                        j.kv_num("ix", l.as_usize() as u128);
                        j.raw("}");
                    }
                    ProjectionElem::ConstantIndex { offset, from_end, .. } => {
                        j.raw("{");
                        j.kv_num("cix", offset as u128);
                        j.comma();
                        j.kv_bool("end", from_end);
                        j.raw("}");
                    }
                    ProjectionElem::Subslice { from, to, from_end } => {
                        j.raw("{");
                        j.kv_num("sub", from as u128);
                        j.comma();
                        j.kv_num("to", to as u128);
                        j.comma();
                        j.kv_bool("end", from_end);
                        j.raw("}");
                    }
                    ProjectionElem::Downcast(name, vidx) => {
                        let n = match name {
                            Some(s) => s.to_string(),
                            None => format!("#{}", vidx.as_usize()),
                        };
                        j.raw("{");
                        j.kv_str("dc", &n);
                        j.raw("}");
                    }
                    ProjectionElem::OpaqueCast(_) => j.str("opaque"),
                    ProjectionElem::UnwrapUnsafeBinder(_) => j.str("unbinder"),
                }
                j.comma();
                pty = pty.projection_ty(tcx, elem);
            }
            j.uncomma();
            j.raw("]");
        }
        j.raw("}");
    }

    fn constant(&self, j: &mut J, c: &mir::ConstOperand<'tcx>) {
        let tcx = self.tcx();
        let ty = c.const_.ty();
        j.raw("{");
        j.kv_str("k", "c");
        j.comma();
        j.kv_str("ty", &self.cx.ty_str(ty));
        j.comma();
        j.kv_str("v", &format!("{}", c.const_));
        match ty.kind() {
            ty::FnDef(did, args) => {
                j.comma();
                j.key("fn");
                self.callee(j, *did, args);
            }
            ty::Closure(did, _) => {
                j.comma();
                j.kv_str("closure", &self.cx.path(*did));
            }
            _ => {}
        }
        if let Const::Unevaluated(uv, _) = c.const_ {
            if let Some(p) = uv.promoted {
                j.comma();
                j.kv_num("promoted", p.as_usize() as u128);
            } else {
                j.comma();
                j.kv_str("cdef", &self.cx.path(uv.def));
            }
        }
        // integer / bool / char value if cheaply available
        if ty.is_integral() || ty.is_bool() || ty.is_char() {
            if let Some(si) = c.const_.try_eval_scalar_int(tcx, self.env) {
                let bits = si.to_bits(si.size());
                j.comma();
                if ty.is_signed() {
                    let sz = si.size().bits();
                    let v = if sz == 128 {
                        bits as i128
                    } else {
                        let shift = 128 - sz;
                        ((bits << shift) as i128) >> shift
                    };
                    j.key("int");
                    let _ = write!(j.s, "{}", v);
                } else {
                    j.kv_num("int", bits);
                }
            }
        }
        // value of a named floating-point constant (bit pattern), so that sibling constants of different modules can be compared
        if matches!(ty.kind(), ty::Float(_)) {
            if let Const::Unevaluated(uv, _) = c.const_ {
                if uv.promoted.is_none() {
                    if let Some(si) = c.const_.try_eval_scalar_int(tcx, self.env) {
                        j.comma();
                        j.kv_num("fbits", si.to_bits(si.size()));
                        j.comma();
                        j.kv_num("fsize", si.size().bits() as u128);
                    }
                }
            }
        }
        j.raw("}");
    }

    fn operand(&self, j: &mut J, o: &Operand<'tcx>) {
        match o {
            Operand::Copy(p) => {
                j.raw("{");
                j.kv_str("k", "cp");
                j.comma();
                j.key("pl");
                self.place(j, p);
                j.raw("}");
            }
            Operand::Move(p) => {
                j.raw("{");
                j.kv_str("k", "mv");
                j.comma();
                j.key("pl");
                self.place(j, p);
                j.raw("}");
            }
            Operand::Constant(c) => self.constant(j, c),
            #[allow(unreachable_patterns)]
            _ => {
                j.raw("{");
                j.kv_str("k", "rt");
                j.raw("}");
            }
        }
    }

    /// Emit a callee description: original def, resolved def (if resolvable), generic args.
    fn callee(&self, j: &mut J, did: DefId, args: ty::GenericArgsRef<'tcx>) {
        let tcx = self.tcx();
        j.raw("{");
        j.kv_str("o", &self.cx.path(did));
        let mut resolved: Option<DefId> = None;
        let has_infer = args.iter().any(|a| {
            use rustc_middle::ty::TypeVisitableExt;
            a.has_infer() || a.has_escaping_bound_vars()
        });
        if !has_infer && matches!(tcx.def_kind(did), DefKind::Fn | DefKind::AssocFn) {
            let r = std::panic::catch_unwind(std::panic::AssertUnwindSafe(|| {
                Instance::try_resolve(tcx, self.env, did, args)
            }));
            if let Ok(Ok(Some(inst))) = r {
                resolved = Some(inst.def_id());
            }
        }
        if let Some(r) = resolved {
            if r != did {
                j.comma();
                j.kv_str("r", &self.cx.path(r));
            }
        }
        let target = resolved.unwrap_or(did);
        // safety of the callee
        if matches!(tcx.def_kind(target), DefKind::Fn | DefKind::AssocFn) {
            let sig = tcx.fn_sig(target).skip_binder();
            if sig.safety().is_unsafe() {
                j.comma();
                j.kv_bool("unsafe", true);
            }
            // #[target_feature(enable = ..)] of the callee (CPU features its body may assume)
            let tfs = &tcx.codegen_fn_attrs(target).target_features;
            if !tfs.is_empty() {
                j.comma();
                j.key("tf");
                j.raw("[");
                let mut first = true;
                for f in tfs.iter() {
                    if !first {
                        j.raw(",");
                    }
                    first = false;
                    j.str(f.name.as_str());
                }
                j.raw("]");
            }
        }
        // trait of the original item, if any
        if let Some(tr) = tcx.trait_of_assoc(did) {
            j.comma();
            j.kv_str("tr", &self.cx.path(tr));
        }
        if !args.is_empty() {
            j.comma();
            j.key("ga");
            j.raw("[");
            for a in args.iter() {
                if let Some(t) = a.as_type() {
                    j.str(&self.cx.ty_str(t));
                    j.comma();
                    // closure / coroutine type args: expose the def path for call-graph edges
                } else if let Some(c) = a.as_const() {
                    j.str(&format!("{}", c));
                    j.comma();
                }
            }
            j.uncomma();
            j.raw("]");
            // closures passed as generic args
            let mut first = true;
            for a in args.iter() {
                if let Some(t) = a.as_type() {
                    let mut found: Vec<DefId> = Vec::new();
                    collect_closures(t, &mut found, 0);
                    for d in found {
                        if first {
                            j.comma();
                            j.key("gc");
                            j.raw("[");
                            first = false;
                        }
                        j.str(&self.cx.path(d));
                        j.comma();
                    }
                }
            }
            if !first {
                j.uncomma();
                j.raw("]");
            }
        }
        j.raw("}");
    }

    fn rvalue(&self, j: &mut J, rv: &Rvalue<'tcx>) {
        j.raw("{");
        match rv {
            Rvalue::Use(o, ..) => {
                j.kv_str("k", "use");
                j.comma();
                j.key("a");
                self.operand(j, o);
            }
            Rvalue::Repeat(o, _) => {
                j.kv_str("k", "repeat");
                j.comma();
                j.key("a");
                self.operand(j, o);
            }
            Rvalue::Ref(_, bk, p) => {
                j.kv_str("k", "ref");
                j.comma();
                j.kv_bool("mut", matches!(bk, BorrowKind::Mut { .. }));
                j.comma();
                j.kv_bool("fake", matches!(bk, BorrowKind::Fake(_)));
                j.comma();
                j.key("pl");
                self.place(j, p);
            }
            Rvalue::ThreadLocalRef(d) => {
                j.kv_str("k", "tls");
                j.comma();
                j.kv_str("def", &self.cx.path(*d));
            }
            Rvalue::RawPtr(_, p) => {
                j.kv_str("k", "rawptr");
                j.comma();
                j.key("pl");
                self.place(j, p);
            }
            Rvalue::Cast(ck, o, t) => {
                j.kv_str("k", "cast");
                j.comma();
                let ckn = match ck {
                    CastKind::Transmute => "Transmute".to_string(),
                    other => format!("{:?}", other),
                };
                j.kv_str("ck", &ckn);
                j.comma();
                j.kv_str("ty", &self.cx.ty_str(*t));
                j.comma();
                j.key("a");
                self.operand(j, o);
            }
            Rvalue::BinaryOp(op, ab) => {
                j.kv_str("k", "bin");
                j.comma();
                j.kv_str("op", &format!("{:?}", op));
                j.comma();
                j.key("a");
                self.operand(j, &ab.0);
                j.comma();
                j.key("b");
                self.operand(j, &ab.1);
            }
            Rvalue::UnaryOp(op, o) => {
                j.kv_str("k", "un");
                j.comma();
                j.kv_str("op", &format!("{:?}", op));
                j.comma();
                j.key("a");
                self.operand(j, o);
            }
            Rvalue::Discriminant(p) => {
                j.kv_str("k", "discr");
                j.comma();
                j.key("pl");
                self.place(j, p);
                // enum type for variant naming
                let pt = p.ty(&self.body.local_decls, self.tcx()).ty;
                if let ty::Adt(adt, _) = pt.kind() {
                    j.comma();
                    j.kv_str("adt", &self.cx.path(adt.did()));
                }
            }
            Rvalue::Aggregate(ak, ops) => {
                j.kv_str("k", "agg");
                j.comma();
                match &**ak {
                    AggregateKind::Array(_) => j.kv_str("ak", "array"),
                    AggregateKind::Tuple => j.kv_str("ak", "tuple"),
                    AggregateKind::Adt(did, vidx, _, _, _) => {
                        j.kv_str("ak", "adt");
                        j.comma();
                        let adt = self.tcx().adt_def(*did);
                        j.kv_str("adt", &self.cx.path(*did));
                        j.comma();
                        let vd = adt.variant(*vidx);
                        j.kv_str("variant", vd.name.as_str());
                        j.comma();
                        j.key("fields");
                        j.raw("[");
                        for f in vd.fields.iter() {
                            j.str(f.name.as_str());
                            j.comma();
                        }
                        j.uncomma();
                        j.raw("]");
                    }
                    AggregateKind::Closure(did, _) => {
                        j.kv_str("ak", "closure");
                        j.comma();
                        j.kv_str("def", &self.cx.path(*did));
                    }
                    AggregateKind::Coroutine(did, _) => {
                        j.kv_str("ak", "coroutine");
                        j.comma();
                        j.kv_str("def", &self.cx.path(*did));
                    }
                    AggregateKind::CoroutineClosure(did, _) => {
                        j.kv_str("ak", "coroutine_closure");
                        j.comma();
                        j.kv_str("def", &self.cx.path(*did));
                    }
                    AggregateKind::RawPtr(..) => j.kv_str("ak", "rawptr"),
                }
                j.comma();
                j.key("ops");
                j.raw("[");
                for o in ops.iter() {
                    self.operand(j, o);
                    j.comma();
                }
                j.uncomma();
                j.raw("]");
            }
            Rvalue::CopyForDeref(p) => {
                j.kv_str("k", "use");
                j.comma();
                j.key("a");
                j.raw("{");
                j.kv_str("k", "cp");
                j.comma();
                j.key("pl");
                self.place(j, p);
                j.raw("}");
            }
            #[allow(unreachable_patterns)]
            other => {
                j.kv_str("k", "other");
                j.comma();
                j.kv_str("dbg", &format!("{:?}", other));
            }
        }
        j.raw("}");
    }

    fn loc_fields(&self, j: &mut J, span: Span) {
        let (l, e) = self.cx.loc(span);
        j.kv_str("loc", &l);
        if !e.is_empty() {
            j.comma();
            j.kv_str("exp", &e);
        }
    }

    fn block(&self, j: &mut J, bb: &BasicBlockData<'tcx>) {
        j.raw("{");
        if bb.is_cleanup {
            j.kv_bool("cleanup", true);
            j.comma();
        }
        j.key("s");
        j.raw("[");
        for st in bb.statements.iter() {
            match &st.kind {
                StatementKind::Assign(b) => {
                    let (pl, rv) = &**b;
                    j.raw("{");
                    j.key("pl");
                    self.place(j, pl);
                    j.comma();
                    j.key("rv");
                    self.rvalue(j, rv);
                    j.comma();
                    self.loc_fields(j, st.source_info.span);
                    j.raw("}");
                    j.comma();
                }
                StatementKind::SetDiscriminant { place, variant_index } => {
                    j.raw("{");
                    j.key("pl");
                    self.place(j, place);
                    j.comma();
                    j.kv_num("setdiscr", variant_index.as_usize() as u128);
                    j.comma();
                    self.loc_fields(j, st.source_info.span);
                    j.raw("}");
                    j.comma();
                }
                StatementKind::StorageDead(l) => {
                    j.raw("{");
                    j.kv_num("dead", l.as_usize() as u128);
                    j.raw("}");
                    j.comma();
                }
                _ => {}
            }
        }
        j.uncomma();
        j.raw("]");
        j.comma();
        j.key("t");
        let term = bb.terminator();
        j.raw("{");
        let unwind_of = |u: &UnwindAction| -> Option<usize> {
            match u {
                UnwindAction::Cleanup(b) => Some(b.as_usize()),
                _ => None,
            }
        };
        match &term.kind {
            TerminatorKind::Goto { target } => {
                j.kv_str("k", "goto");
                j.comma();
                j.kv_num("to", target.as_usize() as u128);
            }
            TerminatorKind::SwitchInt { discr, targets } => {
                j.kv_str("k", "switch");
                j.comma();
                j.key("on");
                self.operand(j, discr);
                j.comma();
                j.key("tg");
                j.raw("[");
                for (v, t) in targets.iter() {
                    let _ = write!(j.s, "[{},{}],", v, t.as_usize());
                }
                j.uncomma();
                j.raw("]");
                j.comma();
                j.kv_num("else", targets.otherwise().as_usize() as u128);
                j.comma();
                j.kv_str("onty", &self.cx.ty_str(discr.ty(&self.body.local_decls, self.tcx())));
            }
            TerminatorKind::UnwindResume => j.kv_str("k", "resume"),
            TerminatorKind::UnwindTerminate(_) => j.kv_str("k", "terminate"),
            TerminatorKind::Return => j.kv_str("k", "return"),
            TerminatorKind::Unreachable => j.kv_str("k", "unreachable"),
            TerminatorKind::Drop { place, target, unwind, .. } => {
                j.kv_str("k", "drop");
                j.comma();
                j.key("pl");
                self.place(j, place);
                j.comma();
                j.kv_num("to", target.as_usize() as u128);
                if let Some(u) = unwind_of(unwind) {
                    j.comma();
                    j.kv_num("uw", u as u128);
                }
            }
            TerminatorKind::Call { func, args, destination, target, unwind, .. } => {
                j.kv_str("k", "call");
                j.comma();
                j.key("f");
                self.operand(j, func);
                j.comma();
                j.key("args");
                j.raw("[");
                for a in args.iter() {
                    self.operand(j, &a.node);
                    j.comma();
                }
                j.uncomma();
                j.raw("]");
                j.comma();
                j.key("dest");
                self.place(j, destination);
                if let Some(t) = target {
                    j.comma();
                    j.kv_num("to", t.as_usize() as u128);
                }
                if let Some(u) = unwind_of(unwind) {
                    j.comma();
                    j.kv_num("uw", u as u128);
                }
            }
            TerminatorKind::TailCall { func, args, .. } => {
                j.kv_str("k", "tailcall");
                j.comma();
                j.key("f");
                self.operand(j, func);
                j.comma();
                j.key("args");
                j.raw("[");
                for a in args.iter() {
                    self.operand(j, &a.node);
                    j.comma();
                }
                j.uncomma();
                j.raw("]");
            }
            TerminatorKind::Assert { cond, expected, target, unwind, msg } => {
                j.kv_str("k", "assert");
                j.comma();
                j.key("cond");
                self.operand(j, cond);
                j.comma();
                j.kv_bool("expected", *expected);
                j.comma();
                j.kv_num("to", target.as_usize() as u128);
                j.comma();
                let m = format!("{:?}", msg);
                let short: String = m.chars().take(40).collect();
                j.kv_str("msg", &short);
                if let Some(u) = unwind_of(unwind) {
                    j.comma();
                    j.kv_num("uw", u as u128);
                }
            }
            TerminatorKind::Yield { value, resume, resume_arg, drop } => {
                j.kv_str("k", "yield");
                j.comma();
                j.key("val");
                self.operand(j, value);
                j.comma();
                j.kv_num("to", resume.as_usize() as u128);
                j.comma();
                j.key("dest");
                self.place(j, resume_arg);
                if let Some(d) = drop {
                    j.comma();
                    j.kv_num("dropbb", d.as_usize() as u128);
                }
            }
            TerminatorKind::CoroutineDrop => j.kv_str("k", "coroutine_drop"),
            TerminatorKind::FalseEdge { real_target, imaginary_target } => {
                j.kv_str("k", "falseedge");
                j.comma();
                j.kv_num("to", real_target.as_usize() as u128);
                j.comma();
                j.kv_num("imag", imaginary_target.as_usize() as u128);
            }
            TerminatorKind::FalseUnwind { real_target, .. } => {
                j.kv_str("k", "falseunwind");
                j.comma();
                j.kv_num("to", real_target.as_usize() as u128);
            }
            TerminatorKind::InlineAsm { targets, .. } => {
                j.kv_str("k", "asm");
                j.comma();
                j.key("tos");
                j.raw("[");
                for t in targets.iter() {
                    let _ = write!(j.s, "{},", t.as_usize());
                }
                j.uncomma();
                j.raw("]");
            }
        }
        j.comma();
        self.loc_fields(j, term.source_info.span);
        j.raw("}");
        j.raw("}");
    }

    fn body(&self, j: &mut J) {
        // locals
        j.key("locals");
        j.raw("[");
        for (_, d) in self.body.local_decls.iter_enumerated() {
            j.str(&self.cx.ty_str(d.ty));
            j.comma();
        }
        j.uncomma();
        j.raw("]");
        j.comma();
        j.kv_num("argc", self.body.arg_count as u128);
        j.comma();
        // user variable names
        j.key("vars");
        j.raw("[");
        for v in self.body.var_debug_info.iter() {
            if let mir::VarDebugInfoContents::Place(p) = &v.value {
                j.raw("{");
                j.kv_str("n", v.name.as_str());
                j.comma();
                j.key("pl");
                self.place(j, p);
                j.raw("}");
                j.comma();
            }
        }
        j.uncomma();
        j.raw("]");
        j.comma();
        j.key("bb");
        j.raw("[");
        for (_, bb) in self.body.basic_blocks.iter_enumerated() {
            self.block(j, bb);
            j.comma();
        }
        j.uncomma();
        j.raw("]");
    }
}

fn collect_closures<'tcx>(t: Ty<'tcx>, out: &mut Vec<DefId>, depth: usize) {
    if depth > 6 {
        return;
    }
    match t.kind() {
        ty::Closure(d, _) | ty::Coroutine(d, _) | ty::CoroutineClosure(d, _) => out.push(*d),
        ty::FnDef(d, _) => out.push(*d),
        ty::Adt(_, args) => {
            for a in args.iter() {
                if let Some(t2) = a.as_type() {
                    collect_closures(t2, out, depth + 1);
                }
            }
        }
        ty::Ref(_, t2, _) => collect_closures(*t2, out, depth + 1),
        ty::Tuple(ts) => {
            for t2 in ts.iter() {
                collect_closures(t2, out, depth + 1);
            }
        }
        _ => {}
    }
}

// ---------------------------------------------------------------- extraction

fn extract<'tcx>(tcx: TyCtxt<'tcx>, crate_name: &str, out_dir: &str, nonce: &str, tag: &str) {
    let _g1 = NoTrimmedGuard::new();
    let _g2 = NoVisibleGuard::new();
    let _g3 = CrateNamePrefixGuard::new();
    let cx = Cx { tcx };
    let mut j = J::new();
    j.raw("{");
    j.kv_str("crate", crate_name);
    j.comma();
    j.kv_str("nonce", nonce);
    j.comma();
    j.kv_str("tag", tag);
    j.comma();
    j.kv_bool("debug_assertions", tcx.sess.opts.debug_assertions);
    j.comma();
    j.kv_str("crate_types", &format!("{:?}", tcx.crate_types()));
    j.comma();

    // ---- ADTs, fns, impls
    let items = tcx.hir_crate_items(());
    j.key("adts");
    j.raw("[");
    for ldid in items.definitions() {
        let did = ldid.to_def_id();
        if !matches!(tcx.def_kind(did), DefKind::Struct | DefKind::Enum | DefKind::Union) {
            continue;
        }
        let adt = tcx.adt_def(did);
        j.raw("{");
        j.kv_str("path", &cx.path(did));
        j.comma();
        j.kv_str("kind", if adt.is_enum() { "enum" } else if adt.is_union() { "union" } else { "struct" });
        j.comma();
        j.kv_bool("pub", tcx.visibility(did).is_public());
        j.comma();
        j.kv_str("loc", &cx.loc(tcx.def_span(did)).0);
        j.comma();
        j.key("variants");
        j.raw("[");
        for (vi, v) in adt.variants().iter_enumerated() {
            j.raw("{");
            j.kv_str("name", v.name.as_str());
            j.comma();
            j.kv_num("idx", vi.as_usize() as u128);
            j.comma();
            if adt.is_enum() {
                let dv = adt.discriminant_for_variant(tcx, vi);
                j.kv_num("discr", dv.val);
                j.comma();
            }
            j.key("fields");
            j.raw("[");
            for f in v.fields.iter() {
                j.raw("{");
                j.kv_str("name", f.name.as_str());
                j.comma();
                let fty = tcx.type_of(f.did).instantiate_identity().skip_norm_wip();
                j.kv_str("ty", &cx.ty_str(fty));
                j.comma();
                j.kv_bool("pub", f.vis.is_public());
                j.raw("}");
                j.comma();
            }
            j.uncomma();
            j.raw("]");
            j.raw("}");
            j.comma();
        }
        j.uncomma();
        j.raw("]");
        j.raw("}");
        j.comma();
    }
    j.uncomma();
    j.raw("]");
    j.comma();

    j.key("impls");
    j.raw("[");
    for ldid in items.definitions() {
        let did = ldid.to_def_id();
        if !matches!(tcx.def_kind(did), DefKind::Impl { .. }) {
            continue;
        }
        j.raw("{");
        let self_ty = tcx.type_of(did).instantiate_identity().skip_norm_wip();
        j.kv_str("self", &cx.ty_str(self_ty));
        j.comma();
        if let Some(tr) = tcx.impl_opt_trait_ref(did) {
            let tr = tr.instantiate_identity().skip_norm_wip();
            j.kv_str("trait", &cx.path(tr.def_id));
            j.comma();
        }
        j.kv_str("loc", &cx.loc(tcx.def_span(did)).0);
        j.comma();
        j.key("items");
        j.raw("[");
        for it in tcx.associated_item_def_ids(did) {
            let ai = tcx.associated_item(*it);
            j.raw("{");
            j.kv_str("path", &cx.path(*it));
            j.comma();
            j.kv_str("name", ai.name().as_str());
            if let Some(t) = ai.trait_item_def_id() {
                j.comma();
                j.kv_str("trait_item", &cx.path(t));
            }
            j.raw("}");
            j.comma();
        }
        j.uncomma();
        j.raw("]");
        j.raw("}");
        j.comma();
    }
    j.uncomma();
    j.raw("]");
    j.comma();

    // ---- bodies
    j.key("bodies");
    j.raw("[");
    let owners: Vec<LocalDefId> = tcx.hir_body_owners().collect();
    for ldid in owners {
        let did = ldid.to_def_id();
        let dk = tcx.def_kind(did);
        let kind = match dk {
            DefKind::Fn => "Fn",
            DefKind::AssocFn => "AssocFn",
            DefKind::Closure => "Closure",
            DefKind::SyntheticCoroutineBody => "SyntheticCoroutineBody",
            _ => continue,
        };
        let (steal_body, steal_prom) = tcx.mir_promoted(ldid);
        let body = steal_body.borrow();
        let proms = steal_prom.borrow();
        let env = TypingEnv::non_body_analysis(tcx, did);
        j.raw("{");
        j.kv_str("id", &cx.path(did));
        j.comma();
        j.kv_str("kind", kind);
        j.comma();
        let root = tcx.typeck_root_def_id(did);
        if root != did {
            j.kv_str("root", &cx.path(root));
            j.comma();
            j.kv_str("parent", &cx.path(tcx.parent(did)));
            j.comma();
        }
        if matches!(dk, DefKind::Fn | DefKind::AssocFn) {
            j.kv_bool("pub", tcx.visibility(did).is_public());
            j.comma();
            let sig = tcx.fn_sig(did).skip_binder().skip_binder();
            j.kv_bool("unsafe", sig.safety().is_unsafe());
            j.comma();
            j.kv_bool("async", tcx.asyncness(did).is_async());
            j.comma();
            {
                let tfs = &tcx.codegen_fn_attrs(did).target_features;
                if !tfs.is_empty() {
                    j.key("tf");
                    j.raw("[");
                    let mut first = true;
                    for f in tfs.iter() {
                        if !first {
                            j.raw(",");
                        }
                        first = false;
                        j.str(f.name.as_str());
                    }
                    j.raw("]");
                    j.comma();
                }
            }
            if let Some(tr) = tcx.trait_of_assoc(did) {
                j.kv_str("trait_decl", &cx.path(tr));
                j.comma();
            }
            if let Some(imp) = tcx.impl_of_assoc(did) {
                if let Some(tr) = tcx.impl_opt_trait_ref(imp) {
                    let tr = tr.instantiate_identity().skip_norm_wip();
                    j.kv_str("impl_trait", &cx.path(tr.def_id));
                    j.comma();
                }
                let st = tcx.type_of(imp).instantiate_identity().skip_norm_wip();
                j.kv_str("impl_self", &cx.ty_str(st));
                j.comma();
            }
        }
        if let Some(ck) = tcx.coroutine_kind(did) {
            j.kv_str("coroutine", &format!("{:?}", ck));
            j.comma();
        }
        j.kv_str("name", tcx.opt_item_name(did).map(|s| s.to_string()).unwrap_or_default().as_str());
        j.comma();
        j.kv_str("loc", &cx.loc(tcx.def_span(did)).0);
        j.comma();
        {
            let sp = body.span;
            let sm = tcx.sess.source_map();
            if !sp.is_dummy() {
                let hi = sm.lookup_char_pos(sp.source_callsite().hi());
                j.kv_num("end_line", hi.line as u128);
                j.comma();
            }
        }
        let bcx = BodyCx { cx: &cx, body: &body, env };
        bcx.body(&mut j);
        j.comma();
        j.key("promoted");
        j.raw("[");
        for (_, pb) in proms.iter_enumerated() {
            let pcx = BodyCx { cx: &cx, body: pb, env };
            j.raw("{");
            pcx.body(&mut j);
            j.raw("}");
            j.comma();
        }
        j.uncomma();
        j.raw("]");
        j.raw("}");
        j.comma();
    }
    j.uncomma();
    j.raw("]");
    j.raw("}");

    let fname = if tag.is_empty() {
        format!("{}/{}.json", out_dir, crate_name)
    } else {
        format!("{}/{}-{}.json", out_dir, crate_name, tag)
    };
    let tmp = format!("{}.tmp{}", fname, std::process::id());
    std::fs::write(&tmp, j.s.as_bytes()).expect("kvfacts: cannot write fact file");
    std::fs::rename(&tmp, &fname).expect("kvfacts: cannot rename fact file");
}

struct Cb {
    wanted: Vec<String>,
    out_dir: String,
    nonce: String,
    tag: String,
}

impl rustc_driver::Callbacks for Cb {
    fn after_expansion<'tcx>(
        &mut self,
        _compiler: &rustc_interface::interface::Compiler,
        tcx: TyCtxt<'tcx>,
    ) -> Compilation {
        let name = tcx.crate_name(rustc_hir::def_id::LOCAL_CRATE).to_string();
        if self.wanted.iter().any(|w| w == &name) {
            extract(tcx, &name, &self.out_dir, &self.nonce, &self.tag);
        }
        Compilation::Continue
    }
}

fn main() {
    let mut argv: Vec<String> = std::env::args().collect();
    // workspace-wrapper convention: argv[1] is the path of the real rustc
    if argv.len() > 1 && (argv[1].ends_with("rustc") || argv[1].contains("/rustc")) {
        argv.remove(1);
    }
    let wanted: Vec<String> = std::env::var("KVFACTS_CRATES")
        .unwrap_or_default()
        .split(',')
        .filter(|s| !s.is_empty())
        .map(|s| s.to_string())
        .collect();
    let out_dir = std::env::var("KVFACTS_OUT").unwrap_or_else(|_| ".".to_string());
    let nonce = std::env::var("KVFACTS_NONCE").unwrap_or_default();
    let tag = std::env::var("KVFACTS_TAG").unwrap_or_default();
    let mut cb = Cb { wanted, out_dir, nonce, tag };
    rustc_driver::run_compiler(&argv, &mut cb);
}
