//! C01 demonstration driver (process-kill crash points around WAL rotation).
//!
//! This file is an integration test of `kyrodb-engine` that is driven by DEMO/run_demo.sh:
//!
//!   C01C_PHASE=workload  run a fixed history against a persistent HnswBackend rooted at
//!                         $CRASH_DIR, logging BEGIN/ACK lines to $C01C_ACK_FILE. The script
//!                         runs this phase under LD_PRELOAD=crashshim.so with CRASH_AT=n, so the
//!                         process is killed right before the n-th file-system effect.
//!   C01C_PHASE=recover   strict-mode start-up on the crash state left in $CRASH_DIR and
//!                         comparison of the recovered collection with the acknowledged prefix
//!                         of the history (optionally followed by the in-flight operation).
//!
//! Without C01C_PHASE the test is a no-op.

use kyrodb_engine::{metrics::MetricsCollector, DistanceMetric, FsyncPolicy, HnswBackend};
use std::collections::{BTreeMap, HashMap};
use std::io::Write;
use std::path::{Path, PathBuf};

const DIM: usize = 4;
const MAX_ELEMENTS: usize = 64;
// Small segment limit so that the history below rotates the log several times.
const MAX_WAL_BYTES: u64 = 160;

#[derive(Clone, Debug)]
enum Op {
    Insert(u64, Vec<f32>, Vec<(&'static str, &'static str)>),
    Delete(u64),
    UpdateMeta(u64, Vec<(&'static str, &'static str)>),
}

fn history() -> Vec<Op> {
    vec![
        Op::Insert(1, vec![1.0, 0.0, 0.0, 0.0], vec![("k", "a")]),
        Op::Insert(2, vec![0.0, 1.0, 0.0, 0.0], vec![("k", "b")]),
        Op::Insert(3, vec![0.0, 0.0, 1.0, 0.0], vec![("k", "c")]),
        Op::Delete(2),
        Op::Insert(1, vec![0.0, 0.0, 0.0, 1.0], vec![("k", "a2")]), // overwrite
        Op::UpdateMeta(3, vec![("k", "c2"), ("x", "y")]),
        Op::Insert(4, vec![0.5, 0.5, 0.5, 0.5], vec![]),
    ]
}

fn meta(pairs: &[(&'static str, &'static str)]) -> HashMap<String, String> {
    pairs
        .iter()
        .map(|(k, v)| (k.to_string(), v.to_string()))
        .collect()
}

type Model = BTreeMap<u64, (Vec<u32>, BTreeMap<String, String>)>;

fn bits(v: &[f32]) -> Vec<u32> {
    v.iter().map(|x| x.to_bits()).collect()
}

fn apply(model: &mut Model, op: &Op) {
    match op {
        Op::Insert(id, emb, m) => {
            model.insert(*id, (bits(emb), meta(m).into_iter().collect()));
        }
        Op::Delete(id) => {
            model.remove(id);
        }
        Op::UpdateMeta(id, m) => {
            if let Some((_, slot)) = model.get_mut(id) {
                *slot = meta(m).into_iter().collect();
            }
        }
    }
}

fn model_after(n_ops: usize) -> Model {
    let mut model = Model::new();
    for op in history().iter().take(n_ops) {
        apply(&mut model, op);
    }
    model
}

fn observe(backend: &HnswBackend) -> Model {
    let mut out = Model::new();
    for id in backend.scan(|_| true) {
        let emb = backend.fetch_document(id).expect("scanned id has a vector");
        let md = backend.fetch_metadata(id).unwrap_or_default();
        out.insert(id, (bits(&emb), md.into_iter().collect()));
    }
    out
}

fn ack_line(path: &Path, line: &str) {
    let mut f = std::fs::OpenOptions::new()
        .create(true)
        .append(true)
        .open(path)
        .unwrap();
    f.write_all(line.as_bytes()).unwrap();
}

fn workload(dir: &Path, ack_file: &Path) {
    let backend = HnswBackend::with_persistence(
        DIM,
        DistanceMetric::Euclidean,
        Vec::new(),
        Vec::new(),
        MAX_ELEMENTS,
        dir,
        FsyncPolicy::Always,
        3, // automatic snapshot every 3 mutations: snapshots + log compaction + rotation
        MAX_WAL_BYTES,
    )
    .expect("fresh start");
    ack_line(ack_file, "STARTED\n");

    for (i, op) in history().into_iter().enumerate() {
        ack_line(ack_file, &format!("BEGIN {i}\n"));
        match op {
            Op::Insert(id, emb, m) => backend.insert(id, emb, meta(&m)).expect("insert"),
            Op::Delete(id) => {
                assert!(backend.delete(id).expect("delete"));
            }
            Op::UpdateMeta(id, m) => {
                assert!(backend.update_metadata(id, meta(&m), false).expect("update"));
            }
        }
        ack_line(ack_file, &format!("ACK {i}\n"));
    }
    ack_line(ack_file, "DONE\n");
}

fn recover_and_check(dir: &Path, ack_file: &Path) {
    let log = std::fs::read_to_string(ack_file).unwrap_or_default();
    let acked = log.lines().filter(|l| l.starts_with("ACK ")).count();
    let begun = log.lines().filter(|l| l.starts_with("BEGIN ")).count();
    let in_flight = begun > acked;

    if !dir.join("MANIFEST").exists() {
        // The server starts fresh when there is no MANIFEST; legal only if nothing was acked.
        assert_eq!(acked, 0, "no MANIFEST although {acked} operations were acknowledged");
        println!("RESULT ok fresh-start (no MANIFEST yet, nothing acknowledged)");
        return;
    }

    let recovered = HnswBackend::recover(
        DIM,
        DistanceMetric::Euclidean,
        dir,
        MAX_ELEMENTS,
        FsyncPolicy::Always,
        3,
        MAX_WAL_BYTES,
        MetricsCollector::new(),
    );
    let backend = match recovered {
        Ok(b) => b,
        Err(e) => {
            println!("RESULT FAIL strict start-up refused (acked={acked}, in_flight={in_flight}): {e:#}");
            panic!("C01 violated: strict-mode start-up failed after a process kill: {e:#}");
        }
    };

    let got = observe(&backend);
    let want_a = model_after(acked);
    let want_b = model_after(if in_flight { acked + 1 } else { acked });
    if got == want_a || got == want_b {
        println!(
            "RESULT ok recovered {} docs == acknowledged prefix of {acked} ops{}",
            got.len(),
            if in_flight { " (+ optional in-flight op)" } else { "" }
        );
    } else {
        println!("RESULT FAIL recovered state differs: got {got:?}, want {want_a:?} or {want_b:?}");
        panic!("C01 violated: recovered collection differs from acknowledged history");
    }
}

#[test]
fn c01_compaction_driver() {
    let Ok(phase) = std::env::var("C01C_PHASE") else {
        return;
    };
    let dir = PathBuf::from(std::env::var("CRASH_DIR").expect("CRASH_DIR"));
    let ack_file = PathBuf::from(std::env::var("C01C_ACK_FILE").expect("C01C_ACK_FILE"));
    match phase.as_str() {
        "workload" => workload(&dir, &ack_file),
        "recover" => recover_and_check(&dir, &ack_file),
        other => panic!("unknown C01C_PHASE {other}"),
    }
}
