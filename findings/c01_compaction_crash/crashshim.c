// LD_PRELOAD shim: process-kill crash injection at file-system-effect granularity.
//
// Every state-changing libc call on a path under $CRASH_DIR (open with O_CREAT/O_TRUNC,
// write, fsync, fdatasync, ftruncate, rename, unlink) is numbered 1,2,3,...
// If $CRASH_AT == n, the process is killed (_exit(137)) immediately BEFORE effect #n is
// executed, i.e. the on-disk state is exactly "effects 1..n-1 completed" (process-kill model:
// every completed effect persists, nothing else).
// If $CRASH_TRACE is set, one line per effect is appended to that file.
//
// Build: gcc -shared -fPIC -O2 -o crashshim.so crashshim.c -ldl -lpthread
#define _GNU_SOURCE
#include <dlfcn.h>
#include <fcntl.h>
#include <pthread.h>
#include <stdarg.h>
#include <stdio.h>
#include <stdlib.h>
#include <string.h>
#include <sys/stat.h>
#include <sys/types.h>
#include <unistd.h>

#define MAXFD 4096
static char g_dir[1024];
static size_t g_dirlen;
static long g_crash_at;
static long g_counter;
static int g_trace_fd = -1;
static char g_tracked[MAXFD];
static char g_fdname[MAXFD][96];
static pthread_mutex_t g_mu = PTHREAD_MUTEX_INITIALIZER;

static int (*real_open)(const char *, int, ...);
static int (*real_open64)(const char *, int, ...);
static int (*real_openat)(int, const char *, int, ...);
static int (*real_openat64)(int, const char *, int, ...);
static ssize_t (*real_write)(int, const void *, size_t);
static int (*real_fsync)(int);
static int (*real_fdatasync)(int);
static int (*real_ftruncate)(int, off_t);
static int (*real_ftruncate64)(int, off64_t);
static int (*real_rename)(const char *, const char *);
static int (*real_unlink)(const char *);
static int (*real_close)(int);

static int g_inited;
__attribute__((constructor)) static void shim_init(void) {
    if (g_inited) return;
    g_inited = 1;
    real_open = dlsym(RTLD_NEXT, "open");
    real_open64 = dlsym(RTLD_NEXT, "open64");
    real_openat = dlsym(RTLD_NEXT, "openat");
    real_openat64 = dlsym(RTLD_NEXT, "openat64");
    real_write = dlsym(RTLD_NEXT, "write");
    real_fsync = dlsym(RTLD_NEXT, "fsync");
    real_fdatasync = dlsym(RTLD_NEXT, "fdatasync");
    real_ftruncate = dlsym(RTLD_NEXT, "ftruncate");
    real_ftruncate64 = dlsym(RTLD_NEXT, "ftruncate64");
    real_rename = dlsym(RTLD_NEXT, "rename");
    real_unlink = dlsym(RTLD_NEXT, "unlink");
    real_close = dlsym(RTLD_NEXT, "close");

    const char *d = getenv("CRASH_DIR");
    if (d && *d) {
        strncpy(g_dir, d, sizeof(g_dir) - 1);
        g_dirlen = strlen(g_dir);
        while (g_dirlen > 1 && g_dir[g_dirlen - 1] == '/') g_dir[--g_dirlen] = 0;
    }
    const char *a = getenv("CRASH_AT");
    g_crash_at = a ? atol(a) : 0;
    const char *t = getenv("CRASH_TRACE");
    if (t && *t) g_trace_fd = real_open(t, O_WRONLY | O_CREAT | O_APPEND | O_CLOEXEC, 0644);
}

static int under_dir(const char *p) {
    if (!g_dirlen || !p) return 0;
    if (strncmp(p, g_dir, g_dirlen) != 0) return 0;
    return p[g_dirlen] == 0 || p[g_dirlen] == '/';
}

static const char *rel(const char *p) {
    if (p[g_dirlen] == 0) return ".";
    return p + g_dirlen + 1;
}

static void effect(const char *op, const char *a, const char *b, long n) {
    char line[512];
    pthread_mutex_lock(&g_mu);
    long id = ++g_counter;
    int crash = (g_crash_at > 0 && id == g_crash_at);
    int len;
    if (b)
        len = snprintf(line, sizeof line, "#%ld%s %s %s -> %s\n", id, crash ? " CRASH-BEFORE" : "", op, a, b);
    else if (n >= 0)
        len = snprintf(line, sizeof line, "#%ld%s %s %s (%ld bytes)\n", id, crash ? " CRASH-BEFORE" : "", op, a, n);
    else
        len = snprintf(line, sizeof line, "#%ld%s %s %s\n", id, crash ? " CRASH-BEFORE" : "", op, a);
    if (g_trace_fd >= 0 && len > 0) real_write(g_trace_fd, line, (size_t)len);
    if (crash) _exit(137);
    pthread_mutex_unlock(&g_mu);
}

static void track(int fd, const char *path) {
    if (fd >= 0 && fd < MAXFD) {
        g_tracked[fd] = 1;
        strncpy(g_fdname[fd], rel(path), sizeof(g_fdname[fd]) - 1);
        g_fdname[fd][sizeof(g_fdname[fd]) - 1] = 0;
    }
}

static int is_tracked(int fd) { return fd >= 0 && fd < MAXFD && g_tracked[fd]; }

#define OPEN_BODY(REAL, ...)                                                   \
    mode_t mode = 0;                                                           \
    if (flags & (O_CREAT | O_TMPFILE)) {                                       \
        va_list ap;                                                            \
        va_start(ap, flags);                                                   \
        mode = va_arg(ap, mode_t);                                             \
        va_end(ap);                                                            \
    }                                                                          \
    shim_init();                                                               \
    int mine = under_dir(path);                                                \
    if (mine && (flags & (O_CREAT | O_TRUNC)))                                 \
        effect((flags & O_TRUNC) ? "open(O_CREAT|O_TRUNC)" : "open(O_CREAT)", rel(path), NULL, -1); \
    int fd = REAL(__VA_ARGS__, flags, mode);                                   \
    if (mine) track(fd, path);                                                 \
    return fd;

int open(const char *path, int flags, ...) { OPEN_BODY(real_open, path) }
int open64(const char *path, int flags, ...) { OPEN_BODY(real_open64, path) }
int openat(int dfd, const char *path, int flags, ...) { OPEN_BODY(real_openat, dfd, path) }
int openat64(int dfd, const char *path, int flags, ...) { OPEN_BODY(real_openat64, dfd, path) }

ssize_t write(int fd, const void *buf, size_t n) {
    shim_init();
    if (is_tracked(fd)) effect("write", g_fdname[fd], NULL, (long)n);
    return real_write(fd, buf, n);
}
int fsync(int fd) {
    shim_init();
    if (is_tracked(fd)) effect("fsync", g_fdname[fd], NULL, -1);
    return real_fsync(fd);
}
int fdatasync(int fd) {
    shim_init();
    if (is_tracked(fd)) effect("fdatasync", g_fdname[fd], NULL, -1);
    return real_fdatasync(fd);
}
int ftruncate(int fd, off_t len) {
    shim_init();
    if (is_tracked(fd)) effect("ftruncate", g_fdname[fd], NULL, (long)len);
    return real_ftruncate(fd, len);
}
int ftruncate64(int fd, off64_t len) {
    shim_init();
    if (is_tracked(fd)) effect("ftruncate", g_fdname[fd], NULL, (long)len);
    return real_ftruncate64(fd, len);
}
int rename(const char *a, const char *b) {
    shim_init();
    if (under_dir(a) || under_dir(b)) effect("rename", under_dir(a) ? rel(a) : a, under_dir(b) ? rel(b) : b, -1);
    return real_rename(a, b);
}
int unlink(const char *p) {
    shim_init();
    if (under_dir(p)) effect("unlink", rel(p), NULL, -1);
    return real_unlink(p);
}
int close(int fd) {
    shim_init();
    if (fd >= 0 && fd < MAXFD) g_tracked[fd] = 0;
    return real_close(fd);
}
