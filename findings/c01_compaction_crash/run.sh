#!/usr/bin/env bash
# C01 / round 4 demonstration: kill the process before every file-system effect of a small
# history (log appends + log rotations, fsync-every-write), then do a strict-mode start-up on
# the crash state and compare with the acknowledged prefix.
#
# Usage:  DEMO/run_demo.sh [label]
# Run it on the changed tree and (after `git apply -R DEMO/patch.diff`) on the original tree.
set -u
ROOT=${ROOT:-/tmp/f1}
DEMO=$(cd "$(dirname "$0")" && pwd)
export CARGO_NET_OFFLINE=true
export CARGO_TARGET_DIR=${CARGO_TARGET_DIR:-/tmp/f1-target}
LABEL=${1:-tree}
WORK=$(mktemp -d /tmp/c01cdemo.XXXXXX)
trap 'rm -rf "$WORK"' EXIT

gcc -shared -fPIC -O2 -o "$WORK/crashshim.so" "$DEMO/crashshim.c" -ldl -lpthread || exit 1

cp "$DEMO/c01_compaction_crash.rs" "$ROOT/engine/tests/c01_compaction_crash.rs"
BIN=$(cd "$ROOT" && cargo test -p kyrodb-engine --test c01_compaction_crash --no-run --offline -j 4 --message-format=json 2>/dev/null \
      | grep -o '"executable":"[^"]*c01_compaction_crash[^"]*"' | tail -n1 | cut -d'"' -f4)
rm -f "$ROOT/engine/tests/c01_compaction_crash.rs"
[ -x "$BIN" ] || { echo "could not build the driver"; exit 1; }

run_phase() { # phase, extra env...
  local phase=$1; shift
  env "$@" C01C_PHASE=$phase CRASH_DIR="$WORK/data" C01C_ACK_FILE="$WORK/acks" RUST_LOG=off \
      "$BIN" --exact c01_compaction_driver --nocapture --test-threads=1
}

# Pass 0: no crash, just trace the effects so we know how many crash points there are.
rm -rf "$WORK/data" "$WORK/acks" "$WORK/trace"; mkdir -p "$WORK/data"
run_phase workload LD_PRELOAD="$WORK/crashshim.so" CRASH_AT=0 CRASH_TRACE="$WORK/trace" >/dev/null 2>&1
TOTAL=$(wc -l < "$WORK/trace")
echo "=== [$LABEL] file-system effects of the un-crashed history ($TOTAL effects) ==="
sed -E 's/[0-9]{16}/<ts>/g' "$WORK/trace"
echo
echo "=== [$LABEL] crash before effect n -> strict start-up on the crash state ==="
FAILS=0
for n in $(seq 1 "$TOTAL"); do
  rm -rf "$WORK/data" "$WORK/acks" "$WORK/trace"; mkdir -p "$WORK/data"
  run_phase workload LD_PRELOAD="$WORK/crashshim.so" CRASH_AT=$n CRASH_TRACE="$WORK/trace" >/dev/null 2>&1
  rc=$?
  at=$(grep 'CRASH-BEFORE' "$WORK/trace" | sed -E 's/[0-9]{16}/<ts>/g; s/^#[0-9]+ CRASH-BEFORE //')
  res=$(run_phase recover 2>/dev/null | grep -o 'RESULT .*' | sed -E 's/[0-9]{16}/<ts>/g')
  case "$res" in "RESULT ok"*) ;; *) FAILS=$((FAILS+1));; esac
  printf 'n=%-3s rc=%-3s killed-before: %-45s | %s\n' "$n" "$rc" "$at" "${res:-RESULT FAIL (no result line)}"
done
echo
echo "=== [$LABEL] $FAILS of $TOTAL crash points violate C01 ==="
[ "$FAILS" -eq 0 ]
