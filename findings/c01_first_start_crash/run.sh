#!/usr/bin/env bash
# C01 "a crash during start-up itself leaves the next start-up with the same outcome / restart always succeeds", through the real server binary:
# kill the FIRST start-up of the server on a fresh data directory before each of its file-system effects (LD_PRELOAD crash shim of
# findings/c01_compaction_crash), then start the server normally on what is left.
# usage: run.sh <path to kyrodb_server binary>
set -u
BIN=$1
DEMO=$(cd "$(dirname "$0")" && pwd)
W=$(mktemp -d /tmp/f20demo.XXXXXX)
trap 'rm -rf "$W"' EXIT
gcc -shared -fPIC -O2 -o "$W/crashshim.so" "$DEMO/../c01_compaction_crash/crashshim.c" -ldl -lpthread || exit 1
mkcfg() { cat > $W/config.toml <<CFG
[server]
host = "127.0.0.1"
port = 50981
http_port = 50982
[persistence]
data_dir = "$W/data"
enable_recovery = true
[environment]
type = "benchmark"
CFG
}
mkcfg
# pass 0: trace the effects of an undisturbed first start-up (killed by timeout once it serves)
rm -rf $W/data; mkdir -p $W/data
CRASH_DIR=$W/data CRASH_AT=0 CRASH_TRACE=$W/trace LD_PRELOAD=$W/crashshim.so timeout 6 "$BIN" --config $W/config.toml > /dev/null 2>&1
N=$(grep -n -m1 "rename.*MANIFEST" $W/trace | cut -d: -f1)
echo "file-system effects of the first start-up up to the publication of the MANIFEST (effect #$N):"
head -n $N $W/trace | sed -E 's/[0-9]{16}/<id>/g'
echo
FAIL=0
for n in $(seq 1 $((N+1))); do
  rm -rf $W/data; mkdir -p $W/data
  CRASH_DIR=$W/data CRASH_AT=$n LD_PRELOAD=$W/crashshim.so timeout 6 "$BIN" --config $W/config.toml > /dev/null 2>&1
  left=$(ls $W/data | sed -E 's/[0-9]{16}/<id>/g' | tr '\n' ' ')
  timeout 6 "$BIN" --config $W/config.toml > $W/out.txt 2>&1
  rc=$?
  if [ $rc -eq 124 ]; then res="next start-up: serving"; else res="next start-up: REFUSED (exit $rc): $(grep -o 'data directory.*' $W/out.txt | head -1 | sed -E "s#$W#<dir>#g" | cut -c1-120)"; FAIL=$((FAIL+1)); fi
  echo "killed before effect #$n; directory holds: ${left:-nothing} -> $res"
done
echo
echo "crash points after which the server does not start again: $FAIL of $((N+1))"
