#!/usr/bin/env python3
"""Read an strace log (-f -y -e trace=openat,write,pwrite64,fsync,fdatasync,ftruncate,close) and report, per log segment, how many bytes were written after the
last fsync/fdatasync of that file; with --apply DIR drop those bytes (power loss: bytes written since the file's last fsync may be lost)."""
import re, sys, os
log = sys.argv[1]
apply_dir = sys.argv[3] if len(sys.argv) > 3 and sys.argv[2] == '--apply' else None
size, synced = {}, {}
for line in open(log, errors='replace'):
    m = re.search(r'\b(write|pwrite64)\(\d+<([^>]*wal_[^>]*\.wal)>.*\)\s+=\s+(\d+)', line)
    if m:
        p = m.group(2); size[p] = size.get(p, 0) + int(m.group(3)); synced.setdefault(p, 0); continue
    m = re.search(r'\b(fsync|fdatasync)\(\d+<([^>]*wal_[^>]*\.wal)>\)\s+=\s+0', line)
    if m:
        p = m.group(2); synced[p] = size.get(p, 0)
tot = 0
for p in sorted(size):
    lost = size[p] - synced.get(p, 0)
    tot += lost
    print('%-28s written %5d B, covered by its last fsync/fdatasync %5d B, never synced %5d B' % (os.path.basename(p), size[p], synced.get(p, 0), lost))
    if apply_dir and lost:
        f = os.path.join(apply_dir, os.path.basename(p))
        os.truncate(f, synced.get(p, 0))
print('never-synced log bytes at the power loss: %d' % tot)
