//! C01, periodic-fsync clause: "every operation acknowledged more than one configured flush interval before the
//! failure survives power loss".
//!
//! F19_PHASE=workload  engine with FsyncPolicy::Periodic(50 ms) and the same background ticker the server runs
//!                     (TieredEngine::spawn_flush_task, tick = wal_flush_interval); two inserts back to back, then 20 idle
//!                     intervals, then the process exits without a clean shutdown. run.sh traces the process with
//!                     strace and computes, per log segment, the bytes written after the last fsync/fdatasync.
//!                     With F19_ROTATE=1 the segment limit is small and writes keep coming, so the log rotates.
//! F19_PHASE=recover   strict start-up on the directory after run.sh dropped the never-synced bytes (power loss).
use kyrodb_engine::*;
use std::collections::HashMap;
use std::sync::Arc;
use std::time::Duration;

const INTERVAL_MS: u64 = 50;

fn cfg(dir: &str, rotate: bool) -> TieredEngineConfig {
    TieredEngineConfig {
        hot_tier_max_size: 1000,
        hot_tier_hard_limit: 2000,
        hnsw_max_elements: 1000,
        embedding_dimension: 4,
        hnsw_distance: DistanceMetric::Euclidean,
        data_dir: Some(dir.to_string()),
        fsync_policy: FsyncPolicy::Periodic(INTERVAL_MS),
        snapshot_interval: 0,
        max_wal_size_bytes: if rotate { 300 } else { 0 },
        flush_interval: Duration::from_millis(INTERVAL_MS),
        ..Default::default()
    }
}

fn v(i: u64) -> Vec<f32> {
    vec![i as f32, 1.0, 0.5, 0.25]
}

#[test]
fn f19_driver() {
    let Ok(phase) = std::env::var("F19_PHASE") else { return };
    let dir = std::env::var("F19_DIR").expect("F19_DIR");
    let rotate = std::env::var("F19_ROTATE").is_ok();
    match phase.as_str() {
        "workload" => {
            let rt = tokio::runtime::Builder::new_multi_thread().worker_threads(2).enable_all().build().unwrap();
            rt.block_on(async {
                let engine = Arc::new(
                    TieredEngine::new(
                        Box::new(LruCacheStrategy::new(8)),
                        Arc::new(QueryHashCache::new(8, 0.9)),
                        Vec::new(),
                        Vec::new(),
                        cfg(&dir, rotate),
                    )
                    .unwrap(),
                );
                // TieredEngine's own background ticker (the server binary runs a copy of the same loop): every wal_flush_interval
                let (_shutdown_tx, shutdown_rx) = tokio::sync::broadcast::channel::<()>(1);
                let _ticker = engine.clone().spawn_flush_task(shutdown_rx);
                tokio::time::sleep(Duration::from_millis(3 * INTERVAL_MS)).await;
                if rotate {
                    // steady traffic: one write every 20 ms for 1.2 s, the segment limit forces rotations
                    for i in 1..=60u64 {
                        engine.insert(i, v(i), HashMap::new()).unwrap();
                        eprintln!("ACK {i}");
                        tokio::time::sleep(Duration::from_millis(20)).await;
                    }
                } else {
                    engine.insert(1, v(1), HashMap::new()).unwrap(); // elapsed >= interval: synced
                    eprintln!("ACK 1");
                    engine.insert(2, v(2), HashMap::new()).unwrap(); // elapsed < interval: not synced
                    eprintln!("ACK 2");
                }
                tokio::time::sleep(Duration::from_millis(20 * INTERVAL_MS)).await; // 20 flush intervals, no traffic
                eprintln!("POWER-LOSS after 20 idle flush intervals");
                std::process::exit(0);
            });
        }
        "recover" => {
            let acked: u64 = std::env::var("F19_ACKED").unwrap().parse().unwrap();
            let backend = HnswBackend::recover(
                4,
                DistanceMetric::Euclidean,
                &dir,
                1000,
                FsyncPolicy::Periodic(INTERVAL_MS),
                0,
                0,
                metrics::MetricsCollector::new(),
            )
            .expect("strict start-up");
            let missing: Vec<u64> = (1..=acked).filter(|id| backend.fetch_document(*id).is_none()).collect();
            if missing.is_empty() {
                println!("RESULT ok: all {acked} acknowledged documents recovered");
            } else {
                println!(
                    "RESULT FAIL: {} of {acked} documents acknowledged >= 20 flush intervals before the power loss are gone: {:?}",
                    missing.len(),
                    missing
                );
            }
        }
        other => panic!("unknown phase {other}"),
    }
}
