#!/usr/bin/env bash
# C01 periodic-fsync clause, demonstration against the real code (tree in $ROOT, default /tmp/f19).
set -u
ROOT=${ROOT:-/tmp/f19}
DEMO=$(cd "$(dirname "$0")" && pwd)
export CARGO_NET_OFFLINE=true
export CARGO_TARGET_DIR=${CARGO_TARGET_DIR:-/tmp/f19-target}
WORK=$(mktemp -d /tmp/f19demo.XXXXXX)
trap 'rm -rf "$WORK"' EXIT
cp "$DEMO/c01_periodic_fsync.rs" "$ROOT/engine/tests/c01_periodic_fsync.rs"
BIN=$(cd "$ROOT" && cargo test -p kyrodb-engine --test c01_periodic_fsync --no-run --offline --message-format=json 2>/dev/null \
      | grep -o '"executable":"[^"]*c01_periodic_fsync[^"]*"' | tail -n1 | cut -d'"' -f4)
rm -f "$ROOT/engine/tests/c01_periodic_fsync.rs"
[ -x "$BIN" ] || { echo "could not build the driver"; exit 1; }
for mode in idle rotate; do
  echo "=== [$(git -C "$ROOT" rev-parse --short HEAD)$(git -C "$ROOT" diff --quiet || echo '+changes')] scenario: $mode ==="
  rm -rf "$WORK/data"; mkdir -p "$WORK/data"
  EXTRA=(); [ $mode = rotate ] && EXTRA=(F19_ROTATE=1)
  env F19_PHASE=workload F19_DIR="$WORK/data" RUST_LOG=off "${EXTRA[@]}" \
    strace -f -y -e trace=write,pwrite64,fsync,fdatasync -o "$WORK/strace.$mode" \
    "$BIN" --exact f19_driver --nocapture --test-threads=1 2> "$WORK/err.$mode" >/dev/null
  ACKED=$(grep -c '^ACK ' "$WORK/err.$mode")
  grep -E '^POWER-LOSS' "$WORK/err.$mode"
  echo "acknowledged operations: $ACKED (the last one at least 20 flush intervals before the power loss)"
  python3 "$DEMO/analyse.py" "$WORK/strace.$mode" --apply "$WORK/data"
  env F19_PHASE=recover F19_DIR="$WORK/data" F19_ACKED=$ACKED RUST_LOG=off "$BIN" --exact f19_driver --nocapture --test-threads=1 2>/dev/null | grep RESULT
  echo
done
