// A hot-tier drain takes the mirror entries out first (drain_for_flush) and reconciles them one by one afterwards. A delete that completes while a drained entry
// is still waiting in the drain's batch finds nothing to remove from the mirror; when the drain reaches that entry the canonical record is missing, the
// "repair from mirror" arm re-inserts it: delete() returned Ok(true), and the document is live again.
use kyrodb_engine::cache_strategy::LruCacheStrategy;
use kyrodb_engine::query_hash_cache::QueryHashCache;
use kyrodb_engine::tiered_engine::{TieredEngine, TieredEngineConfig};
use std::collections::HashMap;
use std::sync::Arc;

fn v(i: u64) -> Vec<f32> {
    vec![(i % 97) as f32 + 1.0, (i % 13) as f32 + 1.0, 1.0, 0.5]
}

#[test]
fn delete_during_a_drain_is_undone_by_the_repair_arm() {
    let n: u64 = 4000;
    let config = TieredEngineConfig {
        hot_tier_max_size: 100_000,
        hot_tier_hard_limit: 200_000,
        hnsw_max_elements: 20_000,
        embedding_dimension: 4,
        hnsw_distance: kyrodb_engine::DistanceMetric::Euclidean,
        data_dir: None,
        ..Default::default()
    };
    let engine = Arc::new(
        TieredEngine::new(Box::new(LruCacheStrategy::new(16)), Arc::new(QueryHashCache::new(16, 0.85)), vec![v(0)], vec![HashMap::new()], config).unwrap(),
    );
    for id in 1..=n {
        engine.insert(id, v(id), HashMap::new()).unwrap();
    }
    let e2 = engine.clone();
    let flusher = std::thread::spawn(move || e2.flush_hot_tier(true).unwrap());
    // delete while the drain is reconciling its batch
    let mut acknowledged = Vec::new();
    for id in (1..=n).rev() {
        if engine.delete(id).unwrap() {
            acknowledged.push(id);
        }
    }
    flusher.join().unwrap();
    let resurrected: Vec<u64> = acknowledged.iter().copied().filter(|id| engine.exists(*id) || engine.query(*id, None).is_some()).collect();
    println!("deletes acknowledged: {}, of which live again after the drain finished: {} (e.g. {:?})", acknowledged.len(), resurrected.len(), &resurrected[..resurrected.len().min(8)]);
    assert!(resurrected.is_empty(), "{} acknowledged deletes were undone by the drain", resurrected.len());
}
