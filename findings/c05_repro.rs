use kyrodb_engine::{LruCacheStrategy, QueryHashCache, TieredEngine, TieredEngineConfig};
use std::collections::HashMap;
use std::sync::atomic::{AtomicBool, AtomicU64, Ordering};
use std::sync::Arc;

fn engine() -> Arc<TieredEngine> {
    let cfg = TieredEngineConfig { embedding_dimension: 2, hnsw_distance: kyrodb_engine::config::DistanceMetric::Euclidean, hnsw_max_elements: 200_000, ..TieredEngineConfig::default() };
    Arc::new(TieredEngine::new(Box::new(LruCacheStrategy::new(64)), Arc::new(QueryHashCache::new(64, 0.9)), Vec::new(), Vec::new(), cfg).unwrap())
}

fn run(kind: &'static str) -> (u64, u64) {
    let e = engine();
    let stop = Arc::new(AtomicBool::new(false));
    let bad = Arc::new(AtomicU64::new(0));
    let total = Arc::new(AtomicU64::new(0));
    e.insert(1, vec![0.0, 1.0], HashMap::from([("v".to_string(), "0".to_string())])).unwrap();
    let mut hs = vec![];
    for _ in 0..3 {
        let (e, stop, bad, total) = (e.clone(), stop.clone(), bad.clone(), total.clone());
        hs.push(std::thread::spawn(move || {
            while !stop.load(Ordering::Relaxed) {
                let got = match kind {
                    "doc" => e.get_document_with_metadata(1),
                    _ => e.bulk_query_with_source(&[1], true).into_iter().next().flatten().map(|(a, b, _)| (a, b)),
                };
                if let Some((emb, meta)) = got {
                    total.fetch_add(1, Ordering::Relaxed);
                    let v: f32 = meta.get("v").unwrap().parse().unwrap();
                    if emb[0] != v { bad.fetch_add(1, Ordering::Relaxed); }
                }
            }
        }));
    }
    for i in 1..40_000u32 {
        e.insert(1, vec![i as f32, 1.0], HashMap::from([("v".to_string(), i.to_string())])).unwrap();
    }
    stop.store(true, Ordering::Relaxed);
    for h in hs { h.join().unwrap(); }
    (bad.load(Ordering::Relaxed), total.load(Ordering::Relaxed))
}

#[test]
fn f6_get_document_with_metadata_pairs_vector_and_metadata() {
    let (bad, total) = run("doc");
    println!("doc: {bad} of {total} reads mixed two writes");
    assert_eq!(bad, 0, "{bad} of {total} reads returned a vector and metadata from different writes");
}
#[test]
fn f6_bulk_query_pairs_vector_and_metadata() {
    let (bad, total) = run("bulk");
    println!("bulk: {bad} of {total} reads mixed two writes");
    assert_eq!(bad, 0, "{bad} of {total} reads returned a vector and metadata from different writes");
}
