// In-memory backend (no data_dir): tombstone compaction excludes writers only through the snapshot lock, which exists only with persistence.
// HnswBackend::delete / update_metadata look up the internal slot under the write gate, release the store, and apply with that slot; a compaction
// triggered by another thread's insert into a full index (it does not take the write gate) renumbers all slots in between.
use kyrodb_engine::hnsw_backend::HnswBackend;
use kyrodb_engine::DistanceMetric;
use std::collections::HashMap;
use std::sync::atomic::{AtomicBool, AtomicU64, Ordering};
use std::sync::Arc;

fn big_md() -> HashMap<String, String> {
    // a large metadata map only widens the window: delete clones it while it holds the store for its slot lookup
    (0..50).map(|i| (format!("key{}", i), format!("value{}", i))).collect()
}

fn v(i: u64) -> Vec<f32> {
    vec![i as f32, 1.0, 0.0, 0.0]
}

#[test]
fn delete_races_with_tombstone_compaction_in_memory() {
    let cap = 16usize;
    let mut emb = Vec::new();
    let mut md = Vec::new();
    for i in 0..cap as u64 {
        emb.push(v(i));
        md.push(big_md());
    }
    let backend = Arc::new(HnswBackend::new(4, DistanceMetric::Euclidean, emb, md, cap).unwrap());
    let stop = Arc::new(AtomicBool::new(false));
    let panics = Arc::new(AtomicU64::new(0));

    // churn thread A: ids 0..8 deleted and re-inserted (creates tombstones; a full index + tombstones compacts)
    let mut hs = Vec::new();
    for t in 0..3u64 {
        let b = backend.clone();
        let stop = stop.clone();
        let panics = panics.clone();
        hs.push(std::thread::spawn(move || {
            let r = std::panic::catch_unwind(std::panic::AssertUnwindSafe(|| {
                let mut n = 0u64;
                while !stop.load(Ordering::Relaxed) {
                    let id = (n % 4) + 4 * t; // each thread owns 4 ids: its own deletes/inserts never conflict on an id
                    let _ = b.delete(id);
                    // a racing compaction can make one attempt report "index full"; that refusal is without effect, so retry
                    let mut tries = 0;
                    while let Err(e) = b.insert(id, v(id), big_md()) {
                        tries += 1;
                        assert!(tries < 1000, "insert keeps failing: {}", e);
                    }
                    n += 1;
                }
            }));
            if r.is_err() {
                panics.fetch_add(1, Ordering::SeqCst);
            }
        }));
    }
    // searchers hold index.read() for the duration of a search: a compaction waiting for index.write() lets the next writer through the write gate
    for _ in 0..4 {
        let b = backend.clone();
        let stop = stop.clone();
        hs.push(std::thread::spawn(move || {
            while !stop.load(Ordering::Relaxed) {
                let _ = b.knn_search(&v(3), 16);
            }
        }));
    }
    std::thread::sleep(std::time::Duration::from_secs(8));
    stop.store(true, Ordering::SeqCst);
    for h in hs {
        let _ = h.join();
    }
    // every thread ends each iteration with insert(id) of an id only it touches: sequentially, all 16 ids are live with their own vector at the end
    let mut wrong = Vec::new();
    for id in 0..16u64 {
        match backend.fetch_document(id) {
            Some(e) if e == v(id) && backend.exists(id) => {}
            other => wrong.push((id, backend.exists(id), other)),
        }
    }
    let res = backend.knn_search(&v(0), 16).unwrap();
    let mut ids: Vec<u64> = res.iter().map(|r| r.doc_id).collect();
    ids.sort_unstable();
    let distinct = { let mut d = ids.clone(); d.dedup(); d.len() };
    println!("writer panics: {}, wrong documents: {:?}, len() = {}, search returned {} ids ({} distinct): {:?}", panics.load(Ordering::SeqCst), wrong, backend.len(), ids.len(), distinct, ids);
    assert_eq!(panics.load(Ordering::SeqCst), 0, "a writer panicked");
    assert!(wrong.is_empty(), "documents whose last operation was a successful insert are missing or wrong: {:?}", wrong);
    assert_eq!(distinct, 16, "search does not return the 16 live documents exactly once");
}
