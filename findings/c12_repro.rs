use kyrodb_engine::backup::{BackupManager, BackupMetadata, RestoreManager, RetentionPolicy, ClearDirectoryOptions};
use kyrodb_engine::config::DistanceMetric;
use kyrodb_engine::{FsyncPolicy, HnswBackend, MetricsCollector};
use std::collections::HashMap;
use std::path::Path;
use tempfile::TempDir;

fn backend(dir: &Path, max_wal: u64) -> HnswBackend {
    HnswBackend::with_persistence(2, DistanceMetric::Euclidean, vec![], vec![], 100, dir, FsyncPolicy::Always, 1000, max_wal).unwrap()
}
fn age(backup_dir: &Path, id: uuid::Uuid, secs: u64) {
    let p = backup_dir.join(format!("backup_{}.json", id));
    let mut m: BackupMetadata = serde_json::from_str(&std::fs::read_to_string(&p).unwrap()).unwrap();
    m.timestamp -= secs;
    std::fs::write(&p, serde_json::to_string_pretty(&m).unwrap()).unwrap();
}

#[test]
fn f4_prune_keeps_parent_of_retained_incremental() {
    let data = TempDir::new().unwrap(); let bk = TempDir::new().unwrap(); let out = TempDir::new().unwrap();
    let b = backend(data.path(), 1 << 20);
    b.insert(1, vec![1.0, 1.0], HashMap::new()).unwrap();
    b.sync_wal().unwrap();
    let mgr = BackupManager::new(bk.path(), data.path()).unwrap();
    let full = mgr.create_full_backup("full".into()).unwrap();
    std::thread::sleep(std::time::Duration::from_millis(1100));
    b.insert(2, vec![2.0, 1.0], HashMap::new()).unwrap();
    b.sync_wal().unwrap();
    let inc = mgr.create_incremental_backup(full.id, "inc".into()).unwrap();
    drop(b);
    age(bk.path(), full.id, 2 * 86400 + 10);
    age(bk.path(), inc.id, 2 * 86400);
    let policy = RetentionPolicy { hourly_hours: 1, daily_days: 7, weekly_weeks: 4, monthly_months: 6, min_age_days: 0 };
    let deleted = mgr.prune_backups(&policy).unwrap();
    println!("deleted {:?} (full {} inc {})", deleted, full.id, inc.id);
    let r = RestoreManager::new(bk.path(), out.path()).unwrap()
        .restore_from_backup_with_options(inc.id, &ClearDirectoryOptions::new().with_allow_clear(true));
    assert!(r.is_ok(), "restore of the retained incremental failed: {:?}", r.err());
}

#[test]
fn f5_incremental_after_snapshot_is_startable() {
    let data = TempDir::new().unwrap(); let bk = TempDir::new().unwrap(); let out = TempDir::new().unwrap();
    let b = backend(data.path(), 64);
    b.insert(1, vec![1.0, 1.0], HashMap::new()).unwrap();
    b.sync_wal().unwrap();
    let mgr = BackupManager::new(bk.path(), data.path()).unwrap();
    let full = mgr.create_full_backup("full".into()).unwrap();
    std::thread::sleep(std::time::Duration::from_millis(1100));
    for i in 2..=4u64 { b.insert(i, vec![i as f32, 1.0], HashMap::new()).unwrap(); }
    b.create_snapshot().unwrap();
    for i in 5..=6u64 { b.insert(i, vec![i as f32, 1.0], HashMap::new()).unwrap(); }
    b.sync_wal().unwrap();
    let inc = mgr.create_incremental_backup(full.id, "inc".into()).unwrap();
    drop(b);
    RestoreManager::new(bk.path(), out.path()).unwrap()
        .restore_from_backup_with_options(inc.id, &ClearDirectoryOptions::new().with_allow_clear(true)).unwrap();
    let r = HnswBackend::recover(2, DistanceMetric::Euclidean, out.path(), 100, FsyncPolicy::Always, 1000, 1 << 20, MetricsCollector::new());
    match r {
        Ok(rb) => { let n = (1..=6u64).filter(|i| rb.fetch_document(*i).is_some()).count(); assert_eq!(n, 6, "restored collection has {n} of 6 documents"); }
        Err(e) => panic!("start-up from the restored directory refused: {e:#}"),
    }
}
