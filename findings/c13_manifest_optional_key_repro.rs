// MANIFEST is JSON without a checksum. Its two optional fields (`latest_snapshot`, `latest_snapshot_wal_seq`) fall back to None when their key is absent, and
// serde skips unknown keys: one flipped bit in the key "latest_snapshot" therefore makes strict recovery start WITHOUT the snapshot — it replays only the
// segments that survived log compaction and reports success with a collection that lacks everything the snapshot held.
use kyrodb_engine::hnsw_backend::HnswBackend;
use kyrodb_engine::metrics::MetricsCollector;
use kyrodb_engine::persistence::FsyncPolicy;
use kyrodb_engine::DistanceMetric;
use std::collections::HashMap;

fn v(i: u64) -> Vec<f32> {
    vec![i as f32, 1.0, 0.0, 0.0]
}

#[test]
fn one_flipped_bit_in_an_optional_manifest_key() {
    let dir = tempfile::tempdir().unwrap();
    {
        let b = HnswBackend::with_persistence(4, DistanceMetric::Euclidean, Vec::new(), Vec::new(), 64, dir.path(), FsyncPolicy::Always, 0, 200).unwrap();
        for i in 1..=6u64 {
            b.insert(i, v(i), HashMap::new()).unwrap();
        }
        b.create_snapshot().unwrap(); // covers 1..=6; compaction deletes the covered segments
        for i in 7..=8u64 {
            b.insert(i, v(i), HashMap::new()).unwrap();
        }
    }
    let mpath = dir.path().join("MANIFEST");
    let mut bytes = std::fs::read(&mpath).unwrap();
    let text = String::from_utf8(bytes.clone()).unwrap();
    let pos = text.find("\"latest_snapshot\"").expect("key present") + 1; // first letter of the key
    bytes[pos] ^= 0x01; // 'l' -> 'm'
    std::fs::write(&mpath, &bytes).unwrap();
    println!("damaged MANIFEST: {}", String::from_utf8_lossy(&bytes));

    let r = HnswBackend::recover(4, DistanceMetric::Euclidean, dir.path(), 64, FsyncPolicy::Always, 0, 200, MetricsCollector::new());
    match r {
        Err(e) => println!("strict start-up refused: {e:#}"),
        Ok(b) => {
            let mut ids: Vec<u64> = b.scan(|_| true);
            ids.sort_unstable();
            println!("strict start-up SUCCEEDED with ids {:?} (acknowledged: 1..=8)", ids);
            assert_eq!(ids, (1..=8).collect::<Vec<u64>>(), "silently wrong collection under strict recovery after one flipped bit in MANIFEST");
        }
    }
}
