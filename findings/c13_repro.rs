use kyrodb_engine::config::DistanceMetric;
use kyrodb_engine::{FsyncPolicy, HnswBackend, MetricsCollector};
use std::collections::HashMap;
use std::path::{Path, PathBuf};
use tempfile::TempDir;

fn build(dir: &Path, n: u64, max_wal: u64, snap_every: usize) {
    let b = HnswBackend::with_persistence(2, DistanceMetric::Euclidean, vec![], vec![], 100, dir, FsyncPolicy::Always, snap_every, max_wal).unwrap();
    for i in 1..=n {
        b.insert(i, vec![i as f32, 1.0], HashMap::new()).unwrap();
    }
    drop(b);
}
fn segments(dir: &Path) -> Vec<PathBuf> {
    let m: serde_json::Value = serde_json::from_str(&std::fs::read_to_string(dir.join("MANIFEST")).unwrap()).unwrap();
    m["wal_segments"].as_array().unwrap().iter().map(|s| dir.join(s.as_str().unwrap())).collect()
}
fn recover_count(dir: &Path) -> Result<usize, String> {
    match HnswBackend::recover(2, DistanceMetric::Euclidean, dir, 100, FsyncPolicy::Always, 1000, 1 << 20, MetricsCollector::new()) {
        Ok(b) => Ok((1..=64u64).filter(|i| b.fetch_document(*i).is_some()).count()),
        Err(e) => Err(format!("{e:#}")),
    }
}
fn first_multi_frame_segment(dir: &Path) -> PathBuf {
    let segs = segments(dir);
    assert!(segs.len() >= 3, "need several segments, got {}", segs.len());
    // a non-newest segment that holds at least 2 frames
    for s in &segs[..segs.len() - 1] {
        if std::fs::metadata(s).unwrap().len() > 4 + 60 { return s.clone(); }
    }
    panic!("no multi-frame non-newest segment");
}
fn frame_len(bytes: &[u8], off: usize) -> usize { u32::from_le_bytes(bytes[off..off + 4].try_into().unwrap()) as usize }

#[test]
fn eof_payload_bitflip_in_length_of_non_newest_segment() {
    let d = TempDir::new().unwrap(); build(d.path(), 8, 150, 1000);
    let seg = first_multi_frame_segment(d.path());
    let mut bytes = std::fs::read(&seg).unwrap();
    bytes[4 + 1] ^= 0x01; // length field of the first frame: +256 bytes -> payload read hits EOF
    std::fs::write(&seg, &bytes).unwrap();
    let r = recover_count(d.path());
    println!("bitflip: {:?}", r);
    assert!(matches!(r, Err(_)) || r == Ok(8), "strict start-up succeeded with {:?} of 8 documents", r);
}
#[test]
fn eof_header_truncate_non_newest_segment_at_frame_boundary() {
    let d = TempDir::new().unwrap(); build(d.path(), 8, 150, 1000);
    let seg = first_multi_frame_segment(d.path());
    let bytes = std::fs::read(&seg).unwrap();
    let l0 = frame_len(&bytes, 4);
    std::fs::write(&seg, &bytes[..4 + 4 + l0 + 4]).unwrap(); // keep exactly the first frame
    let r = recover_count(d.path());
    println!("boundary: {:?}", r);
    assert!(matches!(r, Err(_)) || r == Ok(8), "strict start-up succeeded with {:?} of 8 documents", r);
}
#[test]
fn eof_checksum_truncate_non_newest_segment_inside_checksum() {
    let d = TempDir::new().unwrap(); build(d.path(), 8, 150, 1000);
    let seg = first_multi_frame_segment(d.path());
    let bytes = std::fs::read(&seg).unwrap();
    std::fs::write(&seg, &bytes[..bytes.len() - 2]).unwrap(); // cut inside the last frame's checksum
    let r = recover_count(d.path());
    println!("checksum: {:?}", r);
    assert!(matches!(r, Err(_)) || r == Ok(8), "strict start-up succeeded with {:?} of 8 documents", r);
}
#[test]
fn fallback_snapshot_after_compaction() {
    let d = TempDir::new().unwrap();
    // snapshot every 3 mutations, tiny segments so that compaction removes covered segments
    build(d.path(), 6, 64, 3);
    let mut snaps: Vec<PathBuf> = std::fs::read_dir(d.path()).unwrap().flatten().map(|e| e.path())
        .filter(|p| p.extension().map(|e| e == "snap").unwrap_or(false)).collect();
    snaps.sort();
    assert!(snaps.len() >= 2, "need >= 2 snapshots, got {}", snaps.len());
    let newest = snaps.last().unwrap();
    let mut bytes = std::fs::read(newest).unwrap();
    let mid = bytes.len() / 2; bytes[mid] ^= 0xff;
    std::fs::write(newest, &bytes).unwrap();
    let r = recover_count(d.path());
    println!("fallback: {:?}", r);
    assert!(matches!(r, Err(_)) || r == Ok(6), "strict start-up succeeded with {:?} of 6 documents", r);
}
