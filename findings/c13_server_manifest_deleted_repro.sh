#!/bin/sh
# C13 through the real server binary: delete MANIFEST from a data directory that holds a snapshot and log segments (clean shut-down before), start the server.
# usage: c13_server_manifest_deleted_repro.sh <path to kyrodb_server binary>
BIN=$1
W=$(mktemp -d)
mkdir -p $W/data
# a data directory as the engine leaves it (file names as the engine creates them); content does not matter for the start-up decision
: > $W/data/snapshot_1700000000.snap
: > $W/data/wal_1700000000000000.wal
# MANIFEST deliberately absent ("file removed")
cat > $W/config.toml <<CFG
[server]
host = "127.0.0.1"
port = 50991
http_port = 50992
[persistence]
data_dir = "$W/data"
enable_recovery = true
[environment]
type = "benchmark"
CFG
timeout 8 "$BIN" --config $W/config.toml > $W/out.txt 2>&1
rc=$?
echo "exit code: $rc   (124 = still serving after 8 s, i.e. it started)"
grep -E "No MANIFEST found|refusing to initialize|initialized successfully|Error" $W/out.txt | head -5
ls $W/data
rm -rf $W
