// A valid search whose candidate count is above 5 000 (the server asks for k x oversampling, capped at 10 000) is doubled by the engine (k * 2)
// before it reaches the cold tier, which refuses k > 10 000. The timed path books the refusal as a tier failure: the request is answered OK with
// hot-tier-only results, and three such requests open the cold-tier circuit breaker for every later valid search.
use kyrodb_engine::cache_strategy::LruCacheStrategy;
use kyrodb_engine::query_hash_cache::QueryHashCache;
use kyrodb_engine::tiered_engine::{SearchExecutionPath, TieredEngine, TieredEngineConfig};
use std::collections::HashMap;
use std::sync::Arc;

fn unit(i: usize, dim: usize) -> Vec<f32> {
    let mut v: Vec<f32> = (0..dim).map(|d| (((i * 31 + d * 17) % 97) as f32) + 1.0).collect();
    let n: f32 = v.iter().map(|x| x * x).sum::<f32>().sqrt();
    v.iter_mut().for_each(|x| *x /= n);
    v
}

#[tokio::test(flavor = "multi_thread", worker_threads = 2)]
async fn valid_large_k_poisons_the_cold_tier_breaker() {
    let dim = 8;
    let n = 64;
    let embeddings: Vec<Vec<f32>> = (0..n).map(|i| unit(i, dim)).collect();
    let metadata: Vec<HashMap<String, String>> = vec![HashMap::new(); n];
    let config = TieredEngineConfig {
        hot_tier_max_size: 16,
        hnsw_max_elements: 1000,
        embedding_dimension: dim,
        data_dir: None,
        ..Default::default()
    };
    let engine = TieredEngine::new(
        Box::new(LruCacheStrategy::new(16)),
        Arc::new(QueryHashCache::new(16, 0.85)),
        embeddings,
        metadata,
        config,
    )
    .unwrap();
    let q = unit(3, dim);

    // control: a small valid search is answered from the cold tier
    let (r, path) = engine.knn_search_with_timeouts_with_ef(&q, 5, Some(64)).await.unwrap();
    println!("k=5      -> {} results via {:?}", r.len(), path);
    assert!(!r.is_empty());

    // k = 6000 is accepted by the engine (limit 10 000) and is what the server sends for k = 600 with a namespace + selective filter (x10)
    for round in 0..3 {
        let res = engine.knn_search_with_timeouts_with_ef(&q, 6000, Some(64)).await;
        match &res {
            Ok((r, path)) => println!("k=6000 #{} -> OK, {} results via {:?}", round, r.len(), path),
            Err(e) => println!("k=6000 #{} -> Err({})", round, e),
        }
    }

    // the same small valid search afterwards
    let (r2, path2) = engine.knn_search_with_timeouts_with_ef(&q, 5, Some(64)).await.unwrap();
    println!("k=5 after -> {} results via {:?}", r2.len(), path2);
    assert!(
        !r2.is_empty() && !matches!(path2, SearchExecutionPath::HotTierOnly),
        "a valid search is no longer served from the cold tier after three valid large-k searches: {} results via {:?}",
        r2.len(),
        path2
    );
}
