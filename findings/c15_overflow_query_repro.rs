// A query whose components are finite but whose squared norm overflows f32 passes the request validator (it checks is_finite per component). Under
// cosine / inner product the engine "normalises" it with inv_norm = 1/sqrt(inf) = 0, i.e. to the zero vector, and hands that to the cold tier, which
// refuses a zero-norm query. The timed path books the refusal as a tier failure: the request is answered OK (hot-tier results only) and three such
// requests open the cold-tier circuit breaker for every later valid search.
use kyrodb_engine::cache_strategy::LruCacheStrategy;
use kyrodb_engine::query_hash_cache::QueryHashCache;
use kyrodb_engine::tiered_engine::{SearchExecutionPath, TieredEngine, TieredEngineConfig};
use std::collections::HashMap;
use std::sync::Arc;

fn unit(i: usize, dim: usize) -> Vec<f32> {
    let mut v: Vec<f32> = (0..dim).map(|d| (((i * 31 + d * 17) % 97) as f32) + 1.0).collect();
    let n: f32 = v.iter().map(|x| x * x).sum::<f32>().sqrt();
    v.iter_mut().for_each(|x| *x /= n);
    v
}

#[tokio::test(flavor = "multi_thread", worker_threads = 2)]
async fn overflowing_query_poisons_the_cold_tier_breaker() {
    let dim = 8;
    let n = 64;
    let embeddings: Vec<Vec<f32>> = (0..n).map(|i| unit(i, dim)).collect();
    let metadata: Vec<HashMap<String, String>> = vec![HashMap::new(); n];
    let config = TieredEngineConfig {
        hot_tier_max_size: 16,
        hnsw_max_elements: 1000,
        embedding_dimension: dim,
        data_dir: None,
        ..Default::default()
    };
    let engine = TieredEngine::new(
        Box::new(LruCacheStrategy::new(16)),
        Arc::new(QueryHashCache::new(16, 0.85)),
        embeddings,
        metadata,
        config,
    )
    .unwrap();
    let q = unit(3, dim);
    let (r, path) = engine.knn_search_with_timeouts_with_ef(&q, 5, Some(64)).await.unwrap();
    println!("valid query      -> {} results via {:?}", r.len(), path);
    assert!(!r.is_empty());

    let big = vec![1.0e30f32; dim]; // every component finite, sum of squares = +inf
    assert!(big.iter().all(|v| v.is_finite()));
    let mut refused = 0;
    for round in 0..3 {
        match engine.knn_search_with_timeouts_with_ef(&big, 5, Some(64)).await {
            Ok((r, path)) => println!("overflowing #{} -> OK, {} results via {:?}", round, r.len(), path),
            Err(e) => {
                refused += 1;
                println!("overflowing #{} -> Err({})", round, e)
            }
        }
    }
    let (r2, path2) = engine.knn_search_with_timeouts_with_ef(&q, 5, Some(64)).await.unwrap();
    println!("valid query after -> {} results via {:?} ({} of 3 overflowing queries refused)", r2.len(), path2, refused);
    assert!(
        !r2.is_empty() && !matches!(path2, SearchExecutionPath::HotTierOnly),
        "a valid search is no longer served from the cold tier after three overflowing queries: {} results via {:?}",
        r2.len(),
        path2
    );
    assert_eq!(refused, 3, "an overflowing query must be refused, not answered OK");
}
