use kyrodb_engine::hnsw_index::HnswVectorIndex;
use kyrodb_engine::config::DistanceMetric;

#[test]
fn prefetch_pointer_arithmetic_last_record() {
    // dimension 4, M = 4: 1 + cap(8) + 4 = 13 words -> one 16-word (64-byte) record per node
    let dim = 4usize;
    let n = 160usize;
    let mut index = HnswVectorIndex::new_with_params(dim, n, DistanceMetric::Euclidean, 4, 16, true).unwrap();
    for i in 0..n {
        let v: Vec<f32> = (0..dim).map(|d| ((i * 31 + d * 7) % 97) as f32).collect();
        index.add_vector(i as u64, &v).unwrap();
    }
    let q = vec![1.0f32; dim];
    let r = index.knn_search_with_ef(&q, 100, Some(160)).unwrap();
    assert!(!r.is_empty());
}
