"""Linear upper / lower bounds of index expressions in terms of one length symbol L.

ub(e) = (a, k) means  e ≤ a·L + k  for every execution (a, k rationals);  lb(e) = (a, k) means  e ≥ a·L + k.
Handled: constants, L itself, + − × by a non-negative constant, floor division by a positive constant (relaxed to the rational
quotient, which is sound for an upper bound; the lower bound subtracts (c−1)/c), and loop variables of `lo..hi` ranges
(lo ≤ i ≤ hi − 1).  Anything else is None: the caller fails closed."""
from fractions import Fraction

from . import flow


class Bounds:
    def __init__(self, is_len):
        self.is_len = is_len   # predicate on an origin tree: "this is L"

    def _const(self, e):
        if e[0] == 'const' and e[2] is not None:
            return int(e[2])
        if e[0] == 'cast':
            return self._const(e[1])
        return None

    def multiple_of(self, e, m):
        c = self._const(e)
        if c is not None:
            return c % m == 0
        if e[0] == 'cast':
            return self.multiple_of(e[1], m)
        if e[0] == 'field' and e[2] == '.0' and e[1][0] == 'bin':
            return self.multiple_of(e[1], m)
        if e[0] == 'bin':
            op = e[1].replace('Unchecked', '').replace('WithOverflow', '')
            if op == 'Mul':
                return any(self._const(x) is not None and self._const(x) % m == 0 for x in (e[2], e[3])) or self.multiple_of(e[2], m) or self.multiple_of(e[3], m)
            if op in ('Add', 'Sub'):
                return self.multiple_of(e[2], m) and self.multiple_of(e[3], m)
        return False

    def ub(self, e, depth=0):
        return self._b(e, True, depth)

    def lb(self, e, depth=0):
        return self._b(e, False, depth)

    def _b(self, e, upper, depth):
        if depth > 40:
            return None
        if self.is_len(e):
            return (Fraction(1), Fraction(0))
        t = e[0]
        c = self._const(e)
        if c is not None:
            return (Fraction(0), Fraction(c))
        if t == 'cast':
            return self._b(e[1], upper, depth + 1)
        if t == 'field' and e[2] == '.0' and e[1][0] == 'bin' and e[1][1].endswith('WithOverflow'):
            return self._b(('bin', e[1][1].replace('WithOverflow', ''), e[1][2], e[1][3]), upper, depth + 1)
        if t == 'field' and isinstance(e[2], str) and e[2].endswith('Option::Some.0') and e[1][0] == 'downcast' and e[1][1][0] == 'call' and e[1][1][1].endswith('range::next'):
            rng = e[1][1][2][0]
            if rng[0] == 'agg' and rng[1].endswith('Range::Range') and len(rng[2]) == 2:
                lo, hi = rng[2]
                if upper:
                    h = self._b(hi, True, depth + 1)
                    return None if h is None else (h[0], h[1] - 1)
                return self._b(lo, False, depth + 1)
            return None
        if t == 'field' and isinstance(e[2], str) and e[2].endswith('Option::Some.0') and e[1][0] == 'downcast' and e[1][1][0] == 'call' and e[1][1][1].endswith('Iterator>::next') \
                and 'StepBy' in e[1][1][1] and e[1][1][2] and e[1][1][2][0][0] == 'call' and e[1][1][2][0][1].endswith('Iterator::step_by'):
            sb = e[1][1][2][0]
            rng, step = sb[2][0], self._const(sb[2][1])
            if rng[0] == 'agg' and rng[1].endswith('Range::Range') and len(rng[2]) == 2 and step and step > 0:
                lo, hi = rng[2]
                if upper:
                    h = self._b(hi, True, depth + 1)
                    if h is None:
                        return None
                    # lo ≡ hi ≡ 0 (mod step): the last value is hi − step; otherwise only hi − 1 is known
                    dec = step if (self.multiple_of(lo, step) and self.multiple_of(hi, step)) else 1
                    return (h[0], h[1] - dec)
                return self._b(lo, False, depth + 1)
            return None
        if t == 'phi':
            bs = [self._b(a, upper, depth + 1) for a in e[1]]
            if any(b is None for b in bs):
                return None
            # pointwise max (upper) / min (lower) is not linear in general: accept only identical bounds
            return bs[0] if all(b == bs[0] for b in bs) else None
        if t == 'bin':
            op = e[1].replace('Unchecked', '').replace('WithOverflow', '')
            if op == 'Add':
                a, b = self._b(e[2], upper, depth + 1), self._b(e[3], upper, depth + 1)
                return None if a is None or b is None else (a[0] + b[0], a[1] + b[1])
            if op == 'Sub':
                a, b = self._b(e[2], upper, depth + 1), self._b(e[3], not upper, depth + 1)
                return None if a is None or b is None else (a[0] - b[0], a[1] - b[1])
            if op == 'Mul':
                for x, y in ((e[2], e[3]), (e[3], e[2])):
                    c = self._const(y)
                    if c is not None and c >= 0:
                        a = self._b(x, upper, depth + 1)
                        return None if a is None else (a[0] * c, a[1] * c)
                return None
            if op == 'Div':
                c = self._const(e[3])
                if c is not None and c > 0:
                    a = self._b(e[2], upper, depth + 1)
                    if a is None:
                        return None
                    if upper:
                        return (a[0] / c, a[1] / c)
                    return (a[0] / c, (a[1] - (c - 1)) / c)
                return None
            if op == 'Shl':
                c = self._const(e[3])
                if c is not None and 0 <= c < 32:
                    a = self._b(e[2], upper, depth + 1)
                    return None if a is None else (a[0] * (1 << c), a[1] * (1 << c))
            if op == 'Shr':
                c = self._const(e[3])
                if c is not None and 0 <= c < 32:
                    return self._b(('bin', 'Div', e[2], ('const', str(1 << c), 1 << c)), upper, depth + 1)
            if op == 'BitAnd':
                c = self._const(e[3])
                if c is not None and c >= 0:
                    return (Fraction(0), Fraction(c)) if upper else (Fraction(0), Fraction(0))
            return None
        if t == 'call':
            sh = flow.short(e[1])
            if sh.endswith('::min') and len(e[2]) == 2 and upper:
                bs = [self._b(a, True, depth + 1) for a in e[2]]
                bs = [b for b in bs if b is not None]
                # min(x, y) ≤ x and ≤ y: any provable bound will do; prefer a constant one (it holds for every L)
                bs.sort(key=lambda b: (b[0] != 0, b[1]))
                return bs[0] if bs else None
            if (sh.endswith('::saturating_mul') or sh.endswith('::wrapping_mul')) and len(e[2]) == 2 and sh.endswith('::saturating_mul'):
                return self._b(('bin', 'Mul', e[2][0], e[2][1]), upper, depth + 1)
            if sh.endswith('::saturating_add') and len(e[2]) == 2:
                return self._b(('bin', 'Add', e[2][0], e[2][1]), upper, depth + 1)
            if sh.endswith('::saturating_sub') and len(e[2]) == 2:
                if upper:
                    a = self._b(e[2][0], True, depth + 1)
                    return a
                return (Fraction(0), Fraction(0))
            return None
        return None

    def access_ok(self, off, width):
        """off + width ≤ L for every L ≥ 0 (and off ≥ 0)."""
        u = self.ub(off)
        l = self.lb(off)
        if u is None:
            return False, 'offset %s has no linear bound' % flow.render(off)[:80]
        a, k = u
        ok = a <= 1 and k + width <= 0
        # offsets are unsigned: without a subtraction the value cannot be negative; with one, the lower bound must be proved
        has_sub = any(x[0] == 'bin' and x[1].startswith('Sub') for x in flow.walk(off)) or any(x[0] == 'call' and 'sub' in flow.short(x[1]) and 'saturating' not in flow.short(x[1]) for x in flow.walk(off))
        lo_ok = (not has_sub) or (l is not None and (l[0] >= 0 and l[1] >= 0))
        return ok and lo_ok, 'offset ≤ %s·L%+d, width %d%s' % (a, int(k) if k.denominator == 1 else float(k), width, '' if lo_ok else '; lower bound not ≥ 0')
