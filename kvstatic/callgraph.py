"""Synchronous may-call graph: for every body, the local bodies that may run at each call block."""
from collections import defaultdict

from .facts import strip_generics

SPAWN_LIKE = ('tokio::task::spawn::spawn', 'tokio::task::blocking::spawn_blocking', 'std::thread::functions::spawn',
              'std::thread::Builder::spawn', 'std::thread::spawn', 'rayon_core::spawn::spawn', 'tokio::spawn',
              'tokio::runtime::handle::Handle::spawn', 'tokio::runtime::runtime::Runtime::spawn',
              'tokio::task::spawn::spawn_local', 'std::thread::builder::Builder::spawn')


def sync_calls(prog):
    """{body id: {bb: [callee Body, ...]}}; cached on the program."""
    if hasattr(prog, '_sync_calls'):
        return prog._sync_calls
    out = {}
    spawned = {}
    for b in prog.bodies.values():
        per_bb = defaultdict(list)
        passed = set()
        sp = defaultdict(list)
        for c in b.calls:
            spawn = c.callee is not None and c.is_(*SPAWN_LIKE)
            for g in c.gc:
                gb = prog.bodies.get(g) or prog.resolve_local(strip_generics(g))
                if gb is not None:
                    passed.add(gb.id)
                    if not spawn:
                        per_bb[c.bb].append(gb)
                    else:
                        sp[c.bb].append(gb)
            if spawn or c.callee is None:
                continue
            lb = prog.resolve_local(c.callee)
            if lb is not None:
                per_bb[c.bb].append(lb)
            elif c.trait and c.orig:
                for ip in prog.trait_impls.get(c.orig, []):
                    ib = prog.resolve_local(ip)
                    if ib is not None:
                        per_bb[c.bb].append(ib)
        for i, blk in enumerate(b.blocks):
            for s in blk['s']:
                rv = s.get('rv')
                if rv and rv['k'] == 'agg' and rv.get('ak') in ('closure', 'coroutine', 'coroutine_closure'):
                    cb = prog.bodies.get(rv['def'])
                    if cb is not None and cb.id not in passed:
                        per_bb[i].append(cb)
        if per_bb:
            out[b.id] = per_bb
        if sp:
            spawned[b.id] = sp
    prog._sync_calls = out
    prog._spawned = spawned
    return out


def reachable_bodies(prog, roots, include_spawned=True):
    """Set of body ids transitively callable from roots (ids)."""
    sc = sync_calls(prog)
    seen = set(roots)
    stack = list(roots)
    while stack:
        x = stack.pop()
        for per in (sc.get(x, {}), prog._spawned.get(x, {}) if include_spawned else {}):
            for bb, cbs in per.items():
                for cb in cbs:
                    if cb.id not in seen:
                        seen.add(cb.id)
                        stack.append(cb.id)
    return seen


def callers_index(prog):
    """callee body id -> list of (caller Body, bb)."""
    if hasattr(prog, '_callers_idx'):
        return prog._callers_idx
    idx = defaultdict(list)
    for bid, per in sync_calls(prog).items():
        b = prog.bodies[bid]
        for bb, cbs in per.items():
            for cb in cbs:
                idx[cb.id].append((b, bb))
    for bid, per in prog._spawned.items():
        b = prog.bodies[bid]
        for bb, cbs in per.items():
            for cb in cbs:
                idx[cb.id].append((b, bb))
    prog._callers_idx = idx
    return idx
