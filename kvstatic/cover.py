"""Which elements of a slice does a SIMD kernel accumulate, and how often?  (C06.R7)

A kernel walks its input with a few counted loops: an unrolled vector loop, a single-vector loop, a scalar remainder.  The value it returns is right only if the
element ranges those loops read PARTITION 0..len: every element once.  That is decidable from the loop bounds and the offset expressions alone:

  * every read site of the slice (a vector load `slice.as_ptr().add(off)` of W lanes, or an indexed element read `slice[i]`, W = 1) has  off = i·S + c  for the
    induction variable i of one `lo..hi` loop (symbolic, linear in opaque atoms such as ⌊len/16⌋);
  * inside one iteration the sites tile the stride: sorted by c, c₀ = 0, c_{j+1} = c_j + W_j, c_last + W_last = S — so the loop reads exactly [lo·S, hi·S);
  * the loops chain: one starts at 0, each next one starts where the previous ended (equal as symbolic expressions), the last ends at len, none is left over.

Floor divisions are opaque atoms: ⌊⌊len/16⌋/4⌋·64 and (⌊⌊len/16⌋/4⌋·4)·16 are the same expression 64·A, which is all the chaining needs.  No arithmetic on values.
"""
import re

from . import flow


def _strip(e):
    while e[0] in ('cast',) or (e[0] == 'field' and isinstance(e[2], str) and e[2] in ('.0',) and e[1][0] == 'bin' and e[1][1].endswith('WithOverflow')):
        e = e[1]
    return e


def lin(e, iters):
    """e as ({atom: coef}, const) or None.  Induction variables (values produced by a Range::next call) are atoms ('ITER', bb); registered in `iters`."""
    e = _strip(e)
    k = e[0]
    if k == 'const':
        v = e[2] if len(e) > 2 and isinstance(e[2], int) else None
        if v is None:
            m = re.match(r'^(-?\d+)', str(e[1]))
            v = int(m.group(1)) if m else None
        return ({}, v) if v is not None else None
    if k == 'bin':
        op = e[1].replace('WithOverflow', '').replace('Unchecked', '')
        a, b = lin(e[2], iters), lin(e[3], iters)
        if op in ('Add', 'Sub') and a and b:
            s = 1 if op == 'Add' else -1
            d = dict(a[0])
            for x, c in b[0].items():
                d[x] = d.get(x, 0) + s * c
            return ({x: c for x, c in d.items() if c != 0}, a[1] + s * b[1])
        if op == 'Mul' and a and b:
            if not a[0]:
                a, b = b, a
            if not b[0]:
                return ({x: c * b[1] for x, c in a[0].items() if c * b[1] != 0}, a[1] * b[1])
            return None
        if op == 'Div' and a and b and not b[0] and b[1]:
            if not a[0]:
                return ({}, a[1] // b[1])
            return ({('DIV', show(a), b[1]): 1}, 0)
        return None
    # an induction variable: next(Range{lo, hi})@Some.0
    cur = e
    while cur[0] in ('field', 'downcast'):
        cur = cur[1]
    if cur[0] == 'call' and str(cur[1]).endswith('range::next') and len(cur) > 3 and cur[2] and cur[2][0][0] == 'agg' and str(cur[2][0][1]).endswith('Range'):
        bb = cur[3].bb
        agg = cur[2][0]
        fields = agg[3] if len(agg) > 3 else ['start', 'end']
        lo = agg[2][fields.index('start')]
        hi = agg[2][fields.index('end')]
        iters[bb] = (lo, hi, 1)
        return ({('ITER', bb): 1}, 0)
    # (lo..hi).step_by(W): the variable takes lo, lo+W, …
    if cur[0] == 'call' and re.search(r'StepBy<.*Iterator>::next$|step_by::StepBy.*::next$', str(cur[1])) and len(cur) > 3 and cur[2] and cur[2][0][0] == 'call' and \
            str(cur[2][0][1]).endswith('Iterator::step_by') and len(cur[2][0][2]) == 2 and cur[2][0][2][0][0] == 'agg' and str(cur[2][0][2][0][1]).endswith('Range'):
        bb = cur[3].bb
        agg = cur[2][0][2][0]
        fields = agg[3] if len(agg) > 3 else ['start', 'end']
        st = lin(cur[2][0][2][1], iters)
        if st is None or st[0] or st[1] <= 0:
            return None
        iters[bb] = (agg[2][fields.index('start')], agg[2][fields.index('end')], st[1])
        return ({('ITER', bb): 1}, 0)
    if k in ('arg', 'var', 'cap'):
        return ({(k, e[2]): 1}, 0)
    if k == 'call' and flow.short(e[1]) == 'slice::len' and e[2]:
        return ({('LEN', flow.render(e[2][0])): 1}, 0)
    if k == 'un' and e[1] == 'PtrMetadata':
        return ({('LEN', flow.render(e[2])): 1}, 0)
    return None


def _key(l):
    return (tuple(sorted((repr(x), c) for x, c in l[0].items())), l[1])


def show(l):
    def at(x):
        if x[0] == 'DIV':
            return '⌊%s/%d⌋' % (x[1], x[2])
        return '%s' % (x[1] if x[0] != 'ITER' else 'i@bb%d' % x[1])
    parts = ['%s%s' % ('' if c == 1 else '%d·' % c, at(x)) for x, c in sorted(l[0].items(), key=repr)]
    if l[1] or not parts:
        parts.append(str(l[1]))
    return ' + '.join(parts)


def scale(l, s):
    return ({x: c * s for x, c in l[0].items()}, l[1] * s)


def kernel_reads(body, lanes):
    """[(slice name, offset tree, width, where)] for every read of a slice parameter: vector loads through slice.as_ptr().add(off) and indexed element reads."""
    of = flow.Origin(body)
    out = []
    for c in body.calls:
        if not c.callee or c.exp:
            continue
        leaf = c.callee.split('::')[-1]
        if leaf not in lanes or 'load' not in leaf and not leaf.startswith('vld'):
            continue
        ptrs = [a for a in c.args if a.get('k') in ('cp', 'mv') and not a['pl'].get('p') and body.locals[a['pl']['l']].startswith('*')]
        if len(ptrs) != 1:
            continue
        e = of.of_operand(ptrs[0])
        while e[0] == 'cast':
            e = e[1]
        if e[0] == 'call' and flow.short(e[1]).endswith('ptr::add') and len(e[2]) == 2 and e[2][0][0] == 'call' and flow.short(e[2][0][1]) == 'slice::as_ptr' and e[2][0][2][0][0] == 'arg':
            out.append((e[2][0][2][0][2], e[2][1], lanes[leaf], c.loc))
        else:
            out.append((None, None, lanes[leaf], c.loc))
    for i, blk in enumerate(body.blocks):
        if i not in body.live_blocks():
            continue
        for st in blk['s']:
            rv = st.get('rv')
            if rv and rv.get('k') == 'use' and rv['a'].get('k') in ('cp', 'mv'):
                pl = rv['a']['pl']
                ixs = [x['ix'] for x in (pl.get('p') or []) if isinstance(x, dict) and 'ix' in x]
                if ixs and body.locals[st['pl']['l']] == 'f32':
                    base = of.of_place({'l': pl['l']})
                    while base[0] in ('field',) and base[2] == '*':
                        base = base[1]
                    if base[0] == 'arg':
                        out.append((base[2], of.of_local(ixs[0]), 1, st.get('loc', '?')))
    return out


def partition(body, lanes, is_len):
    """{slice: (ok, text)}: do the reads of each slice parameter partition 0..len?"""
    reads = kernel_reads(body, lanes)
    res = {}
    for sl in sorted(set(r[0] for r in reads if r[0])):
        iters = {}
        per_loop = {}
        bases = {}
        once = []
        bad = None
        for name, off, w, where in reads:
            if name != sl:
                continue
            l = lin(off, iters)
            if l is None:
                bad = 'offset at %s is not linear: %s' % (where, flow.render(off)[:80])
                break
            its = [x for x in l[0] if x[0] == 'ITER']
            if not its:
                # a read outside any loop (e.g. one extra vector step under a condition): the span [off, off + W), whatever the condition — if it can
                # execute, its elements must not be read by anything else
                once.append((l, ({x: c for x, c in l[0].items()}, l[1] + w), where))
                continue
            if len(its) != 1:
                bad = 'offset at %s is not i·S + c over one loop: %s' % (where, show(l))
                break
            base = ({x: c for x, c in l[0].items() if x != its[0]}, 0)     # loop-invariant part of the offset
            if its[0][1] in bases and _key(bases[its[0][1]]) != _key(base):
                bad = 'loop at bb%d: its reads use different base offsets (%s, %s)' % (its[0][1], show(bases[its[0][1]]), show(base))
                break
            bases[its[0][1]] = base
            per_loop.setdefault(its[0][1], []).append((l[1], w, l[0][its[0]], where))
        if bad:
            res[sl] = (False, bad)
            continue
        spans = []
        for bb, sites in per_loop.items():
            strides = set(s for _, _, s, _ in sites)
            if len(strides) != 1:
                bad = 'loop at bb%d: sites with different strides %s' % (bb, sorted(strides))
                break
            S = strides.pop()
            pos = 0
            for c, w, _, where in sorted(set((c, w, s, wh) for c, w, s, wh in sites)):
                if c != pos:
                    bad = 'loop at bb%d: within one iteration the read at %s starts at offset %d, expected %d (an element is %s)' % (bb, where, c, pos, 'read twice' if c < pos else 'skipped')
                    break
                pos = c + w
            if bad:
                break
            lo, hi, step = iters[bb]
            adv = S * step
            if pos != adv:
                bad = 'loop at bb%d: one iteration reads %d elements but the offset advances by %d' % (bb, pos, adv)
                break
            llo, lhi = lin(lo, iters), lin(hi, iters)
            if llo is None or lhi is None:
                bad = 'loop at bb%d: bounds are not linear' % bb
                break
            if step != 1:
                # the last iteration is a full one only when hi − lo is a multiple of the step
                diff = dict(lhi[0])
                for x, c in llo[0].items():
                    diff[x] = diff.get(x, 0) - c
                if any(c % step for c in diff.values()) or (lhi[1] - llo[1]) % step:
                    bad = 'loop at bb%d steps by %d over [%s, %s), whose length is not a multiple of the step' % (bb, step, show(llo), show(lhi))
                    break
            bs = bases.get(bb, ({}, 0))

            def plus(a_, b_):
                d = dict(a_[0])
                for x, c in b_[0].items():
                    d[x] = d.get(x, 0) + c
                return ({x: c for x, c in d.items() if c}, a_[1] + b_[1])
            spans.append((plus(scale(llo, S), bs), plus(scale(lhi, S), bs), bb))
        if bad:
            res[sl] = (False, bad)
            continue
        for k_, (lo_l, hi_l, where) in enumerate(once):
            spans.append((lo_l, hi_l, 'once@%s' % where))
        # chain the spans from 0 to len
        cur = ({}, 0)
        used, chain = set(), []
        while True:
            nxt = [s for s in spans if s[2] not in used and _key(s[0]) == _key(cur)]
            if len(nxt) > 1:
                bad = 'two loops both start at element %s (bb%s): those elements are accumulated twice' % (show(cur), [s[2] for s in nxt])
                break
            if not nxt:
                break
            used.add(nxt[0][2])
            chain.append('[%s, %s)' % (show(nxt[0][0]), show(nxt[0][1])))
            cur = nxt[0][1]
        if not bad:
            left = [s for s in spans if s[2] not in used]
            end_is_len = len(cur[0]) == 1 and cur[1] == 0 and all(c == 1 and is_len(x) for x, c in cur[0].items())
            if left:
                bad = 'the loop over [%s, %s) does not continue where the others end (%s): overlap or gap' % (show(left[0][0]), show(left[0][1]), show(cur))
            elif not end_is_len:
                bad = 'the reads end at element %s, not at len: the tail is not accumulated' % show(cur)
        res[sl] = (not bad, bad or ' ∪ '.join(chain) + ' = [0, len)')
    return res


def kernel_partitions(ctx, prog, rid, lanes):
    """Rule instances: for every unsafe kernel of the simd module and every slice parameter it reads, the reads partition 0..len."""
    n = 0
    for b in sorted(prog.bodies.values(), key=lambda x: x.id):
        if b.crate != 'kyrodb_engine' or '::simd::' not in b.id or b.kind == 'Promoted' or not b.is_unsafe or b.kind not in ('Fn', 'AssocFn'):
            continue
        has_len = any('len' in b.varnames.get(l, []) for l in range(1, b.argc + 1))
        is_len = (lambda x: x[0] == 'arg' and x[1] == 'len') if has_len else (lambda x: x[0] == 'LEN')
        res = partition(b, lanes, is_len)
        for sl, (ok, txt) in sorted(res.items()):
            n += 1
            ctx.inst(rid, b.short, 'every element of `%s` is accumulated exactly once' % sl, ok, txt)
    return n
