"""Must-effect summaries: 'on every Ok/normal return of f, effect E has happened' (DESIGN §3:
steps are effects, not call texts), and ordered-chain / dominance helpers built on them."""
from . import flow
from .callgraph import sync_calls


class Effects:
    def __init__(self, prog):
        self.prog = prog
        self.defs = {}      # name -> (patterns, arg_filter or None)
        self._must = {}
        self._blocks = {}

    def define(self, name, *patterns, where=None):
        """Effect `name` = a call whose callee matches one of `patterns`; `where(call, body)` may narrow it."""
        self.defs[name] = (patterns, where)

    def primitive_blocks(self, body, name):
        pats, where = self.defs[name]
        out = []
        for c in body.calls:
            if c.callee and c.is_(*pats) and (where is None or where(c, body)):
                out.append(c.bb)
        return out

    def blocks(self, body, name):
        """Call blocks of `body` at which effect `name` surely happens if the call returns successfully."""
        key = (body.id, name)
        if key in self._blocks:
            return self._blocks[key]
        self._blocks[key] = []  # recursion guard
        out = list(self.primitive_blocks(body, name))
        for bb, cbs in sync_calls(self.prog).get(body.id, {}).items():
            if bb in out:
                continue
            # a call block counts when every possible callee must-performs the effect
            if body.blocks[bb]['t']['k'] != 'call':
                continue
            if cbs and all(self.must(cb, name) for cb in cbs):
                out.append(bb)
        self._blocks[key] = out
        return out

    def must(self, body, name):
        key = (body.id, name)
        if key in self._must:
            return self._must[key]
        self._must[key] = False  # recursion guard: cycles do not establish an effect
        blks = self.blocks(body, name)
        if not blks:
            self._must[key] = False
            return False
        edges = self.success_edges(body, blks)
        errs = flow.err_blocks(body)
        r = body.reach([0], avoid_blocks=errs, avoid_edges=edges)
        ok = not any(x in r for x in body.return_blocks()) and 0 not in errs
        # a body without any normal return (diverges) vacuously satisfies; require at least one return
        if not body.return_blocks():
            ok = False
        self._must[key] = ok
        return ok

    def success_edges(self, body, blks):
        edges = []
        for bb in blks:
            c = body.call_at(bb)
            if c is None:
                continue
            edges += flow.success_edges(body, c)
        return edges


def passes_before(body, edges, targets, avoid_blocks=(), extra_avoid_edges=(), view=None):
    """True iff every path entry→(any target block) crosses one of `edges`
    (≡ no target reachable once the edges are deleted).  Returns (ok, offending target or None)."""
    v = view or body
    r = v.reach([0], avoid_blocks=avoid_blocks, avoid_edges=set(edges) | set(extra_avoid_edges))
    for t in targets:
        if t in r or t == 0:
            return False, t
    return True, None
