"""Fact extraction management: runs the kvfacts driver over the repository's current working tree
(once per distinct tree content and configuration) and returns the fact files.

Fail closed: any problem raises ExtractionError; callers exit 2 (broken run), never 0.
"""
import fcntl
import hashlib
import re
import json
import os
import shutil
import subprocess
import sys
import time

VERIF = os.path.dirname(os.path.dirname(os.path.abspath(__file__)))
CACHE = os.path.join(VERIF, '.cache')
DRIVER_DIR = os.path.join(VERIF, 'driver')
DRIVER = os.path.join(DRIVER_DIR, 'target', 'debug', 'kvfacts')

CONFIGS = {
    # name: (cargo args, expected crates, floor of bodies in the library)
    'dev': ([], ['kyrodb_engine', 'kyrodb_server', 'kyrodb_backup', 'kyrodb_load_tester'], 2400),
    'release': (['--release'], ['kyrodb_engine', 'kyrodb_server', 'kyrodb_backup', 'kyrodb_load_tester'], 2400),
    # validation_24h (cli-tools) does not compile at the pinned commit (a method pasted into a function body: E0425 / `self` outside an
    # associated function), so it cannot be part of any configuration; it contains no library code.
    'features': (['--features', 'cli-tools,ffi-bench', '--bin', 'validation_enterprise'],
                 ['kyrodb_engine', 'kyrodb_server', 'kyrodb_backup', 'kyrodb_load_tester', 'validation_enterprise'], 2400),
}


class ExtractionError(Exception):
    pass


def repo_root():
    return os.environ.get('KV_REPO', '/repo')


def tree_key(root=None):
    """SHA-256 over every file that can influence the build (sources, manifests, proto, build script)."""
    root = root or repo_root()
    h = hashlib.sha256()
    paths = []
    for top in ('Cargo.toml', 'Cargo.lock', '.cargo/config.toml', 'rust-toolchain.toml', 'rust-toolchain'):
        p = os.path.join(root, top)
        if os.path.isfile(p):
            paths.append(p)
    for dirpath, dirnames, filenames in os.walk(os.path.join(root, 'engine')):
        dirnames[:] = sorted(d for d in dirnames if d not in ('target', '.git', 'fuzz'))
        for f in sorted(filenames):
            paths.append(os.path.join(dirpath, f))
    for p in sorted(paths):
        h.update(os.path.relpath(p, root).encode())
        h.update(b'\0')
        try:
            with open(p, 'rb') as fh:
                h.update(fh.read())
        except OSError:
            h.update(b'<unreadable>')
        h.update(b'\0')
    # the driver itself is part of the key
    with open(os.path.join(DRIVER_DIR, 'src', 'main.rs'), 'rb') as fh:
        h.update(fh.read())
    return h.hexdigest()[:24]


def ensure_driver():
    src = os.path.join(DRIVER_DIR, 'src', 'main.rs')
    if os.path.isfile(DRIVER) and os.path.getmtime(DRIVER) >= os.path.getmtime(src):
        return
    env = dict(os.environ, CARGO_NET_OFFLINE='true')
    r = subprocess.run(['cargo', 'build', '--offline'], cwd=DRIVER_DIR, env=env,
                       stdout=subprocess.PIPE, stderr=subprocess.STDOUT, text=True)
    if r.returncode != 0 or not os.path.isfile(DRIVER):
        raise ExtractionError('driver build failed:\n' + r.stdout[-4000:])


def _sysroot_lib():
    r = subprocess.run(['rustc', '+nightly', '--print', 'sysroot'], stdout=subprocess.PIPE, text=True)
    if r.returncode != 0:
        raise ExtractionError('nightly toolchain not available')
    return os.path.join(r.stdout.strip(), 'lib')


def ensure_facts(config='dev', verbose=True):
    """Returns (list of fact files, info dict). Extracts if the cache has no entry for the current tree."""
    if config not in CONFIGS:
        raise ExtractionError('unknown config %s' % config)
    cargo_args, crates, floor = CONFIGS[config]
    root = repo_root()
    os.makedirs(CACHE, exist_ok=True)
    key = tree_key(root)
    out = os.path.join(CACHE, 'facts', config, key)
    done = os.path.join(out, 'DONE.json')
    # KV_EXTRACT_SLOT=<k>: an own cargo target directory and lock per slot, so that several checkers (the shards of bin/selftest-all) can compile different
    # trees at the same time; without it all extractions of this /verif are serialised on one target directory
    slot = os.environ.get('KV_EXTRACT_SLOT', '')
    slot = ('-' + re.sub(r'[^A-Za-z0-9]', '', slot)) if slot else ''
    # two locks: per tree (two checkers must not extract the same tree into the same directory at once) and per slot (one cargo run per target directory)
    os.makedirs(os.path.join(CACHE, 'facts', config), exist_ok=True)
    keylock = open(os.path.join(CACHE, 'facts', config, key + '.lock'), 'w')
    fcntl.flock(keylock, fcntl.LOCK_EX)
    lockf = open(os.path.join(CACHE, 'extract%s.lock' % slot), 'w')
    fcntl.flock(lockf, fcntl.LOCK_EX)
    try:
        if not os.path.isfile(done):
            ensure_driver()
            if os.path.isdir(out):
                shutil.rmtree(out)
            os.makedirs(out)
            tgt = os.path.join(CACHE, 'target-' + ('dev' if config == 'dev' else config) + slot)
            os.makedirs(tgt, exist_ok=True)
            # cargo skips the wrapper when its fingerprint says the member is fresh: force a rebuild of members
            for prof in os.listdir(tgt):
                fp = os.path.join(tgt, prof, '.fingerprint')
                if os.path.isdir(fp):
                    for d in os.listdir(fp):
                        if d.startswith('kyrodb-engine-'):
                            shutil.rmtree(os.path.join(fp, d), ignore_errors=True)
            nonce = '%s-%d-%d' % (key, os.getpid(), int(time.time() * 1000))
            env = dict(os.environ)
            env.update({
                'CARGO_NET_OFFLINE': 'true',
                'LD_LIBRARY_PATH': _sysroot_lib(),
                'RUSTFLAGS': '-Zmir-opt-level=0 -Awarnings',
                'RUSTC_WORKSPACE_WRAPPER': DRIVER,
                'CARGO_TARGET_DIR': tgt,
                'KVFACTS_CRATES': ','.join(crates),
                'KVFACTS_OUT': out,
                'KVFACTS_NONCE': nonce,
                'KVFACTS_TAG': '',
            })
            env.pop('RUSTC_WRAPPER', None)
            cmd = ['cargo', '+nightly', 'check', '--offline', '-p', 'kyrodb-engine', '--lib',
                   '--bin', 'kyrodb_server', '--bin', 'kyrodb_backup', '--bin', 'kyrodb_load_tester'] + cargo_args
            t0 = time.time()
            if verbose:
                print('[extract] %s: compiling %s under the fact driver ...' % (config, root), file=sys.stderr)
            r = subprocess.run(cmd, cwd=root, env=env, stdout=subprocess.PIPE, stderr=subprocess.STDOUT, text=True)
            if r.returncode != 0:
                raise ExtractionError('cargo check under the driver failed (does the tree compile?):\n' + r.stdout[-6000:])
            files = []
            nbodies = {}
            for c in crates:
                f = os.path.join(out, c + '.json')
                if not os.path.isfile(f):
                    raise ExtractionError('fact file missing for crate %s (driver was skipped?)' % c)
                with open(f) as fh:
                    head = fh.read(400)
                if nonce not in head:
                    raise ExtractionError('stale fact file for crate %s (nonce mismatch)' % c)
                files.append(f)
            with open(os.path.join(out, 'kyrodb_engine.json')) as fh:
                lib = json.load(fh)
            if len(lib['bodies']) < floor:
                raise ExtractionError('library has %d bodies, floor is %d' % (len(lib['bodies']), floor))
            del lib
            with open(done, 'w') as fh:
                json.dump({'key': key, 'config': config, 'nonce': nonce, 'files': files,
                           'extract_s': round(time.time() - t0, 1), 'root': root}, fh)
            # prune older entries of this config (keep the 8 most recently used of scratch copies, 6 of /repo)
            base = os.path.join(CACHE, 'facts', config)
            ents = []
            for e in os.listdir(base):
                if e.endswith('.lock'):
                    continue
                d = os.path.join(base, e, 'DONE.json')
                is_repo = False
                try:
                    with open(d) as fh2:
                        is_repo = json.load(fh2).get('root') == '/repo'
                except (OSError, ValueError):
                    pass
                try:
                    ents.append((os.path.getmtime(os.path.join(base, e)), e, is_repo))
                except OSError:
                    pass   # removed by a concurrent checker's eviction
            ents.sort()
            scratch = [x for x in ents if not x[2]]
            repo = [x for x in ents if x[2]]
            for _, e, _r in scratch[:-48] + repo[:-6]:
                shutil.rmtree(os.path.join(base, e), ignore_errors=True)
        with open(done) as fh:
            info = json.load(fh)
        try:
            os.utime(out, None)   # least-recently-used pruning
        except OSError:
            pass
        info['files'] = [os.path.join(out, c + '.json') for c in crates]
        for f in info['files']:
            if not os.path.isfile(f):
                raise ExtractionError('cached fact file vanished: %s' % f)
        return info['files'], info
    finally:
        fcntl.flock(lockf, fcntl.LOCK_UN)
        lockf.close()
        fcntl.flock(keylock, fcntl.LOCK_UN)
        keylock.close()
