"""Fact loader: wraps the JSON emitted by the kvfacts driver into Program / Body / Call objects.

Positions inside a body are (block index, statement index); the terminator of a
block has statement index len(stmts).
"""
import json
import re
from collections import defaultdict

_GEN = re.compile(r'::<[^<>]*(?:<[^<>]*(?:<[^<>]*(?:<[^<>]*>[^<>]*)*>[^<>]*)*>[^<>]*)*>')


def strip_generics(path):
    """lock_api::rwlock::RwLock::<R, T>::write -> lock_api::rwlock::RwLock::write
    (only turbofish segments are removed; `<T as Trait>::m` qualified paths are kept)."""
    if not path:
        return path
    prev = None
    while prev != path:
        prev = path
        path = _GEN.sub('', path)
    return path


class Call:
    __slots__ = ('body', 'bb', 'term', 'callee', 'orig', 'trait', 'ga', 'gc', 'args', 'dest',
                 'to', 'loc', 'exp', 'unsafe_callee', 'fnop', 'callee_features')

    def __init__(self, body, bb, term):
        self.body = body
        self.bb = bb
        self.term = term
        f = term['f']
        self.fnop = f
        fn = f.get('fn') if f.get('k') == 'c' else None
        if fn:
            self.orig = strip_generics(fn['o'])
            self.callee = strip_generics(fn.get('r') or fn['o'])
            self.trait = fn.get('tr')
            self.ga = fn.get('ga', [])
            self.gc = fn.get('gc', [])
            self.unsafe_callee = bool(fn.get('unsafe'))
            self.callee_features = list(fn.get('tf') or [])
        else:
            self.orig = None
            self.callee = None  # indirect call (fn pointer / closure value)
            self.trait = None
            self.ga = []
            self.gc = []
            self.unsafe_callee = False
            self.callee_features = []
        self.args = term.get('args', [])
        self.dest = term.get('dest')
        self.to = term.get('to')
        self.loc = term.get('loc', '?')
        self.exp = term.get('exp')

    @property
    def pos(self):
        return (self.bb, len(self.body.blocks[self.bb]['s']))

    def is_(self, *patterns):
        """True if resolved or original callee matches any pattern.
        A pattern matches if it equals the name, or the name ends with '::'+pattern,
        or (regex patterns start with 're:') the regex searches the name."""
        for n in (self.callee, self.orig):
            if not n:
                continue
            for p in patterns:
                if p.startswith('re:'):
                    if re.search(p[3:], n):
                        return True
                elif n == p or n.endswith('::' + p) or n.endswith(' ' + p):
                    return True
        return False

    def __repr__(self):
        return 'Call(%s @%s bb%d %s)' % (self.callee or '<indirect>', self.body.short, self.bb, self.loc)


class Body:
    def __init__(self, prog, crate, raw, promoted_of=None, promoted_idx=None):
        self.prog = prog
        self.crate = crate
        self.raw = raw
        self.id = raw.get('id') if promoted_of is None else '%s::promoted[%d]' % (promoted_of.id, promoted_idx)
        self.kind = raw.get('kind', 'Promoted')
        self.root = raw.get('root', self.id) if promoted_of is None else promoted_of.root
        self.parent = raw.get('parent')
        self.loc = raw.get('loc', '?') if promoted_of is None else promoted_of.loc
        self.end_line = raw.get('end_line')
        self.blocks = raw['bb']
        self.locals = raw['locals']
        self.argc = raw['argc']
        self.is_pub = raw.get('pub', False)
        self.is_unsafe = raw.get('unsafe', False)
        self.target_features = list(raw.get('tf') or [])
        self.is_async = raw.get('async', False)
        self.impl_trait = raw.get('impl_trait')
        self.impl_self = raw.get('impl_self')
        self.name = raw.get('name', '')
        self.varnames = defaultdict(list)  # local -> names
        for v in raw.get('vars', []):
            pl = v['pl']
            if not pl.get('p'):
                self.varnames[pl['l']].append(v['n'])
        self.vars = raw.get('vars', [])
        self.promoted = []
        if promoted_of is None:
            for i, pr in enumerate(raw.get('promoted', [])):
                self.promoted.append(Body(prog, crate, pr, self, i))
        self._calls = None
        self._succ = None
        self._pred = None
        self._defs = None
        self._dom = None

    @property
    def short(self):
        s = self.id
        for c in ('kyrodb_engine::', ):
            s = s.replace(c, '')
        return s

    @property
    def file(self):
        return self.loc.rsplit(':', 1)[0]

    # ---- calls
    @property
    def calls(self):
        if self._calls is None:
            self._calls = []
            self._call_at = {}
            for i, b in enumerate(self.blocks):
                t = b['t']
                if t['k'] in ('call', 'tailcall'):
                    c = Call(self, i, t)
                    self._calls.append(c)
                    self._call_at[i] = c
        return self._calls

    def call_at(self, bb):
        self.calls
        return self._call_at.get(bb)

    def calls_to(self, *patterns):
        return [c for c in self.calls if c.is_(*patterns)]

    # ---- CFG (normal edges only: unwind/cleanup removed, false edges collapsed)
    def succ(self, i):
        if self._succ is None:
            self._succ = [self._succ_of(b) for b in self.blocks]
        return self._succ[i]

    def _succ_of(self, b):
        t = b['t']
        k = t['k']
        if k in ('goto', 'drop', 'assert', 'falseedge', 'falseunwind', 'yield'):
            return [t['to']]
        if k == 'call':
            return [t['to']] if 'to' in t else []
        if k == 'switch':
            out = []
            for v, tg in t['tg']:
                if tg not in out:
                    out.append(tg)
            if t['else'] not in out:
                out.append(t['else'])
            return out
        if k == 'asm':
            return list(t.get('tos', []))
        return []

    def pred(self, i):
        if self._pred is None:
            self._pred = [[] for _ in self.blocks]
            for a in range(len(self.blocks)):
                for s in self.succ(a):
                    self._pred[s].append(a)
        return self._pred[i]

    def is_cleanup(self, i):
        return bool(self.blocks[i].get('cleanup'))

    def return_blocks(self):
        return [i for i, b in enumerate(self.blocks) if b['t']['k'] == 'return']

    def reach(self, starts, avoid_blocks=(), avoid_edges=()):
        """Blocks reachable from `starts` (blocks) without entering avoid_blocks / crossing avoid_edges.
        A start block that is itself in avoid_blocks is dropped (a path through it does not avoid it).
        The result INCLUDES the start blocks (use reach(succ(b)) to ask whether b lies on a cycle)."""
        avoid_blocks = set(avoid_blocks)
        avoid_edges = set(avoid_edges)
        seen = set()
        stack = [s for s in starts if s not in avoid_blocks]
        for s in stack:
            seen.add(s)
        while stack:
            a = stack.pop()
            for s in self.succ(a):
                if s in seen or s in avoid_blocks or (a, s) in avoid_edges:
                    continue
                seen.add(s)
                stack.append(s)
        return seen

    def reach_from_entry(self, avoid_blocks=(), avoid_edges=()):
        if 0 in set(avoid_blocks):
            return set()
        return self.reach([0], avoid_blocks, avoid_edges)

    def live_blocks(self):
        if not hasattr(self, '_live'):
            self._live = self.reach([0])
        return self._live

    def dominators(self):
        """idom-free simple iterative dominator sets over normal CFG; returns dict block -> set."""
        if self._dom is None:
            live = sorted(self.live_blocks())
            allset = set(live)
            dom = {b: set(allset) for b in live}
            dom[0] = {0}
            changed = True
            # reverse post order helps convergence
            order = self._rpo()
            while changed:
                changed = False
                for b in order:
                    if b == 0:
                        continue
                    ps = [p for p in self.pred(b) if p in dom]
                    if not ps:
                        continue
                    new = set.intersection(*(dom[p] for p in ps))
                    new = new | {b}
                    if new != dom[b]:
                        dom[b] = new
                        changed = True
            self._dom = dom
        return self._dom

    def _rpo(self):
        seen = set()
        order = []
        stack = [(0, iter(self.succ(0)))]
        seen.add(0)
        while stack:
            n, it = stack[-1]
            adv = False
            for s in it:
                if s not in seen:
                    seen.add(s)
                    stack.append((s, iter(self.succ(s))))
                    adv = True
                    break
            if not adv:
                order.append(n)
                stack.pop()
        order.reverse()
        return order

    def dominates(self, a, b):
        d = self.dominators()
        return b in d and a in d[b]

    # ---- definitions of locals
    @property
    def defs(self):
        """local -> list of (bb, idx, kind, payload): kind 'assign' payload=stmt; 'call' payload=Call; 'yield'."""
        if self._defs is None:
            d = defaultdict(list)
            for i, b in enumerate(self.blocks):
                for k, s in enumerate(b['s']):
                    if 'rv' in s:
                        pl = s['pl']
                        if not pl.get('p'):
                            d[pl['l']].append((i, k, 'assign', s))
                        elif '*' not in pl['p']:
                            d[pl['l']].append((i, k, 'passign', s))
                t = b['t']
                if t['k'] == 'call':
                    pl = t['dest']
                    if not pl.get('p'):
                        d[pl['l']].append((i, len(b['s']), 'call', self.call_at(i)))
                    elif '*' not in pl['p']:
                        d[pl['l']].append((i, len(b['s']), 'pcall', self.call_at(i)))
                elif t['k'] == 'yield':
                    pl = t['dest']
                    d[pl['l']].append((i, len(b['s']), 'yield', t))
            self._defs = d
        return self._defs

    def var_local(self, name):
        """locals bound to user variable `name` (whole-local bindings only)."""
        return [l for l, ns in self.varnames.items() if name in ns]

    def local_name(self, l):
        ns = self.varnames.get(l)
        return ns[0] if ns else '_%d' % l

    def loc_of(self, bb, idx=None):
        b = self.blocks[bb]
        if idx is not None and idx < len(b['s']):
            return b['s'][idx].get('loc', '?')
        return b['t'].get('loc', '?')

    def __repr__(self):
        return 'Body(%s)' % self.id


class Program:
    """All crates of one extraction configuration."""

    def __init__(self, fact_files, inline_new=True):
        self.crates = {}
        self.bodies = {}
        self.adts = {}
        self.impls = []
        self.meta = {}
        for f in fact_files:
            with open(f) as fh:
                d = json.load(fh)
            cn = d['crate']
            self.crates[cn] = d
            self.meta[cn] = {k: d[k] for k in ('nonce', 'tag', 'debug_assertions', 'crate_types')}
            for a in d['adts']:
                self.adts[a['path']] = a
            for im in d['impls']:
                im['crate'] = cn
                self.impls.append(im)
            for rb in d['bodies']:
                b = Body(self, cn, rb)
                self.bodies[b.id] = b
        # normalisation: calls to functions that are not in the inventory of the verified tree are inlined (kvstatic/inline.py); a no-op on the verified tree
        self.inlined = []
        if inline_new:
            from . import inline as _inline
            self.inlined = _inline.normalise(self, Body)
        self._children = defaultdict(list)
        for b in self.bodies.values():
            if b.root != b.id:
                self._children[b.root].append(b)
        # trait method -> impl method paths (for dyn fan-out)
        self.trait_impls = defaultdict(list)
        for im in self.impls:
            for it in im['items']:
                ti = it.get('trait_item')
                if ti:
                    self.trait_impls[strip_generics(ti)].append(strip_generics(it['path']))
        self._by_stripped = {}
        for bid, b in self.bodies.items():
            self._by_stripped.setdefault(strip_generics(bid), b)
        self._callers = None

    # ---- lookup
    def body(self, ident):
        """Exact id, or unique suffix match ('HnswBackend::insert')."""
        b = self.bodies.get(ident) or self._by_stripped.get(ident)
        if b:
            return b
        cands = [x for i, x in self._by_stripped.items() if i.endswith('::' + ident) or i.endswith(' ' + ident)]
        if len(cands) == 1:
            return cands[0]
        if not cands:
            return None
        # prefer exact-length match
        raise KeyError('ambiguous body %r: %s' % (ident, [c.id for c in cands][:6]))

    def find(self, regex):
        r = re.compile(regex)
        return [b for i, b in self.bodies.items() if r.search(i)]

    def named_constants(self):
        """{const item path: value} for every named constant that occurs as an operand in some body or promoted body (ints as int, floats decoded from the
        exported bit pattern)."""
        if hasattr(self, '_consts'):
            return self._consts
        import struct
        out = {}

        def walk(o):
            if isinstance(o, dict):
                if o.get('k') == 'c' and o.get('cdef'):
                    if 'fbits' in o:
                        v = struct.unpack('<f', struct.pack('<I', o['fbits']))[0] if o.get('fsize') == 32 else struct.unpack('<d', struct.pack('<Q', o['fbits']))[0]
                        out.setdefault(o['cdef'], v)
                    elif 'int' in o:
                        out.setdefault(o['cdef'], o['int'])
                for v in o.values():
                    walk(v)
            elif isinstance(o, list):
                for v in o:
                    walk(v)
        for b in self.bodies.values():
            walk(b.blocks)
            for pb in b.promoted:
                walk(pb.blocks)
        self._consts = out
        return out

    def family(self, body):
        """root body + every nested closure / coroutine body."""
        if isinstance(body, str):
            body = self.body(body)
        root = self.bodies.get(body.root, body)
        return [root] + sorted(self._children.get(root.id, []), key=lambda b: b.id)

    def resolve_local(self, callee):
        """Body for a resolved callee path, if it is defined in one of the analysed crates."""
        if not callee:
            return None
        return self._by_stripped.get(callee)

    def all_calls(self):
        for b in self.bodies.values():
            for c in b.calls:
                yield c

    def callers_of(self, *patterns):
        return [c for c in self.all_calls() if c.is_(*patterns)]

    def n_bodies(self):
        return len(self.bodies)
