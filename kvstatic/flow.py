"""Def-use / origin tracing, success edges of fallible calls, Err-exit detection,
jump threading of materialised booleans, guard (switch-edge) predicates."""
import re
from .facts import strip_generics

# callees that pass their first argument through unchanged for the purpose of origin tracing
TRANSPARENT = (
    'core::ops::deref::Deref::deref', 'core::ops::deref::DerefMut::deref_mut',
    'core::convert::AsRef::as_ref', 'core::convert::AsMut::as_mut',
    'core::borrow::Borrow::borrow', 'core::borrow::BorrowMut::borrow_mut',
    'core::convert::Into::into', 'core::convert::From::from',
    'core::clone::Clone::clone', 'core::ops::try_trait::Try::branch',
    'core::option::Option::as_ref', 'core::option::Option::as_mut', 'core::option::Option::as_deref',
    'core::option::Option::as_deref_mut', 'core::option::Option::cloned', 'core::option::Option::copied',
    'core::result::Result::as_ref', 'core::result::Result::as_mut',
    'alloc::string::String::as_str', 'alloc::vec::Vec::as_slice', 'alloc::vec::Vec::as_mut_slice',
    'core::iter::traits::collect::IntoIterator::into_iter',
    'anyhow::Context::context', 'anyhow::Context::with_context',
    'core::result::Result::map_err', 'core::option::Option::ok_or', 'core::option::Option::ok_or_else',
    'alloc::borrow::ToOwned::to_owned', 'alloc::sync::Arc::clone',
    'core::option::Option::unwrap', 'core::result::Result::unwrap', 'core::option::Option::expect',
    'core::result::Result::expect', 'core::pin::Pin::new', 'core::pin::Pin::new_unchecked',
    'core::future::into_future::IntoFuture::into_future',
    'core::option::Option::take',
)


def _is_transparent(call, extra=()):
    n = call.orig or ''
    m = call.callee or ''
    for t in TRANSPARENT + tuple(extra):
        if n == t or m == t or n.endswith('::' + t) or m.endswith(' as ' + t.rsplit('::', 1)[0] + '>::' + t.rsplit('::', 1)[1]):
            return True
    # resolved impls of the transparent traits: "<X as core::ops::deref::Deref>::deref"
    for t in ('core::ops::deref::Deref>::deref', 'core::ops::deref::DerefMut>::deref_mut',
              'core::clone::Clone>::clone', 'core::convert::AsRef<', 'core::convert::From<', 'core::convert::Into<',
              'core::borrow::Borrow<', 'core::ops::try_trait::Try>::branch',
              'core::iter::traits::collect::IntoIterator>::into_iter',
              'core::future::into_future::IntoFuture>::into_future'):
        if t in m:
            return True
    return False


def short(path):
    """kyrodb_engine::hot_tier::HotTier.stats -> HotTier.stats ; a::b::C::f -> C::f"""
    if not path:
        return path
    p = strip_generics(path)
    if p.startswith('<'):
        # <T as Trait>::m  -> keep Trait::m with short self
        m = re.match(r'^<(.*) as (.*)>::(\w+)$', p)
        if m:
            return '<%s as %s>::%s' % (short(m.group(1)), short(m.group(2)), m.group(3))
        return p
    segs = p.split('::')
    if len(segs) >= 2 and (segs[-2][:1].isupper() or segs[-2].startswith('{')):
        return '::'.join(segs[-2:])
    return segs[-1] if len(segs) == 1 else '::'.join(segs[-2:])


class Origin:
    """Origin expression trees for operands/places of one body.

    Tree forms (tuples):
      ('const', value_string, int_or_None)      ('arg', n, name)         ('local', n)   # undefined / loop
      ('field', base, 'Adt.field')              ('deref', base) is elided (transparent)
      ('index', base)                           ('downcast', base, 'Variant')
      ('call', callee, [args], call_obj)        ('bin', op, a, b)        ('un', op, a)
      ('discr', a)                              ('agg', descr, [ops])    ('cast', a, ty)
      ('phi', [alts])                           ('promoted', n)          ('yield',)
    """

    def __init__(self, body, transparent_extra=(), max_depth=14, stop_at_vars=False, live=None):
        self.live = live   # optional set of blocks: definitions outside it are ignored (specialisation to a set of paths)
        self.stop_at_vars = stop_at_vars
        self.body = body
        self.extra = tuple(transparent_extra)
        self.max_depth = max_depth
        self._memo = {}

    # ---- entry points
    def of_operand(self, op, depth=0, seen=frozenset()):
        k = op.get('k')
        if k == 'c':
            if 'promoted' in op:
                pb = self.body.promoted[op['promoted']] if op['promoted'] < len(self.body.promoted) else None
                if pb is not None:
                    v = promoted_value(pb)
                    if v is not None:
                        return v
                return ('promoted', op['promoted'])
            if 'fn' in op:
                return ('const', 'fn:' + strip_generics(op['fn'].get('r') or op['fn']['o']), None)
            v = op.get('v', '')
            if v.startswith('const '):
                v = v[6:]
            return ('const', v, op.get('int'))
        if k in ('cp', 'mv'):
            return self.of_place(op['pl'], depth, seen)
        return ('const', '<runtime>', None)

    def of_place(self, pl, depth=0, seen=frozenset()):
        base = self.of_local(pl['l'], depth, seen)
        for e in pl.get('p', []):
            if e == '*':
                continue
            if isinstance(e, str):
                if e.startswith('^'):
                    base = ('field', base, e)
                elif e in ('opaque', 'unbinder'):
                    continue
                elif base[0] == 'agg' and base[1] == 'tuple' and re.match(r'^\.\d+$', e) and int(e[1:]) < len(base[2]):
                    base = base[2][int(e[1:])]   # (a, b).0 is a
                else:
                    base = ('field', base, e)
            elif 'dc' in e:
                base = ('downcast', base, e['dc'])
            elif 'ix' in e or 'cix' in e or 'sub' in e:
                base = ('index', base)
        return base

    def of_local(self, l, depth=0, seen=frozenset()):
        b = self.body
        if l in seen or depth > self.max_depth:
            return ('local', l)
        key = l
        if key in self._memo and not seen:
            return self._memo[key]
        if 1 <= l <= b.argc and not b.defs.get(l):
            r = ('arg', l, b.local_name(l))
            self._memo[key] = r
            return r
        if self.stop_at_vars and (depth > 0 or seen) and b.varnames.get(l):
            return ('var', l, b.varnames[l][0])
        ds = [d for d in b.defs.get(l, []) if d[2] in ('assign', 'call', 'yield', 'passign', 'pcall')]
        if self.live is not None:
            ds = [d for d in ds if d[0] in self.live]
        if 1 <= l <= b.argc:
            alts = [('arg', l, b.local_name(l))]
        else:
            alts = []
        seen2 = seen | {l}
        for (bb, idx, kind, payload) in ds:
            if kind == 'assign':
                alts.append(self.of_rvalue(payload['rv'], depth, seen2))
            elif kind == 'passign':
                alts.append(('set', self.of_rvalue(payload['rv'], depth, seen2)))
            elif kind in ('call', 'pcall'):
                alts.append(self.of_call(payload, depth, seen2))
            elif kind == 'yield':
                alts.append(('yield',))
        if not alts:
            r = ('local', l)
        elif len(alts) == 1:
            r = alts[0]
        else:
            uniq = []
            for a in alts:
                if a not in uniq:
                    uniq.append(a)
            r = uniq[0] if len(uniq) == 1 else ('phi', uniq)
        if not seen:
            self._memo[key] = r
        return r

    def of_call(self, call, depth, seen):
        if call.callee is None:
            f = self.of_operand(call.fnop, depth + 1, seen)
            return ('call', '<indirect>', [f] + [self.of_operand(a, depth + 1, seen) for a in call.args], call)
        if call.args and _is_transparent(call, self.extra):
            return self.of_operand(call.args[0], depth, seen)
        return ('call', call.callee, [self.of_operand(a, depth + 1, seen) for a in call.args], call)

    def of_rvalue(self, rv, depth, seen):
        k = rv['k']
        if k in ('use', 'repeat'):
            return self.of_operand(rv['a'], depth, seen)
        if k in ('ref', 'rawptr'):
            return self.of_place(rv['pl'], depth, seen)
        if k == 'cast':
            inner = self.of_operand(rv['a'], depth, seen)
            ck = rv.get('ck', '')
            if ck.startswith('PointerCoercion') or ck in ('PtrToPtr', 'Transmute'):
                return inner
            return ('cast', inner, rv.get('ty'))
        if k == 'bin':
            return ('bin', rv['op'], self.of_operand(rv['a'], depth + 1, seen), self.of_operand(rv['b'], depth + 1, seen))
        if k == 'un':
            return ('un', rv['op'], self.of_operand(rv['a'], depth + 1, seen))
        if k == 'discr':
            return ('discr', self.of_place(rv['pl'], depth + 1, seen), rv.get('adt'))
        if k == 'agg':
            ak = rv['ak']
            if ak == 'adt':
                d = '%s::%s' % (short(rv['adt']), rv['variant'])
            elif ak in ('closure', 'coroutine', 'coroutine_closure'):
                d = '%s:%s' % (ak, rv['def'])
            else:
                d = ak
            return ('agg', d, [self.of_operand(o, depth + 1, seen) for o in rv['ops']], rv.get('fields'))
        if k == 'tls':
            return ('const', 'tls:' + rv['def'], None)
        return ('const', '<%s>' % k, None)


def promoted_value(pbody):
    """Value of a promoted constant body when it is a plain literal / reference to one."""
    o = Origin(pbody, max_depth=6)
    # promoted bodies assign _0
    for (bb, idx, kind, payload) in pbody.defs.get(0, []):
        if kind == 'assign':
            v = o.of_rvalue(payload['rv'], 0, frozenset())
            if v[0] == 'const':
                return v
            return v
    return None


def render(e, depth=0):
    """Compact, stable, line-number-free rendering of an origin tree."""
    if depth > 12:
        return '…'
    t = e[0]
    if t == 'const':
        if e[2] is not None:
            return str(e[2])
        return e[1]
    if t == 'arg':
        return 'arg:%s' % e[2]
    if t == 'var':
        return 'var:%s' % e[2]
    if t == 'local':
        return '_%d' % e[1]
    if t == 'field':
        f = e[2]
        if f.startswith('^'):
            return 'cap:%s' % f.split(':', 1)[-1]
        if f.startswith('.'):
            return '%s%s' % (render(e[1], depth + 1), f)
        return '%s→%s' % (render(e[1], depth + 1), f.rsplit('::', 1)[-1])
    if t == 'index':
        return '%s[]' % render(e[1], depth + 1)
    if t == 'downcast':
        return '%s@%s' % (render(e[1], depth + 1), e[2])
    if t == 'call':
        return '%s(%s)' % (short(e[1]), ', '.join(render(a, depth + 1) for a in e[2]))
    if t == 'bin':
        return '(%s %s %s)' % (render(e[2], depth + 1), e[1], render(e[3], depth + 1))
    if t == 'un':
        return '%s(%s)' % (e[1], render(e[2], depth + 1))
    if t == 'discr':
        return 'discr(%s)' % render(e[1], depth + 1)
    if t == 'agg':
        return '%s{%s}' % (e[1] if not e[1].startswith(('closure', 'coroutine')) else e[1].split(':', 1)[0] + ':' + short(e[1].split(':', 1)[1]),
                           ', '.join(render(a, depth + 1) for a in e[2]))
    if t == 'cast':
        return render(e[1], depth + 1)
    if t == 'phi':
        return 'phi(%s)' % ' | '.join(sorted(set(render(a, depth + 1) for a in e[1])))
    if t == 'set':
        return 'set(%s)' % render(e[1], depth + 1)
    if t == 'promoted':
        return 'promoted[%d]' % e[1]
    if t == 'yield':
        return 'yield'
    return str(e)


def walk(e):
    """Iterate over all sub-trees of an origin expression."""
    yield e
    t = e[0]
    if t in ('field', 'index', 'downcast', 'discr', 'cast', 'set'):
        yield from walk(e[1])
    elif t == 'call':
        for a in e[2]:
            yield from walk(a)
    elif t == 'bin':
        yield from walk(e[2])
        yield from walk(e[3])
    elif t == 'un':
        yield from walk(e[2])
    elif t == 'agg':
        for a in e[2]:
            yield from walk(a)
    elif t == 'phi':
        for a in e[1]:
            yield from walk(a)


def fields_in(e):
    return [x[2] for x in walk(e) if x[0] == 'field']


def calls_in(e):
    return [x for x in walk(e) if x[0] == 'call']


# ------------------------------------------------------------------ success / failure edges

_VARIANT_IDX = {
    'core::result::Result': {'Ok': 0, 'Err': 1},
    'core::option::Option': {'None': 0, 'Some': 1},
    'core::ops::control_flow::ControlFlow': {'Continue': 0, 'Break': 1},
}

_WRAPPERS = ('anyhow::Context::context', 'anyhow::Context::with_context', 'core::result::Result::map_err',
             'core::result::Result::map', 'core::option::Option::ok_or', 'core::option::Option::ok_or_else',
             'core::option::Option::map', 'core::ops::try_trait::Try::branch')


def _uses_of_local(body, l, from_bb):
    """First consumer(s) of local l reachable from from_bb (forward search, stops at first use on each path)."""
    out = []
    seen = set()
    stack = [from_bb]
    while stack:
        bb = stack.pop()
        if bb in seen:
            continue
        seen.add(bb)
        blk = body.blocks[bb]
        used = False
        for k, s in enumerate(blk['s']):
            if 'rv' not in s:
                continue
            if _rv_mentions(s['rv'], l):
                out.append((bb, k, 'stmt', s))
                used = True
                break
        if used:
            continue
        t = blk['t']
        if t['k'] == 'call':
            if any(_op_local(a) == l for a in t.get('args', [])):
                out.append((bb, len(blk['s']), 'call', body.call_at(bb)))
                continue
        elif t['k'] == 'switch':
            if _op_local(t['on']) == l:
                out.append((bb, len(blk['s']), 'switch', t))
                continue
        elif t['k'] == 'drop':
            if t['pl']['l'] == l and not t['pl'].get('p'):
                continue
        for s in body.succ(bb):
            stack.append(s)
    return out


def _op_local(op):
    if op.get('k') in ('cp', 'mv'):
        return op['pl']['l']
    return None


def _rv_mentions(rv, l):
    k = rv['k']
    if k in ('use', 'repeat', 'cast', 'un'):
        return _op_local(rv['a']) == l
    if k in ('ref', 'rawptr', 'discr'):
        return rv['pl']['l'] == l
    if k == 'bin':
        return _op_local(rv['a']) == l or _op_local(rv['b']) == l
    if k == 'agg':
        return any(_op_local(o) == l for o in rv['ops'])
    return False


def outcome_edges(body, call, max_hops=8):
    """For a fallible call: (success_edges, failure_edges), each a list of (from_bb, to_bb).
    Follows the result through transparent wrappers, `?`, explicit match, is_ok/is_some, bool switches.
    Returns (None, None) if the result is never tested (infallible or ignored)."""
    dest = call.dest
    if dest is None or dest.get('p') or call.to is None:
        return None, None
    return _outcome_of_local(body, dest['l'], call.to, max_hops)


def _outcome_of_local(body, l, from_bb, hops):
    if hops <= 0:
        return None, None
    succ_e, fail_e = [], []
    found = False
    for (bb, k, kind, payload) in _uses_of_local(body, l, from_bb):
        if kind == 'stmt':
            rv = payload['rv']
            tgt = payload['pl']
            if tgt.get('p'):
                continue
            if rv['k'] == 'discr' and not rv['pl'].get('p'):
                adt = strip_generics(rv.get('adt') or '')
                vmap = _VARIANT_IDX.get(adt)
                sw = _find_switch_on(body, tgt['l'], bb)
                if sw is not None and vmap:
                    sbb, t = sw
                    okv = 0 if adt != 'core::option::Option' else 1
                    for v, tg in t['tg']:
                        (succ_e if v == okv else fail_e).append((sbb, tg))
                    # otherwise edge: belongs to the side not enumerated
                    listed = [v for v, _ in t['tg']]
                    if okv in listed:
                        fail_e.append((sbb, t['else']))
                    else:
                        succ_e.append((sbb, t['else']))
                    found = True
            elif rv['k'] in ('use',) and _op_local(rv['a']) == l:
                s2, f2 = _outcome_of_local(body, tgt['l'], bb, hops - 1)
                if s2 is not None:
                    succ_e += s2
                    fail_e += f2
                    found = True
            elif rv['k'] == 'ref' and rv['pl']['l'] == l and not rv['pl'].get('p'):
                s2, f2 = _outcome_of_local(body, tgt['l'], bb, hops - 1)
                if s2 is not None:
                    succ_e += s2
                    fail_e += f2
                    found = True
            elif rv['k'] == 'un' and rv['op'] == 'Not':
                s2, f2 = _outcome_of_local(body, tgt['l'], bb, hops - 1)
                if s2 is not None:
                    succ_e += f2
                    fail_e += s2
                    found = True
        elif kind == 'call':
            c = payload
            if c.dest is None or c.dest.get('p') or c.to is None:
                continue
            if c.is_(*_WRAPPERS) or _is_transparent(c):
                s2, f2 = _outcome_of_local(body, c.dest['l'], c.to, hops - 1)
                if s2 is not None:
                    succ_e += s2
                    fail_e += f2
                    found = True
            elif c.is_('core::result::Result::is_ok', 'core::option::Option::is_some'):
                s2, f2 = _outcome_of_local(body, c.dest['l'], c.to, hops - 1)
                if s2 is not None:
                    succ_e += s2
                    fail_e += f2
                    found = True
            elif c.is_('core::result::Result::is_err', 'core::option::Option::is_none', 'anyhow::__private::not'):
                s2, f2 = _outcome_of_local(body, c.dest['l'], c.to, hops - 1)
                if s2 is not None:
                    succ_e += f2
                    fail_e += s2
                    found = True
        elif kind == 'switch':
            t = payload
            # bool: 0 -> false
            for v, tg in t['tg']:
                (fail_e if v == 0 else succ_e).append((bb, tg))
            if 0 in [v for v, _ in t['tg']]:
                succ_e.append((bb, t['else']))
            else:
                fail_e.append((bb, t['else']))
            found = True
    if not found:
        return None, None
    return succ_e, fail_e


def _find_switch_on(body, l, from_bb):
    """switch terminator on local l, in from_bb or reachable through straight-line gotos."""
    bb = from_bb
    for _ in range(6):
        t = body.blocks[bb]['t']
        if t['k'] == 'switch' and _op_local(t['on']) == l:
            return bb, t
        if t['k'] in ('goto', 'falseedge') and len(body.succ(bb)) == 1:
            bb = body.succ(bb)[0]
            continue
        break
    return None


def success_edges(body, call):
    s, f = outcome_edges(body, call)
    if s is None:
        return [(call.bb, call.to)] if call.to is not None else []
    return s


def failure_edges(body, call):
    s, f = outcome_edges(body, call)
    return f or []


# ------------------------------------------------------------------ Err exits

def err_blocks(body):
    """Blocks that put an error into the return place: `?` residual conversion, an explicit Err aggregate
    (incl. bail!/ensure!), or `Err(e).context(..)` / `_0 = move _x` where _x is an Err aggregate.
    A path from entry to Return avoiding all of them is an Ok path (or a pass-through of a callee's Result,
    which is conservatively treated as Ok)."""
    if hasattr(body, '_err_blocks'):
        return body._err_blocks
    out = set()
    og = None

    def is_err_value(op):
        nonlocal og
        if op.get('k') not in ('mv', 'cp') or op['pl'].get('p'):
            return False
        og = og or Origin(body, max_depth=6)
        e = og.of_operand(op)
        if e[0] == 'phi':
            alts = e[1]
        else:
            alts = [e]
        return bool(alts) and all(a[0] == 'agg' and a[1].endswith('Result::Err') for a in alts)

    for i, b in enumerate(body.blocks):
        t = b['t']
        if t['k'] == 'call':
            c = body.call_at(i)
            if c.dest and c.dest['l'] == 0 and not c.dest.get('p'):
                if c.is_('core::ops::try_trait::FromResidual::from_residual'):
                    out.add(i)
                elif c.args and (c.is_(*_WRAPPERS) or _is_transparent(c)) and is_err_value(c.args[0]):
                    out.add(i)
        for s in b['s']:
            if 'rv' in s and s['pl']['l'] == 0 and not s['pl'].get('p'):
                rv = s['rv']
                if rv['k'] == 'agg' and rv.get('ak') == 'adt' and rv.get('variant') == 'Err' and 'Result' in rv.get('adt', ''):
                    out.add(i)
                elif rv['k'] == 'use' and is_err_value(rv['a']):
                    out.add(i)
    body._err_blocks = out
    return out


def ok_return_reachable(body, starts, avoid_blocks=(), avoid_edges=()):
    """Is a normal Return reachable from `starts` along a path that does not pass an Err block?"""
    avoid = set(avoid_blocks) | err_blocks(body)
    r = body.reach(starts, avoid, avoid_edges)
    starts = set(starts)
    return any(x in r for x in body.return_blocks())


# ------------------------------------------------------------------ jump threading of materialised bools

def threaded_successors(body):
    """succ function with materialised-bool joins threaded: a block P that assigns `_b = const true|false`
    and flows (through goto-only blocks) into J: `[_t = Not(_b);] switchInt(move _b|_t)` is redirected to J's
    matching target.  Returns dict bb -> list of successors (only for blocks that changed)."""
    if hasattr(body, '_threaded'):
        return body._threaded
    red = {}
    info = {}   # j -> {'local': b, 'threaded_defs': set(def blocks), 'all_const_defs': n, 'nonconst_defs': n}
    for j, blk in enumerate(body.blocks):
        t = blk['t']
        if t['k'] != 'switch' or t.get('onty') != 'bool':
            continue
        l = _op_local(t['on'])
        if l is None or t['on']['pl'].get('p'):
            continue
        # resolve pure copies / negations inside J
        neg = False
        pure = True
        local_defs_in_j = {}
        for s in blk['s']:
            if 'rv' in s:
                if s['pl'].get('p'):
                    pure = False
                    break
                local_defs_in_j[s['pl']['l']] = s['rv']
        if not pure:
            continue
        cur_l = l
        used = set()
        for _ in range(4):
            rv = local_defs_in_j.get(cur_l)
            if rv is None:
                break
            used.add(cur_l)
            if rv['k'] == 'un' and rv['op'] == 'Not' and _op_local(rv['a']) is not None and not rv['a']['pl'].get('p'):
                neg = not neg
                cur_l = _op_local(rv['a'])
            elif rv['k'] == 'use' and _op_local(rv['a']) is not None and not rv['a']['pl'].get('p'):
                cur_l = _op_local(rv['a'])
            else:
                cur_l = None
                break
        if cur_l is None or set(local_defs_in_j) - used:
            continue
        join = j
        # `ensure!(c)` = `if anyhow::__private::not(c)`: the negation is a call block N in front of J
        dj = body.defs.get(cur_l, [])
        if len(dj) == 1 and dj[0][2] == 'call':
            nc = dj[0][3]
            if (nc.is_('anyhow::__private::not') and nc.to == j and len(nc.args) == 1
                    and _op_local(nc.args[0]) is not None and not nc.args[0]['pl'].get('p')
                    and not any('rv' in s_ for s_ in body.blocks[nc.bb]['s'])):
                cur_l = _op_local(nc.args[0])
                neg = not neg
                join = nc.bb
        defs = body.defs.get(cur_l, [])
        const_defs = []
        nonconst = 0
        for (bb, idx, kind, payload) in defs:
            if kind == 'assign':
                rv = payload['rv']
                if rv['k'] == 'use' and rv['a'].get('k') == 'c' and rv['a'].get('int') in (0, 1) and rv['a'].get('ty') == 'bool':
                    const_defs.append((bb, idx, rv['a']['int']))
                    continue
            nonconst += 1
        if not const_defs:
            continue
        tmap = dict((v, tg) for v, tg in t['tg'])
        threaded = set()
        for (bb, idx, val) in const_defs:
            cur = bb
            path_ok = False
            hops = 0
            while hops < 6:
                ss = body.succ(cur)
                if len(ss) != 1 or body.blocks[cur]['t']['k'] not in ('goto', 'falseedge', 'drop'):
                    break
                nxt = ss[0]
                if nxt == join:
                    path_ok = True
                    break
                if any('rv' in s for s in body.blocks[nxt]['s']):
                    break
                # the redirection is applied to the LAST block of the chain: that block must belong to this constant's path alone — a shared join (a common
                # drop block that other definitions of the bool flow through) would carry every path past the switch
                if len([p_ for p_ in body.pred(nxt) if p_ in body.live_blocks()]) != 1:
                    break
                cur = nxt
                hops += 1
            if not path_ok:
                continue
            v = val ^ 1 if neg else val
            target = tmap.get(v, t['else'])
            red[cur] = [target if s == join else s for s in (red.get(cur) or body.succ(cur))]
            threaded.add(bb)
        info[j] = {'local': cur_l, 'threaded': threaded, 'const_defs': len(const_defs), 'nonconst_defs': nonconst,
                   'neg': neg}
    body._threaded = red
    body._threaded_info = info
    return red


class ThreadedView:
    """CFG view of a body with materialised booleans threaded (fixpoint over nested &&/|| chains)."""

    def __init__(self, body):
        self.body = body
        self.red = threaded_successors(body)

    def succ(self, i):
        return self.red.get(i) or self.body.succ(i)

    def reach(self, starts, avoid_blocks=(), avoid_edges=()):
        avoid_blocks = set(avoid_blocks)
        avoid_edges = set(avoid_edges)
        starts = [s for s in starts if s not in avoid_blocks]
        seen = set(starts)
        stack = list(starts)
        while stack:
            a = stack.pop()
            for s in self.succ(a):
                if s in seen or s in avoid_blocks or (a, s) in avoid_edges:
                    continue
                seen.add(s)
                stack.append(s)
        return seen


# ------------------------------------------------------------------ guard predicates

_FLIP = {'Lt': 'Gt', 'Le': 'Ge', 'Gt': 'Lt', 'Ge': 'Le', 'Eq': 'Eq', 'Ne': 'Ne'}
_NEG = {'Lt': 'Ge', 'Le': 'Gt', 'Gt': 'Le', 'Ge': 'Lt', 'Eq': 'Ne', 'Ne': 'Eq'}
_SYM = {'Lt': '<', 'Le': '<=', 'Gt': '>', 'Ge': '>=', 'Eq': '==', 'Ne': '!='}

_CMP_CALLS = {
    'core::cmp::PartialEq::eq': 'Eq', 'core::cmp::PartialEq::ne': 'Ne',
    'core::cmp::PartialOrd::lt': 'Lt', 'core::cmp::PartialOrd::le': 'Le',
    'core::cmp::PartialOrd::gt': 'Gt', 'core::cmp::PartialOrd::ge': 'Ge',
}


def _linear(e):
    """Integer-linear view of an origin tree: (sorted term strings with sign, constant)."""
    t = e[0]
    if t == 'const' and e[2] is not None:
        return [], e[2]
    if t == 'cast':
        return _linear(e[1])
    if t == 'bin' and e[1] in ('Add', 'AddWithOverflow', 'AddUnchecked'):
        a, ca = _linear(e[2])
        b, cb = _linear(e[3])
        return a + b, ca + cb
    if t == 'bin' and e[1] in ('Sub', 'SubWithOverflow', 'SubUnchecked'):
        a, ca = _linear(e[2])
        b, cb = _linear(e[3])
        return a + [(-s, x) for s, x in b], ca - cb
    if t == 'field' and e[2] == '.0' and e[1][0] == 'bin' and e[1][1].endswith('WithOverflow'):
        return _linear(e[1])
    if t == 'call' and short(e[1]) in ('usize::saturating_add', 'u64::saturating_add', 'u32::saturating_add',
                                       'usize::wrapping_add', 'u64::wrapping_add', 'usize::checked_add') and len(e[2]) == 2:
        a, ca = _linear(e[2][0])
        b, cb = _linear(e[2][1])
        return a + b, ca + cb
    return [(1, render(e))], 0


def normalize_cmp(op, a, b, is_float=False):
    """Canonical string for `a op b`.  Integers: 'X - Y >= c' style with X,Y term lists ordered; floats: oriented pair."""
    if is_float:
        ra, rb = render(a), render(b)
        if ra > rb:
            ra, rb, op = rb, ra, _FLIP[op]
        return '%s %s %s' % (ra, _SYM[op], rb)
    ta, ca = _linear(a)
    tb, cb = _linear(b)
    # a - b op 0  ->  terms op c
    terms = ta + [(-s, x) for s, x in tb]
    c = cb - ca
    # cancel equal terms
    acc = {}
    for s, x in terms:
        acc[x] = acc.get(x, 0) + s
    terms = sorted((x, s) for x, s in acc.items() if s != 0)
    if not terms:
        return 'const %s %d' % (_SYM[op], c)
    # orientation: make the first term positive
    if terms[0][1] < 0:
        terms = [(x, -s) for x, s in terms]
        c = -c
        op = _FLIP[op]
    # strict -> non-strict over integers
    if op == 'Gt':
        op, c = 'Ge', c + 1
    elif op == 'Lt':
        op, c = 'Le', c - 1
    lhs = ' '.join(('+ ' if s > 0 else '- ') + (x if abs(s) == 1 else '%d*%s' % (abs(s), x)) for x, s in terms)
    return '%s %s %d' % (lhs, _SYM[op], c)


def atom_of(expr, body=None, drop_const_phi=False):
    """Boolean atom (string, polarity-normalised) for a bool-typed origin tree; returns (text, negated).
    drop_const_phi: the constant alternatives of a phi were jump-threaded away, only the computed ones remain."""
    t = expr[0]
    if t == 'phi' and drop_const_phi:
        rest = [a for a in expr[1] if not (a[0] == 'const' and a[2] in (0, 1))]
        if len(rest) == 1:
            return atom_of(rest[0], body, drop_const_phi)
    if t == 'un' and expr[1] == 'Not':
        s, n = atom_of(expr[2], body, drop_const_phi)
        return s, not n
    if t == 'call' and short(expr[1]) in ('__private::not',) or (t == 'call' and expr[1].endswith('anyhow::__private::not')):
        s, n = atom_of(expr[2][0], body, drop_const_phi)
        return s, not n
    if t == 'bin' and expr[1] in _SYM:
        fl = _looks_float(expr[2]) or _looks_float(expr[3])
        if expr[1] == 'Ne':   # canonical form: `a != b` is the negation of `a == b`
            return 'cmp[' + normalize_cmp('Eq', expr[2], expr[3], fl) + ']', True
        return 'cmp[' + normalize_cmp(expr[1], expr[2], expr[3], fl) + ']', False
    if t == 'call':
        o = None
        c = expr[3] if len(expr) > 3 else None
        name = (c.orig if c is not None else None) or expr[1]
        for k, v in _CMP_CALLS.items():
            if name == k or name.endswith('::' + k):
                o = v
        if o and len(expr[2]) == 2:
            a, b = expr[2]
            ra, rb = render(a), render(b)
            op = o
            if op in ('Eq', 'Ne'):
                if ra > rb:
                    ra, rb = rb, ra
                neg = op == 'Ne'
                return 'eq[%s, %s]' % (ra, rb), neg
            return 'ord[%s %s %s]' % (ra, _SYM[op], rb), False
    return 'bool[' + render(expr) + ']', False


def _looks_float(e):
    if e[0] == 'const':
        return bool(re.search(r'(f32|f64)$', e[1])) or ('.' in e[1] and e[1].replace('.', '').replace('_', '').replace('-', '').isdigit())
    if e[0] == 'cast':
        return e[2] in ('f32', 'f64')
    return False


def switch_edge_predicates(body, bb, origin=None, drop_const_phi=False):
    """For a switch block: list of (target_bb, predicate_text).  Discriminant switches give
    'variant(<place>) = V' / '∉{..}', bool switches give the atom or its negation.
    drop_const_phi: render a flag `phi(const | X)` as X — only for a caller that itself follows the constant assignments of that flag along each path
    (pathsens.explore); for a flow-insensitive reader the false edge of such a switch is NOT `¬X`."""
    t = body.blocks[bb]['t']
    if t['k'] != 'switch':
        return []
    o = origin or Origin(body)
    e = o.of_operand(t['on'])
    out = []
    if t.get('onty') == 'bool':
        threaded_successors(body)
        ti = getattr(body, '_threaded_info', {}).get(bb)
        dcp = drop_const_phi or bool(ti and len(ti['threaded']) == ti['const_defs'])
        atom, neg = atom_of(e, body, dcp)
        for v, tg in t['tg']:
            truth = (v != 0)
            out.append((tg, ('!' if (truth == neg) else '') + atom))
        listed = [v for v, _ in t['tg']]
        truth = 0 in listed  # otherwise edge is the "true" edge when 0 is listed
        out.append((t['else'], ('!' if (truth == neg) else '') + atom))
        return out
    if e[0] == 'discr':
        adt = strip_generics(e[2] or '')
        place = render(e[1])
        names = _variant_names(body.prog, adt)
        listed = []
        for v, tg in t['tg']:
            n = names.get(v, '#%d' % v)
            listed.append(n)
            out.append((tg, 'variant(%s) = %s' % (place, n)))
        out.append((t['else'], 'variant(%s) ∉ {%s}' % (place, ','.join(listed))))
        return out
    # integer / char switch
    r = render(e)
    listed = []
    for v, tg in t['tg']:
        listed.append(str(v))
        out.append((tg, '%s = %d' % (r, v)))
    out.append((t['else'], '%s ∉ {%s}' % (r, ','.join(listed))))
    return out


def _variant_names(prog, adt):
    a = prog.adts.get(adt)
    if a:
        return {v.get('discr', v['idx']): v['name'] for v in a['variants']}
    m = _VARIANT_IDX.get(adt)
    if m:
        return {v: k for k, v in m.items()}
    return {}


def cmp_rx(a_rx, b_rx, rel, c=0):
    """Regex matching the integer normal form of `A - B rel c` in either orientation (rel in '>=', '<=', '==', '!=').
    a_rx / b_rx are regex fragments for the rendered terms."""
    flip = {'>=': '<=', '<=': '>=', '==': '==', '!=': '!='}[rel]
    f1 = r'cmp\[\+ %s - %s %s %d\]' % (a_rx, b_rx, re.escape(rel), c)
    f2 = r'cmp\[\+ %s - %s %s %d\]' % (b_rx, a_rx, re.escape(flip), -c)
    return '^(?:%s|%s)$' % (f1, f2)


def top_alternatives(e):
    """Alternatives of an origin tree: phis (also below field / downcast / cast wrappers) are split, the wrappers re-applied."""
    t = e[0]
    if t == 'phi':
        out = []
        for a in e[1]:
            out += top_alternatives(a)
        return out
    if t in ('field', 'downcast', 'cast', 'index'):
        return [(t, a) + tuple(e[2:]) for a in top_alternatives(e[1])]
    return [e]
