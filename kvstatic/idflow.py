"""Typestate "validated id" for index-like values: a forward must-dataflow over one body family (root + closures)
at the level of user variables, with optimistic summaries discharged by obligations.

Tokens of the state are var-level renderings of id expressions ('var:nbr', 'arg:entry', 'cap:entry'),
'struct:X' (variable X holds an item popped from a validated heap), 'NONEMPTY' (the node count is > 0) and
'HEAPS' (the scratch heaps were cleared by prepare on this path).

  gen   – switch edge establishing `E < n` (n one of the accepted node-count forms), normal return of a checked
          accessor called with E, assignment `X = R` with R valid in the state before it (valid variable, constant 0
          under NONEMPTY, `.0` of a summarised call with valid arguments, item popped from the heaps under HEAPS,
          element of a container that only receives valid ids), parameters (optimistic; every use is turned into an
          obligation on all callers), captures valid in the creating body at the creation site.
  kill  – assignment to / mutable borrow of / StorageDead of a local bound to a name that the token mentions.
  join  – intersection.

Every optimistic assumption is discharged by an obligation evaluated on the fixpoint states: pushes into the heaps
and tracked containers push valid ids, callers pass valid ids.  The first invalid id of an execution would have to
violate one of them.
"""
import re
from collections import namedtuple

from . import flow
from .callgraph import callers_index

Ob = namedtuple('Ob', 'body bb kind descr expr ok why loc')

FORCE = frozenset({-1})
_PRED = re.compile(r'^(!?)cmp\[\+ (.+?) - (.+) (>=|<=|==) (-?\d+)\]$')
_PRED1 = re.compile(r'^(!?)cmp\[\+ (.+) (>=|<=|==) (-?\d+)\]$')


def mentions(tok, name):
    return re.search(r'(?:var|arg|cap|struct):%s(?!\w)' % re.escape(name), tok) is not None


class Config:
    """Repository-specific tables."""
    def __init__(self, n_rx, unchecked, checked, heaps_rx, heap_push, heap_pop, prepare, ret_summaries=(), graph_type='FlatGraph'):
        self.n_rx = re.compile('^(?:%s)$' % n_rx)
        self.unchecked = unchecked      # callee suffix -> [id arg indexes]
        self.checked = checked          # callee suffix -> id arg index (normal return ⇒ id valid)
        self.heaps_rx = re.compile(heaps_rx)
        self.heap_push = heap_push
        self.heap_pop = heap_pop
        self.prepare = prepare
        self.ret_summaries = ret_summaries
        self.graph_type = graph_type


class BodyFlow:
    def __init__(self, eng, body, s0, parent_flow=None):
        self.eng = eng
        self.parent_flow = parent_flow
        self.b = body
        self.cfg = eng.cfg
        self.ov = flow.Origin(body, stop_at_vars=True)
        self.of = flow.Origin(body)
        self.tv = flow.ThreadedView(body)
        self.s0 = frozenset(s0)
        self.state_in = {}
        self.term_state = {}
        self.stmt_state = {}   # (bb, idx) -> state before the statement
        self.assumed = []      # (kind, detail) optimistic facts used
        self._edge_gen = {}
        self.count_vars = self._count_vars()
        self._run()

    def _count_vars(self):
        """variables that hold the node count: single definition `<graph>.len()` (a stale copy is a lower bound, the count never
        shrinks), or a capture of such a variable of the creating body."""
        b = self.b
        out = {}
        for l, names in b.varnames.items():
            ds = [d for d in b.defs.get(l, []) if d[2] in ('assign', 'call', 'passign', 'pcall', 'yield')]
            if len(ds) != 1 or len(b.var_local(names[0])) != 1:
                continue
            r = flow.render(self.ov.of_local(l, 0, frozenset()))
            if self.cfg.n_rx.match(r):
                out['var:' + names[0]] = r
        if self.parent_flow is not None:
            for k, v in self.parent_flow.count_vars.items():
                out['cap:' + k.split(':', 1)[1]] = v
        return out

    def is_n(self, e):
        return bool(self.cfg.n_rx.match(e)) or e in self.count_vars

    # ---- rendering
    def rv(self, op):
        return flow.render(self.ov.of_operand(op, 0, FORCE))

    def rf(self, op):
        return flow.render(self.of.of_operand(op))

    def valid(self, e, s):
        if e in s:
            return True
        m = re.match(r'^(?:var|cap|arg):(\w+)→[\w:]*HeapItem\.dense_id$', e)
        if m and ('struct:' + m.group(1)) in s:
            return True
        if e == '0' and 'NONEMPTY' in s:
            return True
        return False

    # ---- edge gens
    def _lt_n(self, p):
        """predicate text -> (expression known < n) | ('NONEMPTY',) | None"""
        m = _PRED.match(p)
        if m:
            neg, a, b_, rel, c = m.group(1) == '!', m.group(2), m.group(3), m.group(4), int(m.group(5))
            small = None
            if (not neg and rel == '<=' and c <= -1) or (neg and rel == '>=' and c <= 0):
                small, big = a, b_
            elif (not neg and rel == '>=' and c >= 1) or (neg and rel == '<=' and c >= 0):
                small, big = b_, a
            if small is not None and self.is_n(big):
                return small
            return None
        m = _PRED1.match(p)
        if m:
            neg, a, rel, c = m.group(1) == '!', m.group(2), m.group(3), int(m.group(4))
            if self.is_n(a) and ((neg and rel == '==' and c == 0) or (not neg and rel == '>=' and c >= 1) or (neg and rel == '<=' and c >= 0)):
                return ('NONEMPTY',)
        return None

    def _alias(self, e):
        """`var:X` with X = cast/copy of an immutable variable Y: the guard on X also validates Y."""
        m = re.match(r'^var:(\w+)$', e)
        if not m:
            return None
        b = self.b
        ls = b.var_local(m.group(1))
        if len(ls) != 1:
            return None
        ds = [d for d in b.defs.get(ls[0], []) if d[2] in ('assign', 'call', 'passign', 'pcall', 'yield')]
        if len(ds) != 1 or ds[0][2] != 'assign':
            return None
        o = self.ov.of_rvalue(ds[0][3]['rv'], 0, FORCE)
        while o[0] == 'cast':
            o = o[1]
        r = flow.render(o)
        mm = re.match(r'^(var|arg|cap):(\w+)$', r)
        if not mm:
            return None
        ys = b.var_local(mm.group(2))
        if len(ys) != 1:
            return None
        nd = len([d for d in b.defs.get(ys[0], []) if d[2] in ('assign', 'call', 'passign', 'pcall', 'yield')])
        if (mm.group(1) in ('arg', 'cap') and nd == 0) or (mm.group(1) == 'var' and nd == 1):
            return r
        return None

    def edge_gen(self, bb):
        if bb in self._edge_gen:
            return self._edge_gen[bb]
        out = {}
        blk = self.b.blocks[bb]
        if blk['t']['k'] == 'switch':
            per = {}
            for tg, p in flow.switch_edge_predicates(self.b, bb, self.ov):
                g = set()
                # a guard kept in a named bool (`let in_bounds = id < n; if in_bounds {..}`): substitute the comparison that defines it — sound when the bool
                # has exactly one definition and no operand of the comparison is a variable assigned between that definition and this switch
                mb = re.match(r'^(!?)bool\[var:(\w+)\]$', p)
                if mb:
                    ls = self.b.var_local(mb.group(2))
                    if len(ls) == 1:
                        ds = [d for d in self.b.defs.get(ls[0], []) if d[2] in ('assign', 'call', 'passign', 'pcall', 'yield')]
                        if len(ds) == 1 and ds[0][2] == 'assign' and ds[0][3]['rv'].get('k') == 'bin' and ds[0][3]['rv'].get('op') in ('Lt', 'Le', 'Gt', 'Ge'):
                            cmp_o = self.ov.of_rvalue(ds[0][3]['rv'], 0, FORCE)
                            cr = flow.render(cmp_o)
                            ops = re.findall(r'var:(\w+)', cr)
                            stable = True
                            db, di = ds[0][0], ds[0][1]
                            # blocks on a path from the definition to this switch that does not pass the definition again
                            region = set() if db == bb else (self.b.reach(self.b.succ(db), avoid_blocks=[db]) & {x for x in range(len(self.b.blocks)) if bb in (self.b.reach([x], avoid_blocks=[db]) | {x})})
                            for nm_ in set(ops):
                                for l2 in self.b.var_local(nm_):
                                    for d2 in self.b.defs.get(l2, []):
                                        if d2[0] in region or (d2[0] == db and d2[1] > di):
                                            stable = False
                            if stable:
                                atom, neg = flow.atom_of(cmp_o, self.b, False)
                                if atom.startswith('cmp['):
                                    p = ('!' if (bool(mb.group(1)) != neg) else '') + atom
                r = self._lt_n(p)
                if r == ('NONEMPTY',):
                    g.add('NONEMPTY')
                elif r:
                    g.add(r)
                    a = self._alias(r)
                    if a:
                        g.add(a)
                    # an id below n implies n > 0
                    g.add('NONEMPTY')
                per.setdefault(tg, []).append(g)
            for tg, gs in per.items():
                out[tg] = set.intersection(*gs) if gs else set()
        self._edge_gen[bb] = out
        return out

    # ---- transfer
    def _kill(self, s, l):
        names = self.b.varnames.get(l)
        if not names:
            return s
        return frozenset(t for t in s if not any(mentions(t, n) for n in names))

    def _gen_assign(self, s_before, s, l, rv=None, call=None):
        """tokens generated by `X = R`."""
        b = self.b
        names = b.varnames.get(l)
        if not names:
            return s
        x = names[0]
        pre = 'var'
        add = set()
        if rv is not None:
            o = self.ov.of_rvalue(rv, 0, FORCE)
            r = flow.render(o)
            full = flow.render(self.of.of_rvalue(rv, 0, frozenset()))
        else:
            o = self.ov.of_call(call, 0, FORCE)
            r = flow.render(o)
            full = r
        if self.valid(r, s_before):
            add.add('%s:%s' % (pre, x))
        # .0 of a summarised call
        m = re.match(r'^(.*?)\((.*)\)\.0$', r)
        if m and o[0] == 'field' and o[1][0] == 'call':
            callee = o[1][1]
            args = [flow.render(a) for a in o[1][2]]
            for suf, idxs in self.cfg.ret_summaries:
                if callee.endswith(suf) and self.eng.ret_summary_ok(callee) and all(i < len(args) and self.valid(args[i], s_before) for i in idxs):
                    add.add('%s:%s' % (pre, x))
                    self.assumed.append(('ret', callee))
        # item popped from a scratch heap
        if re.search(r'%s\(.*%s@Some→Some\.0$' % (re.escape(self.cfg.heap_pop), self.cfg.heaps_rx.pattern), r) and 'HEAPS' in s_before:
            add.add('struct:%s' % x)
            self.assumed.append(('heap', r))
        # element of a container that only receives valid ids
        c = self.eng.element_of(self, full, rv)
        if c is not None:
            ok, why = self.eng.container_read_ok(self, c, self._cur_bb)
            if ok:
                add.add('%s:%s' % (pre, x))
                self.assumed.append(('container', c))
        return frozenset(s | add)

    def _run(self):
        b = self.b
        self.state_in[0] = self.s0
        work = [0]
        it = 0
        while work:
            it += 1
            if it > 20000:
                raise RuntimeError('idflow: no fixpoint in %s' % b.id)
            bb = work.pop()
            s = self.state_in[bb]
            self._cur_bb = bb
            blk = b.blocks[bb]
            for k, st in enumerate(blk['s']):
                self.stmt_state[(bb, k)] = s
                if 'dead' in st:
                    s = self._kill(s, st['dead'])
                    continue
                if 'rv' not in st:
                    continue
                rv = st['rv']
                if rv['k'] in ('ref', 'rawptr') and rv.get('mut') and not rv.get('fake'):
                    pl = rv['pl']
                    # a mutable borrow of an id variable (not of a field behind a reference)
                    if not pl.get('p'):
                        s = self._kill(s, pl['l'])
                pl = st['pl']
                l = pl['l']
                if b.varnames.get(l):
                    before = s
                    s = self._kill(s, l)
                    if not pl.get('p'):
                        s = self._gen_assign(before, s, l, rv=rv)
            self.term_state[bb] = s
            t = blk['t']
            succs = list(self.tv.succ(bb))
            eg = self.edge_gen(bb) if t['k'] == 'switch' else {}
            for sx in succs:
                ns = s
                if t['k'] == 'call' and sx == t.get('to'):
                    c = b.call_at(bb)
                    dl = t['dest']['l']
                    before = ns
                    if b.varnames.get(dl):
                        ns = self._kill(ns, dl)
                        if not t['dest'].get('p'):
                            ns = self._gen_assign(before, ns, dl, call=c)
                    if c is not None and c.callee:
                        for suf, ai in self.cfg.checked.items():
                            if c.callee.endswith(suf) and ai < len(c.args):
                                e = self.rv(c.args[ai])
                                names = b.varnames.get(dl) or []
                                if not any(mentions(e, n) for n in names) and re.match(r'^(var|arg|cap):\w+$', e):
                                    ns = frozenset(ns | {e, 'NONEMPTY'})
                        if c.callee.endswith(self.cfg.prepare):
                            ns = frozenset(ns | {'HEAPS'})
                elif t['k'] == 'switch':
                    g = eg.get(sx)
                    if g:
                        ns = frozenset(ns | g)
                old = self.state_in.get(sx)
                new = ns if old is None else (old & ns)
                if old is None or new != old:
                    self.state_in[sx] = new
                    work.append(sx)


class Engine:
    def __init__(self, prog, cfg, scope_rx):
        self.prog = prog
        self.cfg = cfg
        self.scope = re.compile(scope_rx)
        self.cidx = callers_index(prog)
        self.flows = {}            # body id -> BodyFlow
        self.obligations = []
        self._ret_ok = {}
        self._containers = {}      # (family root id, container path) -> (ok, why)
        self.tracked = {}          # (root id, path) -> reason; containers whose pushes are obligations
        self.fillers = {}          # (callee body id, param token) -> True

    # ------------------------------------------------------------ entry states
    def id_params(self, b):
        out = []
        for l in range(1, b.argc + 1):
            if b.locals[l].strip() == 'u32' and b.varnames.get(l):
                pre = 'var' if b.defs.get(l) else 'arg'
                out.append((l, '%s:%s' % (pre, b.varnames[l][0])))
        return out

    def flow_of(self, b, drop=frozenset()):
        """BodyFlow of a body under optimistic assumptions: id parameters valid and the graph non-empty at entry of a root body
        (each assumption that is needed becomes an obligation on all callers); closures start from the creating body's state at
        the creation site.  `drop` removes tokens from the root's entry state (used to find out which assumptions are needed)."""
        key = (b.id, drop)
        if key in self.flows:
            return self.flows[key]
        if b.kind == 'Closure':
            par = self.prog.bodies.get(b.parent)
            s0 = set()
            if par is not None:
                pf = self.flow_of(par, drop)
                site = None
                for i, blk in enumerate(par.blocks):
                    for k, st in enumerate(blk['s']):
                        rv = st.get('rv')
                        if rv and rv['k'] == 'agg' and rv.get('def') == b.id:
                            site = (i, k)
                ps = pf.stmt_state.get(site) if site is not None else None
                if ps is not None:
                    for t in ps:
                        if t == 'NONEMPTY':
                            s0.add(t)
                        m = re.match(r'^(?:var|arg|cap):(\w+)$', t)
                        if m:
                            s0.add('cap:' + m.group(1))
            f = BodyFlow(self, b, s0, parent_flow=pf if par is not None else None)
        else:
            s0 = (set(tok for _, tok in self.id_params(b)) | {'NONEMPTY'}) - set(drop)
            f = BodyFlow(self, b, s0)
        self.flows[key] = f
        return f

    # ------------------------------------------------------------ summaries
    def ret_summary_ok(self, callee):
        """the callee returns a tuple whose .0 (or a u32 that) is valid at every return, given valid id params."""
        if callee in self._ret_ok:
            return self._ret_ok[callee]
        self._ret_ok[callee] = True
        b = self.prog.resolve_local(callee)
        ok = False
        if b is not None:
            f = self.flow_of(b)
            asg = [(i, k, st) for i, blk in enumerate(b.blocks) for k, st in enumerate(blk['s']) if 'rv' in st and st['pl']['l'] == 0 and not st['pl'].get('p')]
            calls0 = [c for c in b.calls if c.dest and c.dest['l'] == 0]
            ok = bool(asg) and not calls0
            for i, k, st in asg:
                rv = st['rv']
                s = f.stmt_state.get((i, k))
                if s is None:
                    continue  # unreachable
                if rv['k'] == 'agg' and rv['ak'] == 'tuple':
                    e = f.rv(rv['ops'][0])
                elif rv['k'] == 'use':
                    e = f.rv(rv['a'])
                else:
                    ok = False
                    break
                if not f.valid(e, s):
                    ok = False
                    break
        self._ret_ok[callee] = ok
        return ok

    # ------------------------------------------------------------ containers
    _ELEM = [
        (r"^<iter::Iter<'a, T> as iterator::Iterator>::next\(slice::iter\(((?:arg|cap|var):\w+(?:→[\w:.]+)*)\)\)@Some→Some\.0$", 'u32'),
        (r'^slice::first\(((?:arg|cap|var):\w+(?:→[\w:.]+)*)\)@Some→Some\.0\.0$', 'tuple'),
    ]

    def element_of(self, bf, full, rv):
        for rx, kind in self._ELEM:
            m = re.match(rx, full)
            if m:
                return m.group(1)
        return None

    def _container_calls(self, bf, path):
        """calls of body bf.b having the container as an argument: [(call, arg index)]"""
        out = []
        for c in bf.b.calls:
            for ai, a in enumerate(c.args):
                if a.get('k') in ('cp', 'mv') and bf.rf(a) == path:
                    out.append((c, ai))
        return out

    READ_ONLY = ('Vec::len', 'Vec::capacity', 'Vec::reserve', 'slice::contains', 'slice::iter', 'slice::first', 'slice::len', 'slice::is_empty',
                 'Vec::is_empty', '::deref', '::deref_mut', 'slice::reverse', 'Vec::as_slice', 'slice::sort_unstable_by')

    def container_read_ok(self, bf, path, read_bb):
        """element read of container `path` at block read_bb of bf.b is an element written since the last reset, and all writes are tracked."""
        b = bf.b
        uses = self._container_calls(bf, path)
        resets = []
        for c, ai in uses:
            if c.callee and c.callee.endswith('Vec::clear') and ai == 0:
                resets.append(c.bb)
            elif c.callee and ai > 0:
                cb = self.prog.resolve_local(c.callee)
                if cb is not None and self.filler_ok(cb, ai):
                    resets.append(c.bb)
        if not any(b.dominates(r, read_bb) and r != read_bb for r in resets):
            return False, 'no clear() / filling call dominates the read'
        # an enclosing object handed out mutably (e.g. the whole scratch) between the reset and the read could refill it
        parts = path.split('→')
        prefixes = set('→'.join(parts[:i]) for i in range(1, len(parts)))
        for c in b.calls:
            for ai, a in enumerate(c.args):
                if a.get('k') in ('cp', 'mv') and bf.rf(a) in prefixes:
                    cb = self.prog.resolve_local(c.callee) if c.callee else None
                    pty = cb.locals[ai + 1] if cb is not None and ai + 1 < len(cb.locals) else b.locals[a['pl']['l']]
                    if not re.match(r"^&('\w+ )?mut ", pty):
                        continue
                    if c.to is not None and read_bb in b.reach([c.to], avoid_blocks=resets):
                        return False, 'the enclosing object is passed mutably to %s between the reset and the read' % flow.short(c.callee or '<indirect>')
        ok, why = self.container_writes_ok(bf, path)
        return ok, why

    def container_writes_ok(self, bf, path):
        """every use of the container in this body is a read, a reset, a filler or a push (pushes become obligations)."""
        key = (bf.b.id, path)
        if key in self._containers:
            return self._containers[key]
        self._containers[key] = (True, 'assumed')
        bad = []
        pushes = []
        for c, ai in self._container_calls(bf, path):
            cal = c.callee or '<indirect>'
            if ai == 0 and cal.endswith('Vec::clear'):
                continue
            if ai == 0 and cal.endswith('Vec::push'):
                pushes.append(c)
                continue
            if any(cal.endswith(x) for x in self.READ_ONLY):
                continue
            cb = self.prog.resolve_local(cal)
            if cb is not None:
                # passed to a local function: fine if that parameter is a shared reference, or a filler
                pty = cb.locals[ai + 1] if ai + 1 < len(cb.locals) else ''
                if pty.startswith('&') and not re.match(r"^&('\w+ )?mut ", pty):
                    continue
                if self.filler_ok(cb, ai):
                    continue
            bad.append('%s at %s' % (flow.short(cal), c.loc.split(':')[-1]))
        # direct assignments to the container place
        for i, blk in enumerate(bf.b.blocks):
            for st in blk['s']:
                if 'rv' in st and st['pl'].get('p') and flow.render(bf.of.of_place(st['pl'])) == path and '*' not in [x for x in st['pl']['p'][-1:]]:
                    bad.append('assignment at %s' % st.get('loc', '?').split(':')[-1])
        self.tracked[key] = pushes
        res = (not bad, 'all %d uses are reads/resets/fillers, %d pushes tracked' % (len(self._container_calls(bf, path)), len(pushes)) if not bad else 'untracked writer: ' + '; '.join(bad[:3]))
        self._containers[key] = res
        return res

    def filler_ok(self, cb, ai):
        """parameter ai of local function cb is a `&mut Vec` that the function clears first and then only fills with valid ids."""
        key = (cb.id, ai)
        if key in self.fillers:
            return self.fillers[key]
        self.fillers[key] = True
        l = ai + 1
        names = cb.varnames.get(l)
        ok = False
        if names and cb.locals[l].startswith('&mut') and 'Vec<' in cb.locals[l]:
            f = self.flow_of(cb)
            path = 'arg:' + names[0]
            clears = [c.bb for c, i in self._container_calls(f, path) if c.callee and c.callee.endswith('Vec::clear') and i == 0]
            # the clear dominates every other block that touches the container, every closure creation and every return
            fam = [x for x in self.prog.family(cb) if x.id != cb.id]
            touch = [c.bb for c, i in self._container_calls(f, path) if not (c.callee and c.callee.endswith('Vec::clear'))]
            touch += [i for i, blk in enumerate(cb.blocks) for st in blk['s'] if st.get('rv', {}).get('k') == 'agg' and st['rv'].get('def') in [x.id for x in fam]]
            ok = bool(clears) and all(any(cb.dominates(cl, t) for cl in clears) for t in touch) and all(any(cb.dominates(cl, r) for cl in clears) for r in cb.return_blocks() if r in cb.live_blocks())
            if ok:
                ok, _ = self.container_writes_ok(f, path)
            for x in fam:
                xf = self.flow_of(x)
                cpath = 'cap:' + names[0]
                if self._container_calls(xf, cpath):
                    o2, _ = self.container_writes_ok(xf, cpath)
                    ok = ok and o2
        self.fillers[key] = ok
        return ok

    # ------------------------------------------------------------ obligations
    def collect(self, bodies, drop=frozenset(), needed=None):
        """evaluate the obligations of the given bodies on their fixpoint states: unchecked uses, heap pushes, pushes into tracked
        containers, and (for callee parameters listed in `needed`) arguments passed to local callees."""
        obs = []
        cfg = self.cfg
        needed = needed or {}
        for b in bodies:
            f = self.flow_of(b, drop)
            for c in b.calls:
                if not c.callee:
                    continue
                s = f.term_state.get(c.bb)
                if s is None:
                    continue  # unreachable block
                for suf, idxs in cfg.unchecked.items():
                    if c.callee.endswith(suf):
                        for ai in idxs:
                            if ai < len(c.args):
                                e = f.rv(c.args[ai])
                                obs.append(Ob(b, c.bb, 'use', '%s arg %d' % (suf.split('::')[-1], ai), e, f.valid(e, s), '', c.loc))
                if c.callee.endswith(cfg.heap_push) and c.args and cfg.heaps_rx.search(f.rf(c.args[0]) + ')'):
                    o = f.ov.of_operand(c.args[1], 0, FORCE)
                    e = None
                    if o[0] == 'agg' and len(o) > 3 and o[3] and 'dense_id' in o[3]:
                        e = flow.render(o[2][o[3].index('dense_id')])
                    obs.append(Ob(b, c.bb, 'heap-push', 'heap push', e or flow.render(o), e is not None and f.valid(e, s),
                                  '' if e else 'pushed item is not a struct literal with a dense_id field', c.loc))
                g = self.prog.resolve_local(c.callee)
                if g is not None and g.id in needed:
                    for l, tok in needed[g.id]:
                        if tok == 'NONEMPTY':
                            obs.append(Ob(b, c.bb, 'param', 'calls %s on a non-empty graph' % g.short.split('::')[-1], 'NONEMPTY', 'NONEMPTY' in s, '', c.loc))
                        elif l - 1 < len(c.args):
                            e = f.rv(c.args[l - 1])
                            obs.append(Ob(b, c.bb, 'param', 'passes %s of %s' % (tok.split(':')[1], g.short.split('::')[-1]), e, f.valid(e, s), '', c.loc))
            for (bid, path), pushes in list(self.tracked.items()):
                if bid != b.id:
                    continue
                for c in pushes:
                    s = f.term_state.get(c.bb)
                    if s is None:
                        continue
                    o = f.ov.of_operand(c.args[1], 0, FORCE)
                    if o[0] == 'agg' and o[1] == 'tuple':
                        e = flow.render(o[2][0])
                    else:
                        e = flow.render(o)
                    obs.append(Ob(b, c.bb, 'container-push', 'push into %s' % path, e, f.valid(e, s), '', c.loc))
        return obs

    def solve(self, roots):
        """greatest fixpoint of the needed entry assumptions: {root body id: [(param local | None, token)]}."""
        needed = {}
        changed = True
        rounds = 0
        while changed:
            changed = False
            rounds += 1
            for r in roots:
                fam = self.prog.family(r)
                base = None
                for l, tok in self.id_params(r) + [(None, 'NONEMPTY')]:
                    if (l, tok) in needed.get(r.id, []):
                        continue
                    if base is None:
                        base = {(o.body.id, o.bb, o.kind, o.descr): o.ok for o in self.collect(fam, frozenset(), needed)}
                    alt = {(o.body.id, o.bb, o.kind, o.descr): o.ok for o in self.collect(fam, frozenset({tok}), needed)}
                    if any(base[k] and not alt.get(k, False) for k in base):
                        needed.setdefault(r.id, []).append((l, tok))
                        changed = True
        self.rounds = rounds
        return needed

    def indirect_callers(self, b):
        """call sites that may run b without being a direct resolved call to it (fail closed for needed parameters)."""
        out = []
        for cb, cbb in self.cidx.get(b.id, []):
            c = cb.call_at(cbb)
            if c is None or not c.callee or self.prog.resolve_local(c.callee) is not b:
                out.append((cb, cbb))
        return out
