"""Lock analysis: lock classes, guard liveness (may / must hold), acquisition summaries over the call
graph, lock-order edges, cycles, guards across await / blocking hand-off.  See DESIGN.md §3."""
import re
from collections import defaultdict

from .facts import strip_generics
from .flow import Origin, render, short

ACQ_RE = re.compile(
    r'^(lock_api::rwlock::RwLock|lock_api::mutex::Mutex|lock_api::remutex::ReentrantMutex|'
    r'std::sync::(?:poison::)?(?:rwlock::)?RwLock|std::sync::(?:poison::)?(?:mutex::)?Mutex|'
    r'tokio::sync::rwlock::RwLock|tokio::sync::mutex::Mutex|tokio::sync::semaphore::Semaphore)'
    r'::(read|write|lock|upgradable_read|read_recursive|try_read|try_write|try_lock|try_upgradable_read|'
    r'try_read_for|try_write_for|try_lock_for|try_read_until|try_write_until|try_lock_until|'
    r'acquire|acquire_many|acquire_owned|acquire_many_owned|try_acquire|try_acquire_many|try_acquire_owned|'
    r'try_acquire_many_owned|blocking_lock|blocking_read|blocking_write|lock_owned|read_owned|write_owned)$')

MODE = {'read': 'R', 'read_recursive': 'R', 'try_read': 'R', 'upgradable_read': 'U', 'try_upgradable_read': 'U',
        'blocking_read': 'R', 'read_owned': 'R', 'try_read_for': 'R', 'try_read_until': 'R'}

GUARD_TY = re.compile(r'^(?:core::option::Option<|core::task::poll::Poll<|core::result::Result<|\(|&mut |&)*'
                      r'(?:lock_api::\w+::\w*Guard<|tokio::sync::[\w:]*Guard<|std::sync::[\w:]*Guard<|'
                      r'tokio::sync::[\w:]*Permit)')

SPAWN_LIKE = ('tokio::task::spawn::spawn', 'tokio::task::blocking::spawn_blocking', 'std::thread::functions::spawn',
              'std::thread::Builder::spawn', 'std::thread::spawn', 'rayon_core::spawn::spawn', 'tokio::spawn',
              'tokio::runtime::handle::Handle::spawn', 'tokio::runtime::runtime::Runtime::spawn',
              'tokio::task::spawn::spawn_local', 'std::thread::builder::Builder::spawn')

# calls that make the current thread wait for another thread/task to make progress
BLOCKING_HANDOFF = ('std::thread::join::JoinHandle::join', 'std::thread::JoinHandle::join',
                    'std::sync::mpsc::Receiver::recv', 'std::sync::mpsc::Sender::send',
                    'std::sync::mpsc::SyncSender::send', 'std::sync::condvar::Condvar::wait',
                    'std::sync::poison::condvar::Condvar::wait',
                    'lock_api::condvar::Condvar::wait', 'parking_lot::condvar::Condvar::wait',
                    'tokio::runtime::runtime::Runtime::block_on', 'tokio::runtime::handle::Handle::block_on',
                    'tokio::sync::mpsc::bounded::Receiver::blocking_recv', 'tokio::sync::mpsc::bounded::Sender::blocking_send',
                    'std::sync::barrier::Barrier::wait')


class Acq:
    __slots__ = ('call', 'cls', 'mode', 'blocking', 'prim', 'asynch')

    def __init__(self, call, cls, mode, blocking, prim, asynch):
        self.call = call
        self.cls = cls
        self.mode = mode
        self.blocking = blocking
        self.prim = prim
        self.asynch = asynch


class LockModel:
    def __init__(self, prog, class_exceptions=None):
        self.prog = prog
        self.unknown = []          # acquisitions whose class could not be derived
        self.lock_fields = {}      # 'Adt.field' -> type
        self.alias = {}            # class -> canonical class
        self._origins = {}
        self._collect_lock_fields()
        self.body_acqs = {}        # body id -> {bb: Acq}
        self.ret_guard = {}        # body id -> (cls, mode)  for guard-returning closures/functions
        self._param_cls = {}
        self.sync_calls = {}       # body id -> {bb: [callee body]}
        self.summary = {}          # body id -> {cls: (loc, via_body_id or None, mode)}
        self.states = {}           # body id -> {'may': {bb: state_in}, 'must': {...}}
        self.edges = {}            # (h, a) -> witness dict (first found)
        self.upgrade_edges = []
        self.edge_all = defaultdict(list)
        self.yield_viol = []
        self.handoff = []
        self.escapes = []
        self.n_acq = 0
        self._build()

    # ------------------------------------------------------------ lock classes
    def _collect_lock_fields(self):
        groups = defaultdict(list)
        for a in self.prog.adts.values():
            an = a['path'].split('::')[-1]
            for v in a['variants']:
                for f in v['fields']:
                    t = f['ty']
                    if re.search(r'(rwlock::RwLock|mutex::Mutex|Semaphore)\b', t) and 'Guard' not in t:
                        name = '%s.%s' % (an, f['name'])
                        self.lock_fields[name] = t
                        groups[(t, f['name'])].append(name)
                        m = re.search(r'Arc<(?:lock_api|tokio)[\w:]*(?:RwLock|Mutex)<(?:parking_lot::[\w:]+, )?(kyrodb_\w+::[\w:]+)>>', t)
                        if m:
                            groups[('T', m.group(1))].append(name)
        for k, names in groups.items():
            names = sorted(set(names))
            if len(names) > 1:
                canon = names[0]
                for n in names:
                    # union with existing canon
                    self.alias[n] = self.alias.get(canon, canon)

    def canon(self, cls):
        return self.alias.get(cls, cls)

    def origin(self, body):
        o = self._origins.get(body.id)
        if o is None:
            o = Origin(body)
            self._origins[body.id] = o
        return o

    def _class_of_expr(self, body, e, lock_ty, depth=0):
        """Lock class for a receiver origin tree (see DESIGN §3 'Lock classes')."""
        if depth > 6:
            return None
        # peel downcasts / tuple fields / indexes
        via_container = False
        cur = e
        while True:
            t = cur[0]
            if t == 'downcast':
                cur = cur[1]
            elif t == 'field' and (cur[2].startswith('.') or cur[2].startswith('core::') or cur[2].startswith('std::')):
                cur = cur[1]
            elif t == 'index':
                via_container = True
                cur = cur[1]
            elif t == 'cast':
                cur = cur[1]
            else:
                break
        t = cur[0]
        if t == 'field':
            f = cur[2]
            if f.startswith('^'):
                # captured variable: resolve in the creating body
                r = self._class_of_capture(body, f, lock_ty, depth)
                if r:
                    return r + ('[]' if via_container else '')
                return None
            name = f.rsplit('::', 1)[-1]
            if name in self.lock_fields:
                return self.canon(name) + ('[]' if via_container else '')
            # a non-lock field (e.g. Arc<Inner> .inner) – keep going up: the lock may be the field's own type
            return self._class_of_expr(body, cur[1], lock_ty, depth + 1)
        if t == 'call':
            callee = cur[1]
            lb = self.prog.resolve_local(callee)
            if lb is not None and not re.search(r'::(get|get_mut|entry|or_insert_with)$', callee):
                return '%s@%s' % (lock_ty, lb.name or short(callee))
            # std container accessor: element of whatever the first argument is
            for a in cur[2][:1]:
                inner = self._class_of_expr(body, a, lock_ty, depth + 1)
                if inner:
                    return inner if inner.endswith('[]') else inner + '[]'
            return None
        if t == 'arg':
            n = cur[1]
            if body.kind == 'Closure' and n >= 2:
                r = self._class_of_closure_param(body, n, lock_ty, depth)
                if r:
                    return r
            return ('param', n)
        if t == 'phi':
            cs = set()
            for a in cur[1]:
                c = self._class_of_expr(body, a, lock_ty, depth + 1)
                if c:
                    cs.add(c if isinstance(c, str) else str(c))
            if len(cs) == 1:
                return cs.pop()
            return None
        return None

    def _parents_creating(self, closure_body):
        """(parent body, bb, stmt idx, agg rvalue) that create this closure."""
        out = []
        pid = closure_body.parent
        cands = [self.prog.bodies.get(pid)] if pid in self.prog.bodies else []
        if not cands:
            cands = [b for b in self.prog.family(closure_body) if b.id != closure_body.id]
        for pb in cands:
            if pb is None:
                continue
            for i, blk in enumerate(pb.blocks):
                for k, s in enumerate(blk['s']):
                    rv = s.get('rv')
                    if rv and rv['k'] == 'agg' and rv.get('def') == closure_body.id:
                        out.append((pb, i, k, s))
        return out

    def _class_of_capture(self, body, f, lock_ty, depth):
        idx = int(f[1:].split(':', 1)[0])
        for (pb, i, k, s) in self._parents_creating(body):
            ops = s['rv']['ops']
            if idx < len(ops):
                e = self.origin(pb).of_operand(ops[idx])
                c = self._class_of_expr(pb, e, lock_ty, depth + 1)
                if isinstance(c, str):
                    return c
        return None

    def _class_of_closure_param(self, body, n, lock_ty, depth):
        """Closure parameter: find the call in the parent that receives this closure and use its receiver."""
        for (pb, i, k, s) in self._parents_creating(body):
            cl_local = s['pl']['l']
            for c in pb.calls:
                if body.id in c.gc and c.args:
                    # Option::map(recv, closure) / Result::map / and_then ...
                    e = self.origin(pb).of_operand(c.args[0])
                    cls = self._class_of_expr(pb, e, lock_ty, depth + 1)
                    if isinstance(cls, str):
                        return cls
        return None

    # ------------------------------------------------------------ per-body scan
    def _lock_ty(self, call):
        prim = call.callee.split('::')
        kind = prim[-2]
        inner = call.ga[-1] if call.ga else '?'
        inner = inner.split('::')[-1] if '<' not in inner else re.sub(r'[\w]+::', '', inner)
        if kind == 'Semaphore':
            return 'Semaphore'
        return '%s<%s>' % (kind, inner)

    def _class_by_type(self, call):
        """Fallback: the lock's protected type names exactly one (canonical) lock field."""
        if not call.ga:
            return None
        inner = call.ga[-1]
        kind = call.callee.split('::')[-2]
        cands = set()
        for name, ty in self.lock_fields.items():
            if re.search(r'%s<(?:parking_lot::[\w:]+, )?%s>' % (kind, re.escape(inner)), ty):
                cands.add(self.canon(name))
        if len(cands) == 1:
            return cands.pop()
        return None

    def _scan_acquisitions(self):
        for b in self.prog.bodies.values():
            acqs = {}
            for c in b.calls:
                if not c.callee:
                    continue
                m = ACQ_RE.match(c.callee)
                if not m:
                    continue
                meth = m.group(2)
                mode = MODE.get(meth, 'W')
                blocking = not meth.startswith('try_')
                asynch = m.group(1).startswith('tokio::')
                lock_ty = self._lock_ty(c)
                cls = None
                if c.args:
                    e = self.origin(b).of_operand(c.args[0])
                    cls = self._class_of_expr(b, e, lock_ty)
                if not isinstance(cls, str):
                    tcls = self._class_by_type(c)
                    if tcls is not None:
                        cls = tcls
                if cls is None:
                    self.unknown.append((c, render(self.origin(b).of_operand(c.args[0])) if c.args else '?'))
                    cls = '%s@%s' % (lock_ty, b.short)
                acqs[c.bb] = Acq(c, cls, mode, blocking, meth, asynch)
                self.n_acq += 1
            if acqs:
                self.body_acqs[b.id] = acqs

    # ------------------------------------------------------------ call graph (synchronous may-call)
    def _scan_calls(self):
        from .callgraph import sync_calls
        self.sync_calls = sync_calls(self.prog)

    # ------------------------------------------------------------ guard dataflow
    def _is_guard_local(self, body, l):
        return bool(GUARD_TY.search(body.locals[l]))

    def _transfer(self, body, bb, state, record=None):
        """state: dict local -> (cls, mode, acq_loc, asynch).  Returns out-state for the normal successor(s).
        record(point_kind, bb, held_before, info) is called at calls / yields."""
        st = dict(state)
        blk = body.blocks[bb]
        for s in blk['s']:
            if 'dead' in s:
                st.pop(s['dead'], None)
                continue
            rv = s.get('rv')
            if not rv:
                continue
            dst = s['pl']
            moved = []
            ops = []
            if rv['k'] in ('use', 'cast'):
                ops = [rv['a']]
            elif rv['k'] == 'agg':
                ops = rv['ops']
            for o in ops:
                if o.get('k') == 'mv' and o['pl']['l'] in st:
                    moved.append(o['pl']['l'])
            if moved:
                info = st[moved[0]]
                for m in moved:
                    st.pop(m, None)
                if self._is_guard_local(body, dst['l']) or info[3]:
                    st[dst['l']] = info
                elif dst['l'] == 0:
                    st[0] = info
                else:
                    self.escapes.append((body, bb, info[0], 'moved into non-guard local _%d: %s' % (dst['l'], body.locals[dst['l']][:80])))
        t = blk['t']
        k = t['k']
        if k == 'drop':
            pl = t['pl']
            if not pl.get('p'):
                st.pop(pl['l'], None)
        elif k == 'call':
            c = body.call_at(bb)
            if record:
                record('call', bb, st, c)
            moved = [a['pl']['l'] for a in c.args if a.get('k') == 'mv' and not a['pl'].get('p') and a['pl']['l'] in st]
            inherit = None
            for m in moved:
                inherit = st.pop(m)
            dst = c.dest
            dl = dst['l'] if dst is not None else None
            acq = self.body_acqs.get(body.id, {}).get(bb)
            if acq is not None and dl is not None:
                cls = acq.cls if isinstance(acq.cls, str) else 'param%d@%s' % (acq.cls[1], body.short)
                st[dl] = (cls, acq.mode, c.loc, acq.asynch)
            elif dl is not None and (self._is_guard_local(body, dl) or dl == 0 and GUARD_TY.search(body.locals[0])):
                if inherit is not None:
                    # upgrade / unwrap / map over a guard: same class; upgrade makes it exclusive
                    cls, mode, loc, asy = inherit
                    if c.is_('RwLockUpgradableReadGuard::upgrade'):
                        mode = 'W'
                    st[dl] = (cls, mode, loc, asy)
                else:
                    rg = None
                    if c.is_('core::future::future::Future::poll'):
                        for l2, v2 in st.items():
                            if v2[3] and not self._is_guard_local(body, l2):
                                rg = (v2[0], v2[1], True)
                    for cb in self.sync_calls.get(body.id, {}).get(bb, []):
                        if cb.id in self.ret_guard:
                            rg = self.ret_guard[cb.id]
                    if rg is not None:
                        st[dl] = (rg[0], rg[1], c.loc, rg[2])
                    elif c.callee and not c.is_('core::mem::drop'):
                        # a guard-typed value from an unknown producer
                        if (body.id, bb) not in self._unknown_guard_src:
                            self._unknown_guard_src[(body.id, bb)] = c
            elif inherit is not None and not c.is_('core::mem::drop', 'core::mem::forget'):
                if dl is not None and inherit[3]:
                    # pending future of an async lock acquisition moved through into_future / Pin::new
                    st[dl] = inherit
        elif k == 'yield':
            if record:
                record('yield', bb, st, t)
        return st

    def _run_dataflow(self, body, must):
        nb = len(body.blocks)
        IN = {0: {}}
        work = [0]
        order = 0
        while work:
            bb = work.pop()
            out = self._transfer(body, bb, IN[bb])
            for s in body.succ(bb):
                if s not in IN:
                    IN[s] = dict(out)
                    work.append(s)
                else:
                    cur = IN[s]
                    if must:
                        new = {l: v for l, v in cur.items() if l in out and out[l][0] == v[0]}
                    else:
                        new = dict(cur)
                        for l, v in out.items():
                            if l not in new:
                                new[l] = v
                    if new.keys() != cur.keys():
                        IN[s] = new
                        work.append(s)
            order += 1
            if order > 200000:
                raise RuntimeError('lock dataflow did not converge in ' + body.id)
        return IN

    def _compute_ret_guards(self):
        """Closures / functions whose return place holds a guard on every return."""
        changed = True
        rounds = 0
        while changed and rounds < 4:
            changed = False
            rounds += 1
            for b in self.prog.bodies.values():
                if not GUARD_TY.search(b.locals[0]):
                    continue
                if b.id in self.ret_guard:
                    continue
                if b.id not in self.body_acqs and b.id not in self.sync_calls:
                    continue
                IN = self._run_dataflow(b, must=False)
                got = None
                for r in b.return_blocks():
                    if r in IN and 0 in IN[r]:
                        got = IN[r][0]
                if got is not None:
                    self.ret_guard[b.id] = (got[0], got[1], got[3])
                    changed = True

    # ------------------------------------------------------------ summaries
    def _compute_summaries(self):
        prog = self.prog
        summ = {}
        for b in prog.bodies.values():
            s = {}
            for bb, a in self.body_acqs.get(b.id, {}).items():
                if a.blocking:
                    cls = a.cls if isinstance(a.cls, str) else 'param%d@%s' % (a.cls[1], b.short)
                    s.setdefault(cls, (a.call.loc, None, a.mode))
            summ[b.id] = s
        changed = True
        while changed:
            changed = False
            for bid, per_bb in self.sync_calls.items():
                s = summ[bid]
                b = prog.bodies[bid]
                for bb, callees in per_bb.items():
                    for cb in callees:
                        for cls, w in summ.get(cb.id, {}).items():
                            if cls not in s:
                                s[cls] = (b.loc_of(bb), cb.id, w[2])
                                changed = True
        self.summary = summ

    def chain(self, body_id, cls, limit=12):
        """Witness call chain from body to the acquisition of cls."""
        out = []
        cur = body_id
        for _ in range(limit):
            w = self.summary.get(cur, {}).get(cls)
            if w is None:
                break
            loc, via, mode = w
            b = self.prog.bodies[cur]
            if via is None:
                out.append('%s acquires %s(%s) at %s' % (b.short, cls, mode, loc))
                break
            out.append('%s calls %s at %s' % (b.short, self.prog.bodies[via].short, loc))
            cur = via
        return out

    # ------------------------------------------------------------ edges
    def _compute_edges(self):
        prog = self.prog
        for b in prog.bodies.values():
            if b.id not in self.body_acqs and not any(
                    cb.id in self.ret_guard for cbs in self.sync_calls.get(b.id, {}).values() for cb in cbs):
                continue
            IN = self._run_dataflow(b, must=False)
            self.states.setdefault(b.id, {})['may'] = IN
            per_bb = self.sync_calls.get(b.id, {})

            def record(kind, bb, st, payload, b=b, per_bb=per_bb):
                if not st:
                    return
                held = {}
                for l, (cls, mode, loc, asy) in st.items():
                    held.setdefault(cls, (mode, loc, asy, l))
                if kind == 'yield':
                    for cls, (mode, loc, asy, l) in held.items():
                        if not asy:
                            self.yield_viol.append((b, bb, cls, mode, loc))
                    return
                c = payload
                moved_in = set(a['pl']['l'] for a in c.args if a.get('k') == 'mv' and not a['pl'].get('p'))
                acq = self.body_acqs.get(b.id, {}).get(bb)
                if acq is not None and acq.blocking:
                    a_cls = acq.cls if isinstance(acq.cls, str) else 'param%d@%s' % (acq.cls[1], b.short)
                    for cls, (mode, loc, asy, l) in held.items():
                        self._add_edge(cls, a_cls, mode, acq.mode, b, loc, c.loc, None)
                if c.callee and c.is_(*BLOCKING_HANDOFF):
                    for cls, (mode, loc, asy, l) in held.items():
                        self.handoff.append((b, bb, cls, mode, loc, c.callee))
                if c.callee and c.is_('RwLockUpgradableReadGuard::upgrade', 're:RwLockUpgradableReadGuard<.*>::upgrade$'):
                    # upgrading waits until every plain reader of the SAME lock has left: a blocking exclusive acquisition of that class while everything
                    # else stays held (a reader of it that waits for one of those other locks closes a cycle, although the nominal order is unchanged)
                    up = [st[l][0] for l in moved_in if l in st]
                    for u_cls in up:
                        for cls, (mode, loc, asy, l) in held.items():
                            if cls != u_cls and l not in moved_in:
                                self._add_edge(cls, u_cls, mode, 'W', b, loc, c.loc, None)
                                self.upgrade_edges.append((b.short, cls, u_cls, c.loc))
                for cb in per_bb.get(bb, []):
                    for a_cls, w in self.summary.get(cb.id, {}).items():
                        for cls, (mode, loc, asy, l) in held.items():
                            if l in moved_in and cls == a_cls:
                                continue
                            self._add_edge(cls, a_cls, mode, w[2], b, loc, c.loc, cb.id)

            for bb in sorted(IN):
                self._transfer(b, bb, IN[bb], record)

    def _add_edge(self, h, a, hmode, amode, body, hloc, aloc, via):
        key = (h, a)
        w = {'holder': body.short, 'held': h, 'held_mode': hmode, 'held_at': hloc, 'acquires': a,
             'acq_mode': amode, 'at': aloc, 'via': via, 'body_id': body.id}
        self.edge_all[key].append(w)
        if key not in self.edges:
            self.edges[key] = w

    def edge_chain(self, w):
        lines = ['%s holds %s(%s) since %s' % (w['holder'], w['held'], w['held_mode'], w['held_at'])]
        if w['via'] is None:
            lines.append('  and acquires %s(%s) at %s' % (w['acquires'], w['acq_mode'], w['at']))
        else:
            lines.append('  and at %s calls %s' % (w['at'], self.prog.bodies[w['via']].short))
            for l in self.chain(w['via'], w['acquires']):
                lines.append('    ' + l)
        return lines

    # ------------------------------------------------------------ build all
    def _build(self):
        self._unknown_guard_src = {}
        self._scan_acquisitions()
        self._scan_calls()
        self._compute_ret_guards()
        self._compute_summaries()
        self._compute_edges()

    # ------------------------------------------------------------ queries
    def classes(self):
        cs = set()
        for acqs in self.body_acqs.values():
            for a in acqs.values():
                cs.add(a.cls if isinstance(a.cls, str) else 'param')
        return cs

    def cycles(self):
        """Elementary cycles (as canonical class tuples), self-loops included."""
        adj = defaultdict(set)
        for (h, a) in self.edges:
            adj[h].add(a)
        out = set()
        for (h, a) in self.edges:
            if h == a:
                out.add((h,))
        # SCCs via Tarjan
        index = {}
        low = {}
        stack = []
        onst = set()
        sccs = []
        counter = [0]

        def strong(v):
            work = [(v, iter(sorted(adj[v])))]
            index[v] = low[v] = counter[0]
            counter[0] += 1
            stack.append(v)
            onst.add(v)
            while work:
                node, it = work[-1]
                adv = False
                for w in it:
                    if w not in index:
                        index[w] = low[w] = counter[0]
                        counter[0] += 1
                        stack.append(w)
                        onst.add(w)
                        work.append((w, iter(sorted(adj[w]))))
                        adv = True
                        break
                    elif w in onst:
                        low[node] = min(low[node], index[w])
                if adv:
                    continue
                work.pop()
                if work:
                    low[work[-1][0]] = min(low[work[-1][0]], low[node])
                if low[node] == index[node]:
                    comp = []
                    while True:
                        w = stack.pop()
                        onst.discard(w)
                        comp.append(w)
                        if w == node:
                            break
                    sccs.append(comp)

        nodes = set(adj)
        for vs in adj.values():
            nodes |= vs
        for v in sorted(nodes):
            if v not in index:
                strong(v)
        for comp in sccs:
            if len(comp) < 2:
                continue
            cs = set(comp)
            # shortest cycle through every edge inside the component
            for u in comp:
                for v in adj[u]:
                    if v not in cs or v == u:
                        continue
                    p = self._shortest(adj, v, u, cs)
                    if p is not None:
                        cyc = [u] + p[:-1]
                        i = cyc.index(min(cyc))
                        out.add(tuple(cyc[i:] + cyc[:i]))
        return sorted(out)

    @staticmethod
    def _shortest(adj, src, dst, allowed):
        from collections import deque
        prev = {src: None}
        dq = deque([src])
        while dq:
            x = dq.popleft()
            if x == dst:
                p = []
                while x is not None:
                    p.append(x)
                    x = prev[x]
                return list(reversed(p))
            for y in sorted(adj[x]):
                if y in allowed and y not in prev:
                    prev[y] = x
                    dq.append(y)
        return None

    def writers_need_exclusive_owner(self, cls):
        """True if every exclusive acquisition of `cls` happens in a method taking `&mut self` on the struct
        that owns the lock field, and the field's Arc never leaves the struct (it is only ever dereferenced
        for an acquisition).  Then no writer can queue while any `&self` method holds a read guard, so a
        read-after-read re-acquisition of `cls` cannot block (Rust's aliasing rule does the exclusion)."""
        if cls not in self.lock_fields and cls not in self.alias.values():
            return False, 'not a plain field class'
        n_w = 0
        for bid, acqs in self.body_acqs.items():
            b = self.prog.bodies[bid]
            for a in acqs.values():
                if a.cls != cls or a.mode == 'R':
                    continue
                n_w += 1
                e = self.origin(b).of_operand(a.call.args[0])
                root = e
                while root[0] in ('field', 'downcast', 'index', 'cast'):
                    root = root[1]
                if not (root[0] == 'arg' and root[1] == 1 and b.locals[1].startswith('&mut ')):
                    return False, 'exclusive acquisition in %s is not through &mut self' % b.short
        # the field must not be cloned / passed anywhere else
        fld = cls
        for b in self.prog.bodies.values():
            for i, blk in enumerate(b.blocks):
                for s_ in blk['s']:
                    rv = s_.get('rv')
                    if not rv or rv['k'] != 'ref':
                        continue
                    pr = rv['pl'].get('p') or []
                    if not pr or not isinstance(pr[-1], str) or not pr[-1].endswith('::' + fld):
                        continue
                    t = s_['pl']['l']
                    c = b.call_at(i)
                    if c is None or not any(a.get('k') in ('mv', 'cp') and a['pl']['l'] == t for a in c.args):
                        return False, 'field reference escapes in %s' % b.short
                    if not c.is_('core::ops::deref::Deref::deref', 're:Deref>::deref$'):
                        return False, 'field passed to %s in %s' % (c.callee, b.short)
        return True, '%d exclusive acquisitions, all through &mut self; field only dereferenced' % n_w

    def held_at(self, body, bb, must=True):
        """Held classes {cls: mode} on entry to the terminator of bb (i.e. at the call in bb)."""
        kind = 'must' if must else 'may'
        st = self.states.setdefault(body.id, {})
        if kind not in st:
            st[kind] = self._run_dataflow(body, must=must)
        IN = st[kind]
        if bb not in IN:
            return {}
        res = {}

        def rec(k, b_, s, payload):
            if b_ == bb:
                for l, (cls, mode, loc, asy) in s.items():
                    cond = body.locals[l].startswith('core::option::Option<')
                    res[cls] = (mode, cond, loc)
        blk = body.blocks[bb]
        if blk['t']['k'] in ('call', 'yield'):
            self._transfer(body, bb, IN[bb], rec)
        else:
            s = dict(IN[bb])
            for l, (cls, mode, loc, asy) in s.items():
                res[cls] = (mode, body.locals[l].startswith('core::option::Option<'), loc)
        return res
