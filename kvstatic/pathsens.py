"""Path-sensitive exploration of a (jump-threaded) CFG over a finite set of named boolean atoms.

Used for loop-free decision procedures (KyroDbConfig::validate) and local guard checks: every switch edge
whose predicate text matches a named atom records atom=value on the path; contradictory edges are pruned;
other switches are explored on both edges.  States are memoised on (block, assignment)."""
import re
from .flow import ThreadedView, switch_edge_predicates, err_blocks, Origin


class Atom:
    def __init__(self, name, pattern, flags=0):
        self.name = name
        self.rx = re.compile(pattern, flags)

    def match(self, pred):
        """returns True/False (value the edge establishes for this atom) or None."""
        neg = pred.startswith('!')
        core = pred[1:] if neg else pred
        if self.rx.search(core):
            return not neg
        return None


class VariantAtom(Atom):
    """atom 'place is variant V' from discriminant switches: 'variant(P) = V' / 'variant(P) ∉ {..}'"""

    def __init__(self, name, place_rx, variant):
        self.name = name
        self.place_rx = re.compile(place_rx)
        self.variant = variant

    def match(self, pred):
        m = re.match(r'^variant\((.*)\) = (\w+)$', pred)
        if m and self.place_rx.search(m.group(1)):
            return m.group(2) == self.variant
        m = re.match(r'^variant\((.*)\) ∉ \{(.*)\}$', pred)
        if m and self.place_rx.search(m.group(1)):
            listed = m.group(2).split(',')
            if self.variant in listed:
                return False
            return None  # could still be the variant (not listed): unknown
        return None


def _flag_consts_followed(body, bb, tracked):
    """The bool switch at `bb` tests a user flag whose constant values this explorer follows path by path (a tracked local, every constant alternative of its
    origin being a direct `flag = const` assignment): on a path where no constant is known the flag holds its computed value, so `phi(const | X)` may be read as X."""
    t = body.blocks[bb]['t']
    if t.get('onty') != 'bool' or t['on'].get('k') not in ('cp', 'mv') or t['on']['pl'].get('p'):
        return False
    l = t['on']['pl']['l']
    for st in body.blocks[bb]['s']:     # `_t = copy flag; switchInt(move _t)`
        rv = st.get('rv')
        if rv and not st['pl'].get('p') and st['pl']['l'] == l and rv['k'] == 'use' and rv['a'].get('k') in ('cp', 'mv') and not rv['a']['pl'].get('p'):
            l = rv['a']['pl']['l']
    if l not in tracked:
        return False
    e = Origin(body).of_local(l)
    if e[0] != 'phi':
        return False
    n_const_alts = sum(1 for a in e[1] if a[0] == 'const' and a[2] in (0, 1))
    direct = set()
    for blk in body.blocks:
        for st in blk['s']:
            rv = st.get('rv')
            if rv and not st['pl'].get('p') and st['pl']['l'] == l and rv['k'] == 'use' and rv['a'].get('k') == 'c' and rv['a'].get('ty') == 'bool':
                direct.add(rv['a'].get('int'))
    return n_const_alts > 0 and n_const_alts == len(direct)


def explore(body, atoms, start=0, start_assign=None, max_states=200000, mark_edges=None, mark_blocks=None, stop_blocks=None):
    """Returns (terminals, seen_atoms): terminals = list of (return_bb, passed_err_block, assignment dict, path);
    seen_atoms = {atom name: set(switch blocks where it was recognised)}.
    mark_edges / mark_blocks: {name: set(edges) / set(blocks)} — crossing one sets name=True in the assignment."""
    view = ThreadedView(body)
    origin = Origin(body)
    errs = err_blocks(body)
    preds_cache = {}
    seen_atoms = {}
    terminals = []
    visited = set()
    init = tuple(sorted((start_assign or {}).items()))
    # booleans worth tracking: user variables that some switch tests (directly or through one copy)
    tracked = set()
    for blk0 in body.blocks:
        t0 = blk0['t']
        if t0['k'] == 'switch' and t0.get('onty') == 'bool' and t0['on'].get('k') in ('cp', 'mv') and not t0['on']['pl'].get('p'):
            l0 = t0['on']['pl']['l']
            if body.varnames.get(l0):
                tracked.add(l0)
            for st0 in blk0['s']:
                rv0 = st0.get('rv')
                if rv0 and not st0['pl'].get('p') and st0['pl']['l'] == l0 and rv0['k'] == 'use' and rv0['a'].get('k') in ('cp', 'mv') and not rv0['a']['pl'].get('p'):
                    if body.varnames.get(rv0['a']['pl']['l']):
                        tracked.add(rv0['a']['pl']['l'])
                        tracked.add(l0)
    stack = [(start, init, False, (start,))]
    n = 0
    while stack:
        bb, assign, via_err, path = stack.pop()
        key = (bb, assign, via_err)
        if key in visited:
            continue
        visited.add(key)
        n += 1
        if n > max_states:
            raise RuntimeError('path exploration exceeded %d states in %s' % (max_states, body.id))
        if bb in errs:
            via_err = True
        # constant propagation of booleans assigned on this path (materialised `a || b`, flags such as `found = false`)
        blk_ = body.blocks[bb]
        for st_ in blk_['s']:
            if 'dead' in st_:
                kd_ = '#%d' % st_['dead']
                if kd_ in dict(assign):
                    d_ = dict(assign)
                    del d_[kd_]
                    assign = tuple(sorted(d_.items()))
                continue
            rv_ = st_.get('rv')
            if rv_ is None or st_['pl'].get('p'):
                continue
            if st_['pl']['l'] not in tracked:
                continue
            l_ = st_['pl']['l']
            key_ = '#%d' % l_
            d_ = dict(assign)
            if rv_['k'] == 'use' and rv_['a'].get('k') == 'c' and rv_['a'].get('ty') == 'bool' and rv_['a'].get('int') in (0, 1):
                d_[key_] = bool(rv_['a']['int'])
                assign = tuple(sorted(d_.items()))
            elif rv_['k'] == 'use' and rv_['a'].get('k') in ('cp', 'mv') and not rv_['a']['pl'].get('p') and ('#%d' % rv_['a']['pl']['l']) in d_:
                d_[key_] = d_['#%d' % rv_['a']['pl']['l']]
                assign = tuple(sorted(d_.items()))
            elif key_ in d_:
                del d_[key_]
                assign = tuple(sorted(d_.items()))
        t_ = blk_['t']
        if t_['k'] == 'call' and t_.get('dest') and not t_['dest'].get('p'):
            key_ = '#%d' % t_['dest']['l']
            if key_ in dict(assign):
                d_ = dict(assign)
                del d_[key_]
                assign = tuple(sorted(d_.items()))
        if mark_blocks:
            for mname, blks in mark_blocks.items():
                if bb in blks and dict(assign).get(mname) is not True:
                    d_ = dict(assign)
                    d_[mname] = True
                    assign = tuple(sorted(d_.items()))
        t = body.blocks[bb]['t']
        if t['k'] == 'return' or (stop_blocks and bb in stop_blocks):
            terminals.append((bb, via_err, dict(assign), path))
            continue
        succs = view.succ(bb)
        if t['k'] == 'switch' and bb not in view.red:
            if bb not in preds_cache:
                preds_cache[bb] = switch_edge_predicates(body, bb, origin, drop_const_phi=_flag_consts_followed(body, bb, tracked))
            ad = dict(assign)
            # a switch on a local whose boolean value is known on this path takes one edge only
            on_ = t['on']
            if t.get('onty') == 'bool' and on_.get('k') in ('cp', 'mv') and not on_['pl'].get('p') and ('#%d' % on_['pl']['l']) in ad:
                val_ = ad['#%d' % on_['pl']['l']]
                tgt_ = None
                for v_, tg_ in t['tg']:
                    if bool(v_) == val_:
                        tgt_ = tg_
                if tgt_ is None:
                    tgt_ = t['else']
                # still record named atoms for the taken edge
                for tg2, pred in preds_cache[bb]:
                    if tg2 == tgt_:
                        for a in atoms:
                            v = a.match(pred)
                            if v is not None:
                                seen_atoms.setdefault(a.name, set()).add(bb)
                                if a.name in ad and ad[a.name] != v:
                                    tgt_ = None
                                    break
                                ad[a.name] = v
                if tgt_ is not None:
                    stack.append((tgt_, _mark(ad, mark_edges, bb, tgt_), via_err, path + (tgt_,)))
                continue
            for tg, pred in preds_cache[bb]:
                new = dict(ad)
                ok = True
                for a in atoms:
                    v = a.match(pred)
                    if v is None:
                        continue
                    seen_atoms.setdefault(a.name, set()).add(bb)
                    if a.name in new and new[a.name] != v:
                        ok = False
                        break
                    new[a.name] = v
                if ok:
                    stack.append((tg, _mark(new, mark_edges, bb, tg), via_err, path + (tg,)))
            continue
        for s in succs:
            stack.append((s, _mark(dict(assign), mark_edges, bb, s), via_err, path + (s,)))
    return terminals, seen_atoms


def _mark(assign, mark_edges, a, b):
    if mark_edges:
        for mname, edges in mark_edges.items():
            if (a, b) in edges:
                assign[mname] = True
    return tuple(sorted(assign.items()))
