"""Rule runtime: instances, fail-closed anchors, floors, known findings, evidence, replay files."""
import json
import os
import time

VERIF = os.path.dirname(os.path.dirname(os.path.abspath(__file__)))
EVIDENCE_DIR = os.environ.get('KV_EVIDENCE_DIR') or os.path.join(VERIF, 'evidence')
REPLAY_DIR = os.path.join(EVIDENCE_DIR, 'replay')
KNOWN = os.path.join(VERIF, 'known_findings.json')


class AnchorMissing(Exception):
    pass


class Ctx:
    def __init__(self, prop, tier, seed=0):
        self.prop = prop
        self.tier = tier
        self.seed = seed
        self.t0 = time.time()
        self.instances = []      # dicts: rule, key, ok, detail, witness, nontrivial, config
        self.rules = {}          # rule id -> text
        self.floors = []         # dicts
        self.exceptions = []     # dicts: rule, symbol, reason
        self.not_decided = []
        self.assumptions = []
        self.configs = []
        self.config = 'dev'
        self.stats = {}
        self.extra = {}
        self.prog = None

    # ---- declaration helpers
    def rule(self, rid, text):
        self.rules[rid] = text

    def exception(self, rid, symbol, reason):
        e = {'rule': rid, 'symbol': symbol, 'reason': reason}
        if e not in self.exceptions:
            self.exceptions.append(e)

    def stat(self, name, value):
        self.stats[name] = value

    def bump(self, name, by=1):
        self.stats[name] = self.stats.get(name, 0) + by

    # ---- recording
    def inst(self, rid, func, descr, ok, detail='', witness=None, nontrivial=True):
        """One evaluated rule instance. key = 'rule | function | descriptor' (no line numbers)."""
        key = '%s | %s | %s' % (rid, func, descr)
        self.instances.append({'rule': rid, 'key': key, 'ok': bool(ok), 'detail': detail,
                               'witness': witness, 'nontrivial': bool(nontrivial), 'config': self.config})
        return bool(ok)

    def missing(self, rid, what):
        """Fail closed: an anchor the rule needs does not exist any more."""
        return self.inst(rid, 'anchor', what, False, 'anchor missing: %s' % what, nontrivial=False)

    def floor(self, rid, what, count, floor, reason=''):
        self.floors.append({'rule': rid, 'what': what, 'count': count, 'floor': floor, 'reason': reason,
                            'config': self.config})
        if count < floor:
            self.inst(rid, 'floor', what, False,
                      'count below floor: %s = %d < %d (a rule matching fewer sites than confirmed by hand '
                      'would pass vacuously)' % (what, count, floor), nontrivial=False)
            return False
        return True

    # ---- anchors
    def body(self, rid, ident):
        try:
            b = self.prog.body(ident)
        except KeyError as e:
            self.inst(rid, 'anchor', ident, False, 'anchor ambiguous: %s' % e, nontrivial=False)
            raise AnchorMissing(ident)
        if b is None:
            self.missing(rid, 'function ' + ident)
            raise AnchorMissing(ident)
        return b

    # ---- finish
    def finish(self, explanation):
        known = {'findings': [], 'fixed': []}
        if os.path.isfile(KNOWN):
            with open(KNOWN) as fh:
                known = json.load(fh)
        known_keys = {}
        for f in known.get('findings', []):
            if f.get('property') == self.prop:
                known_keys[f['key']] = f
        bad = [i for i in self.instances if not i['ok']]
        # de-duplicate by key (several configs can report the same key)
        seen = {}
        for i in bad:
            seen.setdefault(i['key'], i)
        unlisted = []
        lines = []
        for key, i in seen.items():
            if key in known_keys:
                lines.append('KNOWN-FINDING: property=%s %s — %s' % (self.prop, key, known_keys[key].get('what', '')))
            else:
                unlisted.append(i)
        os.makedirs(REPLAY_DIR, exist_ok=True)
        # remove old replay files of this property
        for f in os.listdir(REPLAY_DIR):
            if f.startswith(self.prop + '-'):
                try:
                    os.remove(os.path.join(REPLAY_DIR, f))
                except OSError:
                    pass
        for n, i in enumerate(unlisted):
            path = os.path.join(REPLAY_DIR, '%s-%d.json' % (self.prop, n))
            with open(path, 'w') as fh:
                json.dump({'property': self.prop, 'key': i['key'], 'rule': i['rule'],
                           'rule_text': self.rules.get(i['rule'], ''), 'detail': i['detail'],
                           'witness': i['witness'], 'config': i['config']}, fh, indent=1, default=str)
            lines.append('VIOLATION property=%s replay=%s' % (self.prop, path))
            lines.append('  key: %s' % i['key'])
            lines.append('  %s' % (i['detail'] or '').replace('\n', '\n  '))
        # listed findings that no longer fire are fine (a repaired tree) — say so
        fired = set(seen)
        for key in known_keys:
            if key not in fired:
                lines.append('note: listed finding no longer reported on this tree: %s' % key)

        evaluations = len(self.instances)
        distinct_keys = set(i['key'] for i in self.instances if i['nontrivial'])
        by_rule = {}
        for i in self.instances:
            r = by_rule.setdefault(i['rule'], {'instances': 0, 'failed': 0})
            r['instances'] += 1
            if not i['ok']:
                r['failed'] += 1
        samples = []
        per_rule_seen = {}
        for i in self.instances:
            c = per_rule_seen.get(i['rule'], 0)
            if c < 3 or not i['ok']:
                per_rule_seen[i['rule']] = c + 1
                samples.append({'key': i['key'], 'verdict': 'holds' if i['ok'] else 'VIOLATED',
                                'detail': (i['detail'] or '')[:600], 'config': i['config']})
        cov = {
            'explanation': explanation,
            'evaluations': evaluations,
            'distinct_nontrivial': len(distinct_keys),
            'rule': 'one evaluation = one rule instance (rule × anchor function × site/edge/table cell) decided on the '
                    'MIR facts of /repo\'s current tree; it is counted non-trivial when deciding it needed at least one '
                    'CFG path / dominance / def-use / lock-state query (anchor-presence and floor checks are trivial); '
                    'distinct = distinct violation-key strings',
            'samples': samples[:60],
            'rules': self.rules,
            'per_rule': by_rule,
            'floors': self.floors,
            'exceptions': self.exceptions,
            'configs': self.configs,
            'not_decided': self.not_decided,
            'known_findings_reported': [k for k in seen if k in known_keys],
            'exhaustive': False,
        }
        cov.update(self.stats)
        cov.update(self.extra)
        ev = {
            'property_id': self.prop,
            'tier': self.tier,
            'seed': self.seed,
            'level': 'other',
            'coverage': cov,
            'assumptions': self.assumptions,
            'wall_s': round(time.time() - self.t0, 2),
            'violations': len(unlisted),
        }
        os.makedirs(EVIDENCE_DIR, exist_ok=True)
        tmp = os.path.join(EVIDENCE_DIR, '.%s.json.tmp%d' % (self.prop, os.getpid()))
        with open(tmp, 'w') as fh:
            json.dump(ev, fh, indent=1, default=str)
        os.replace(tmp, os.path.join(EVIDENCE_DIR, '%s.json' % self.prop))
        return lines, len(unlisted)


def path_witness(body, blocks):
    """Readable block path with file:line for replay files."""
    out = []
    last = None
    for b in blocks:
        loc = body.loc_of(b)
        c = body.call_at(b)
        d = 'bb%d %s' % (b, loc)
        if c is not None and c.callee:
            from .flow import short
            d += ' call ' + short(c.callee)
        if loc != last or c is not None:
            out.append(d)
        last = loc
    return out


def find_path(view, starts, goal_blocks, avoid_blocks=(), avoid_edges=()):
    """BFS path (list of blocks) from any start to any goal in `view` (Body or ThreadedView)."""
    from collections import deque
    avoid_blocks = set(avoid_blocks)
    avoid_edges = set(avoid_edges)
    goal = set(goal_blocks)
    prev = {}
    dq = deque()
    for s in starts:
        prev[s] = None
        dq.append(s)
    while dq:
        a = dq.popleft()
        if a in goal and (prev[a] is not None or a in starts):
            if a in goal:
                p = []
                x = a
                while x is not None:
                    p.append(x)
                    x = prev[x]
                return list(reversed(p))
        for s in view.succ(a):
            if s in prev or s in avoid_blocks or (a, s) in avoid_edges:
                continue
            prev[s] = a
            dq.append(s)
    return None
