"""Unit ("scale") analysis of distance expressions: an abstract evaluation of origin trees over the domain
L2SQ (squared Euclidean), L2 (Euclidean), SIM (dot / cosine similarity), DIST1 (1 - similarity), NORM, NORMSQ, CONST, INF, '?',
with local callees inlined and every `match` on an enum of interest specialised to one variant.

It decides agreement between sibling implementations of "the distance the user sees" (index, recent-write scan, query-cache
invalidation) per metric variant; it does not decide numeric values."""
import re

from . import flow

LEAVES = {
    'simd::l2_distance_sq_f32': 'L2SQ', 'simd::dot_f32': 'SIM', 'simd::cosine_similarity_f32': 'SIM',
    'simd::l2_norm_f32': 'NORM', 'simd::sum_squares_f32': 'NORMSQ',
}
KERNEL_FIELDS = {'ResolvedF32Kernels.l2_distance_sq': 'L2SQ', 'ResolvedF32Kernels.dot': 'SIM', 'ResolvedF32Kernels.sum_squares': 'NORMSQ'}
PASS_THROUGH = ('f32::max', 'f32::min', 'f32::clamp', 'f32::abs', '<impl f32>::max', '<impl f32>::min', '<impl f32>::clamp', '<impl f32>::abs')


def specialised_blocks(body, adt_suffix, variant, origin=None):
    """blocks reachable from entry when every switch on an enum whose type ends with adt_suffix takes only `variant`'s edge."""
    o = origin or flow.Origin(body)
    bad = []
    n = 0
    for i, blk in enumerate(body.blocks):
        t = blk['t']
        if t['k'] != 'switch' or t.get('onty') == 'bool':
            continue
        e = o.of_operand(t['on'])
        if e[0] != 'discr' or not (e[2] or '').split('<')[0].endswith(adt_suffix):
            continue
        n += 1
        for tg, p in flow.switch_edge_predicates(body, i, o):
            m = re.search(r' = (\w+)$', p)
            if m and m.group(1) != variant:
                bad.append((i, tg))
            elif '∉' in p:
                bad.append((i, tg))
        # several variants may share one target: keep the edge if any listed value of it is `variant`
        keep = set(tg for tg, p in flow.switch_edge_predicates(body, i, o) if re.search(r' = %s$' % re.escape(variant), p))
        bad = [(a, b_) for (a, b_) in bad if not (a == i and b_ in keep)]
    return body.reach([0], avoid_edges=bad) | {0}, n


class Scale:
    def __init__(self, prog, enums=('DistanceMetric',), max_inline=5):
        self.prog = prog
        self.enums = enums
        self.max_inline = max_inline
        self.trace = []

    def ret_kind(self, body, variant, env=None, depth=0, enum=None):
        """kind of the return value of `body` with the enum of interest fixed to `variant` and parameter kinds `env`."""
        live, n = specialised_blocks(body, enum or self.enums[0], variant)
        o = flow.Origin(body, live=live)
        return self.kind(o.of_local(0), body, variant, env or {}, depth, enum)

    def kind(self, e, body, variant, env, depth=0, enum=None):
        t = e[0]
        if t == 'const':
            v = str(e[1])
            if 'INFINITY' in v or 'inf' in v.lower():
                return 'INF'
            if v.startswith('fn:'):
                return LEAVES.get(flow.short(v[3:]), '?')
            return 'CONST'
        if t == 'cast':
            return self.kind(e[1], body, variant, env, depth, enum)
        if t in ('arg', 'var'):
            return env.get(e[2], '?')
        if t == 'phi':
            all_ks = set(self.kind(a, body, variant, env, depth, enum) for a in e[1])
            ks = all_ks - {'INF', 'CONST'}   # constants are unit-polymorphic
            if not ks:
                return 'CONST' if 'CONST' in all_ks else 'INF'
            return ks.pop() if len(ks) == 1 else 'MIXED(%s)' % ','.join(sorted(ks))
        if t == 'field':
            r = flow.render(e)
            for k, v in KERNEL_FIELDS.items():
                if r.endswith(k):
                    return v
            m = re.search(r'@(\w+)→\w+\.0$', r)
            if m and ('payload:' + m.group(1)) in env:
                return env['payload:' + m.group(1)]
            return '?'
        if t == 'downcast':
            return self.kind(e[1], body, variant, env, depth, enum)
        if t == 'un':
            return self.kind(e[2], body, variant, env, depth, enum) if e[1] == 'Neg' else '?'
        if t == 'index':
            return 'ELEM'      # one component of a vector
        if t == 'bin':
            op = e[1]
            # accumulator of a loop: acc = acc + X  (the running variable shows up as an unresolved local)
            if op.startswith('Add') and (e[2][0] == 'local' or e[3][0] == 'local'):
                other = e[3] if e[2][0] == 'local' else e[2]
                return self.kind(other, body, variant, env, depth, enum)
            a = self.kind(e[2], body, variant, env, depth, enum)
            b = self.kind(e[3], body, variant, env, depth, enum)
            if op.startswith('Sub') and a == b == 'ELEM':
                return 'DIFF'
            if op.startswith('Mul') and a == b == 'DIFF' and e[2] == e[3]:
                return 'L2SQ'  # (a_i − b_i)², summed by the accumulator rule above
            if op.startswith('Mul') and a == b == 'ELEM':
                return 'SIM'   # a_i · b_i, summed: a dot product
            if op.startswith('Sub'):
                if a == 'CONST' and b == 'SIM':
                    return 'DIST1'
                if a == b:
                    return a
                if b == 'CONST':
                    return a
                return '?'
            if op.startswith('Div'):
                return a if a in ('SIM', 'L2SQ', 'L2', 'DIST1') else '?'
            if op.startswith('Mul'):
                if b == 'CONST':
                    return a
                if a == 'CONST':
                    return b
                if a == b == 'NORM':
                    return 'NORMSQ'
                if a == b == 'L2':
                    return 'L2SQ'
                return '?'
            if op.startswith('Add'):
                return a if a == b or b == 'CONST' else (b if a == 'CONST' else '?')
            if op in ('Le', 'Lt', 'Ge', 'Gt'):
                return 'CMP(%s,%s)' % (a, b)
            return '?'
        if t == 'call':
            callee = e[1]
            sh = flow.short(callee)
            args = e[2]
            if callee == '<indirect>':
                return self.kind(args[0], body, variant, env, depth, enum)
            if sh in LEAVES:
                return LEAVES[sh]
            if sh.endswith('::sqrt'):
                a = self.kind(args[0], body, variant, env, depth, enum)
                return {'L2SQ': 'L2', 'NORMSQ': 'NORM'}.get(a, '?')
            if sh.endswith('::powi'):
                a = self.kind(args[0], body, variant, env, depth, enum)
                two = len(args) > 1 and args[1][0] == 'const' and args[1][2] == 2
                return {'L2': 'L2SQ', 'NORM': 'NORMSQ'}.get(a, '?') if two else '?'
            if any(sh.endswith(p) for p in PASS_THROUGH):
                return self.kind(args[0], body, variant, env, depth, enum)
            cb = self.prog.resolve_local(callee)
            if cb is not None and depth < self.max_inline:
                env2 = {}
                for i, a in enumerate(args):
                    l = i + 1
                    if l <= cb.argc and cb.varnames.get(l):
                        env2[cb.varnames[l][0]] = self.kind(a, body, variant, env, depth, enum)
                self.trace.append('%s inlined under %s' % (flow.short(callee), variant))
                return self.ret_kind(cb, variant, env2, depth + 1, enum)
            return '?'
        return '?'
