"""Helpers for the gRPC service: locating the real body of an RPC handler behind async_trait/#[instrument]."""
from . import rt

SERVICE_PREFIX = '<kyrodb_server::KyroDBServiceImpl as kyrodb_engine::proto::kyro_db_service_server::KyroDbService>::'


def rpc_methods(prog):
    """Names of the methods of `impl KyroDbService for KyroDBServiceImpl` (from the impl table)."""
    out = []
    for im in prog.impls:
        if im.get('trait', '').endswith('kyro_db_service_server::KyroDbService') and 'KyroDBServiceImpl' in im.get('self', ''):
            for it in im['items']:
                if it['path'].startswith('<') and '::{' not in it['path'] and prog.bodies.get(it['path']) is not None:
                    out.append(it['name'])
    return sorted(set(out))


def handler_family(prog, name):
    root = prog.bodies.get(SERVICE_PREFIX + name)
    if root is None:
        return []
    return prog.family(root)


def handler(ctx, rid, name, *must_call):
    """The largest body of the handler's family that calls every pattern in must_call (default: tenant_context)."""
    fam = handler_family(ctx.prog, name)
    if not fam:
        ctx.missing(rid, 'RPC handler %s' % name)
        raise rt.AnchorMissing(name)
    pats = must_call or ()
    cands = [b for b in fam if all(b.calls_to(p) for p in pats)]
    if not cands:
        ctx.missing(rid, 'RPC handler %s: no body calling %s' % (name, ', '.join(pats)))
        raise rt.AnchorMissing(name)
    cands.sort(key=lambda b: -len(b.blocks))
    return cands[0]


def main_body(ctx, rid, *must_call):
    fam = ctx.prog.family(ctx.body(rid, 'kyrodb_server::main'))
    cands = [b for b in fam if all(b.calls_to(p) for p in must_call)]
    if not cands:
        ctx.missing(rid, 'kyrodb_server::main: no body calling %s' % ', '.join(must_call))
        raise rt.AnchorMissing('main')
    cands.sort(key=lambda b: -len(b.blocks))
    return cands[0]
