"""Helpers shared by the rule modules: anchor selection, ordered chains, option edges, result consumption."""
import re

from . import flow, rt
from .flow import Origin, render, short


def pick(ctx, rid, root, *call_patterns):
    """Body of root's family that contains calls matching every pattern (the 'real' body behind
    #[instrument]/async shells). Fails closed."""
    rb = ctx.body(rid, root)
    fam = ctx.prog.family(rb)
    cands = [b for b in fam if all(b.calls_to(p) for p in call_patterns)]
    if not cands:
        ctx.missing(rid, '%s (no body in its family calls %s)' % (root, ', '.join(call_patterns)))
        raise rt.AnchorMissing(root)
    cands.sort(key=lambda b: -len(b.blocks))
    return cands[0]


def option_edges(body, place_rx, variant='None'):
    """Edges (bb, target) of switches on discriminant(place matching place_rx) that select `variant`."""
    o = Origin(body)
    rx = re.compile(place_rx)
    out = []
    for i, blk in enumerate(body.blocks):
        if blk['t']['k'] != 'switch':
            continue
        for tg, pred in flow.switch_edge_predicates(body, i, o):
            m = re.match(r'^variant\((.*)\) = (\w+)$', pred)
            if m and rx.search(m.group(1)) and m.group(2) == variant:
                out.append((i, tg))
            m = re.match(r'^variant\((.*)\) ∉ \{(.*)\}$', pred)
            if m and rx.search(m.group(1)):
                listed = m.group(2).split(',')
                other = {'None': 'Some', 'Some': 'None', 'Ok': 'Err', 'Err': 'Ok'}.get(variant)
                if other in listed and variant not in listed and len(listed) == 1:
                    out.append((i, tg))
    return out


def assign_blocks(body, field_rx=None, local=None, deref_only=False):
    """Blocks containing an assignment to a place whose last field matches field_rx
    (or to *local when deref_only)."""
    rx = re.compile(field_rx) if field_rx else None
    out = []
    for i, blk in enumerate(body.blocks):
        for s in blk['s']:
            if 'rv' not in s:
                continue
            pl = s['pl']
            pr = pl.get('p') or []
            if local is not None and pl['l'] != local:
                continue
            if deref_only:
                if pr == ['*']:
                    out.append(i)
                continue
            if rx is not None:
                fs = [x for x in pr if isinstance(x, str) and x not in ('*',)]
                if fs and rx.search(fs[-1]):
                    out.append(i)
        t = blk['t']
        if t['k'] == 'call' and t.get('dest'):
            pl = t['dest']
            pr = pl.get('p') or []
            if local is not None and pl['l'] != local:
                continue
            if deref_only and pr == ['*']:
                out.append(i)
            elif rx is not None and not deref_only:
                fs = [x for x in pr if isinstance(x, str) and x not in ('*',)]
                if fs and rx.search(fs[-1]):
                    out.append(i)
    return sorted(set(out))


def agg_blocks(body, adt_rx):
    """Blocks containing an aggregate construction of an ADT matching adt_rx."""
    rx = re.compile(adt_rx)
    out = []
    for i, blk in enumerate(body.blocks):
        for s in blk['s']:
            rv = s.get('rv')
            if rv and rv['k'] == 'agg' and rv.get('ak') == 'adt' and rx.search(rv.get('adt', '')):
                out.append(i)
    return sorted(set(out))


class Step:
    """A step of an ordered chain: a set of blocks with success edges (calls) or plain blocks (assignments)."""

    def __init__(self, name, body, blocks, is_call=True):
        self.name = name
        self.body = body
        self.blocks = sorted(set(blocks))
        self.is_call = is_call
        self.succ = []
        self.fail = []
        for bb in self.blocks:
            c = body.call_at(bb) if is_call else None
            if c is not None:
                s, f = flow.outcome_edges(body, c)
                if s is None:
                    self.succ += [(bb, c.to)] if c.to is not None else []
                else:
                    self.succ += s
                    self.fail += f
            else:
                self.succ += [(bb, x) for x in body.succ(bb)]


def check_chain(ctx, rid, body, steps, final_ok=True, exempt_edges=(), no_reorder=True, label=None, need_dom=True):
    """ORD chain  S1 ≺ S2 ≺ … ≺ Ok-return  (DESIGN §3 ORD).  For adjacent steps P, Q:
       (a) every Q block is unreachable from entry once P's success edges are deleted;
       (b) no P block is reachable after a Q success edge (P never happens after Q) when no_reorder;
       (c) from P's failure edges no Q block is reachable.
    final_ok: the Ok return is unreachable once the last step's success edges (and exempt_edges) are deleted,
    and unreachable from its failure edges.  One rule instance per adjacent pair."""
    fn = body.short
    errs = flow.err_blocks(body)
    allok = True
    for st in steps:
        if not st.blocks:
            ctx.missing(rid, '%s: step %s not found in %s' % (label or fn, st.name, fn))
            return False
    for p, q in zip(steps, steps[1:]):
        r = body.reach([0], avoid_edges=set(p.succ) | set(exempt_edges))
        bad_a = [b for b in q.blocks if b in r or b == 0] if need_dom else []
        bad_b = []
        if no_reorder:
            after_q = body.reach([e[1] for e in q.succ])
            after_q |= set(e[1] for e in q.succ)
            bad_b = [b for b in p.blocks if b in after_q and not _loop_back_ok(body, p, q, b)]
        bad_c = []
        if p.fail:
            rf = body.reach([e[1] for e in p.fail]) | set(e[1] for e in p.fail)
            bad_c = [b for b in q.blocks if b in rf]
        ok = not (bad_a or bad_b or bad_c)
        detail = '%s ≺ %s' % (p.name, q.name)
        if bad_a:
            path = rt.find_path(body, [0], bad_a, (), set(p.succ) | set(exempt_edges))
            detail += '\n  %s at %s is reachable without a successful %s:\n    %s' % (
                q.name, body.loc_of(bad_a[0]), p.name, '\n    '.join(rt.path_witness(body, path or [])[-12:]))
        if bad_b:
            detail += '\n  %s at %s can run after %s succeeded' % (p.name, body.loc_of(bad_b[0]), q.name)
        if bad_c:
            detail += '\n  %s at %s is reachable from a failed %s' % (q.name, body.loc_of(bad_c[0]), p.name)
        ctx.inst(rid, fn, (label + ': ' if label else '') + '%s ≺ %s' % (p.name, q.name), ok, detail)
        allok = allok and ok
    if final_ok:
        last = steps[-1]
        r = body.reach([0], avoid_blocks=errs, avoid_edges=set(last.succ) | set(exempt_edges))
        bad = [b for b in body.return_blocks() if b in r]
        bad_f = []
        if last.fail:
            rf = body.reach([e[1] for e in last.fail], avoid_blocks=errs) | set(e[1] for e in last.fail)
            bad_f = [b for b in body.return_blocks() if b in rf and not (set(e[1] for e in last.fail) & errs)]
        ok = not bad and not bad_f
        detail = '%s ≺ Ok' % last.name
        if bad:
            path = rt.find_path(body, [0], bad, errs, set(last.succ) | set(exempt_edges))
            detail += '\n  an Ok return is reachable without a successful %s:\n    %s' % (
                last.name, '\n    '.join(rt.path_witness(body, path or [])[-12:]))
        if bad_f:
            detail += '\n  an Ok return is reachable from a failed %s' % last.name
        ctx.inst(rid, fn, (label + ': ' if label else '') + '%s ≺ Ok' % last.name, ok, detail)
        allok = allok and ok
    return allok


def _loop_back_ok(body, p, q, b):
    return False


def result_use(body, call):
    """How the Result of `call` is consumed:
       'propagated'  – tested, and from its failure edges no Ok return is reachable (`?`, return Err, abort)
       'returned'    – not tested here, flows into the return place (tail call / pass-through)
       'continues'   – tested, but some failure edge reaches an Ok return (logged-only / swallowed)
       'discarded'   – never tested and not returned (`let _ =`, `.ok()`, unused)"""
    s, f = flow.outcome_edges(body, call)
    errs = flow.err_blocks(body)
    if s is None:
        # flows to _0 ?
        if call.dest and call.dest['l'] == 0:
            return 'returned'
        l = call.dest['l'] if call.dest else None
        seen = set()
        work = [l]
        while work:
            x = work.pop()
            if x is None or x in seen:
                continue
            seen.add(x)
            for i, blk in enumerate(body.blocks):
                for st in blk['s']:
                    rv = st.get('rv')
                    if rv and rv['k'] == 'use' and flow._op_local(rv['a']) == x and not st['pl'].get('p'):
                        if st['pl']['l'] == 0:
                            return 'returned'
                        work.append(st['pl']['l'])
                c = body.call_at(i)
                if c is not None and any(flow._op_local(a) == x for a in c.args):
                    if c.is_(*flow._WRAPPERS) or flow._is_transparent(c):
                        if c.dest and c.dest['l'] == 0:
                            return 'returned'
                        if c.dest:
                            work.append(c.dest['l'])
                    elif c.is_('core::result::Result::ok', 'core::mem::drop'):
                        return 'discarded'
        return 'discarded'
    if not f:
        return 'propagated'
    starts = [e[1] for e in f]
    r = body.reach(starts, avoid_blocks=errs) | set(x for x in starts if x not in errs)
    if any(x in r for x in body.return_blocks()):
        return 'continues'
    return 'propagated'


def loop_source(body, head_call):
    """Variable-level origin of what a `for` loop iterates: follows `&mut iter` of the Iterator::next call to the
    iterator local and renders that local's definition with user variables kept as names."""
    a = head_call.args[0]
    l = a['pl']['l'] if a.get('pl') else None
    # the argument is a temp `_t = &mut iter`
    for _ in range(4):
        nxt = None
        for d in body.defs.get(l, []):
            if d[2] == 'assign' and d[3]['rv']['k'] == 'ref':
                nxt = d[3]['rv']['pl']['l']
        if nxt is None:
            break
        l = nxt
    ov = Origin(body, stop_at_vars=True)
    return render(ov.of_local(l))


def finite_closure(prog, pred):
    """The closure of an `iter().any(closure)` predicate is `|v| !v.is_finite()` (returns the negation of is_finite)."""
    m = re.search(r'closure:([\w:<> ]*?\{closure#\d+\})', pred)
    if not m:
        return False
    for b in prog.bodies.values():
        if b.kind == 'Closure' and b.id.endswith(m.group(1)):
            r = render(Origin(b).of_local(0))
            if re.match(r'^Not\(.*is_finite\(.*\)\)$', r):
                return True
    return False


def var_chain_reaches(body, name, target, depth=6):
    """Does the user variable `name` (any local bound to it) derive, through a chain of named variables
    (loop iterators, `?` temporaries, pattern bindings), from the variable `target`?"""
    ov = Origin(body, stop_at_vars=True)
    seen = set()
    work = [name]
    for _ in range(depth):
        nxt = []
        for n in work:
            if n in seen:
                continue
            seen.add(n)
            for l in body.var_local(n):
                r = render(ov.of_local(l))
                for m in re.findall(r'var:(\w+)', r):
                    if m == target:
                        return True
                    nxt.append(m)
        work = nxt
        if not work:
            break
    return False



def bind_role(body, role, origin_rx=None, full=False, type_rx=None, used_as=None, assigned_from=None):
    """Make a rule independent of what a local variable of /repo happens to be called: find the user variable that PLAYS `role` structurally and let it render
    under the role name (`var:<role>`), whatever its source name is.  A candidate must satisfy every criterion given:
      origin_rx      regex searched in the rendering of its definition (variable level; `full=True`: fully expanded origin)
      type_rx        regex searched in its MIR type
      used_as        (callee regex, argument index): it (or a reference to it) is that argument of such a call in this body
      assigned_from  callee regex: one of its definitions is the result of such a call
    Exactly one candidate → it is bound to the role (a pure rename in /repo then changes nothing for the rule).  If a variable is already called `role` and
    satisfies the criteria, or nothing / several things qualify, nothing is changed — the rule falls back to the name and fails closed as before.
    Returns the local number or None."""
    if body is None:
        return None
    from .flow import Origin, render, short
    cands = []
    ov = None
    for l, names in list(body.varnames.items()):
        if not names or names[0] in ('val', 'residual', '__next', '__awaitee'):
            continue   # bindings introduced by the desugaring of `?`, `for`, `.await`
        if type_rx and not re.search(type_rx, body.locals[l]):
            continue
        if origin_rx:
            ov = ov or Origin(body, stop_at_vars=not full)
            try:
                r = render(ov.of_local(l))
            except Exception:
                continue
            if not re.search(origin_rx, r):
                continue
        if assigned_from:
            ok = False
            for d in body.defs.get(l, []):
                if d[2] in ('call', 'pcall') and d[3].callee and re.search(assigned_from, short(d[3].callee)):
                    ok = True
            if not ok:
                # through `?`: the defining value's origin starts with the call
                ov2 = Origin(body)
                try:
                    ok = re.match(r'^(?:%s)\(' % assigned_from, render(ov2.of_local(l))) is not None
                except Exception:
                    ok = False
            if not ok:
                continue
        if used_as:
            ok = False
            ovv = Origin(body, stop_at_vars=True)
            for c in body.calls:
                if c.callee and re.search(used_as[0], short(c.callee)) and len(c.args) > used_as[1]:
                    a = c.args[used_as[1]]
                    if a.get('k') in ('mv', 'cp'):
                        r = render(ovv.of_operand(a))
                        if r in ('var:' + names[0], '&var:' + names[0], '&mut var:' + names[0]) or a['pl']['l'] == l:
                            ok = True
            if not ok:
                continue
        cands.append(l)
    if len(cands) != 1:
        return None
    l = cands[0]
    if role not in body.varnames[l]:
        # the role name must not collide with another variable of this body
        for l2, ns in body.varnames.items():
            if l2 != l and role in ns:
                return None
        body.varnames[l] = [role]
        for attr in ('_err_blocks',):
            if hasattr(body, attr):
                delattr(body, attr)
    return l



def first_in_flow(body, blocks):
    """The block of `blocks` that comes first in control flow: not reachable from any of the others (block NUMBERS say nothing about order once a helper has been
    inlined at the end of the body).  Falls back to the smallest number when the order is not total."""
    blocks = sorted(set(blocks))
    if len(blocks) <= 1:
        return blocks[0] if blocks else None
    firsts = [b for b in blocks if not any(o != b and b in body.reach([o]) and o not in body.reach([b]) for o in blocks)]
    cands = [b for b in firsts if all(o == b or o in body.reach([b]) for o in blocks)]
    return cands[0] if cands else (firsts[0] if firsts else blocks[0])
