"""C01 — acknowledged writes survive a crash; restart succeeds.

Decided statically: the SHAPE of the durability protocol on every path — log-before-apply, fsync per policy,
temp+flush+fsync+rename+dirsync, publish-before-prune, list-before-use, start-up decision, no swallowed
protocol error, the snapshot claims only sequence numbers already handed out, the configured fsync policy is the one that runs, under the periodic policy a ticker and the rotation sync what the appends left unsynced.  These are necessary conditions of the behaviour (breaking one breaks crash safety); the check
decides these parts, not the behaviour: what a given crash state contains, torn-write handling and replay
arithmetic are not decided.
"""
import re

from kvstatic import flow, pathsens, rt, util
from kvstatic.effects import Effects
from kvstatic.locks import LockModel
from kvstatic.callgraph import sync_calls, callers_index
from rules import C02 as _c02
from rules import C09 as _c09

MANIFEST = {
    'text': 'Decides the structural clauses of the durability protocol on every CFG path of the write, snapshot, '
            'rotation and start-up code (log-before-apply, fsync-per-policy, atomic replace, publish-before-prune, '
            'list-before-use, start-up decision, no swallowed protocol error, sequence accounting of what a snapshot claims to cover, '
            'configured fsync policy → engine policy, periodic policy: background tick and rotation sync the log). Each clause is a necessary condition '
            'of crash safety; the check decides the clause, not the behaviour (crash-state contents, torn writes and '
            'replay arithmetic are not decided).',
    'design_ref': 'DESIGN.md §4.1',
    'note': 'Trusted base: rustc MIR, success-edge extraction for `?`/match, must-effect summaries over the '
            'synchronous call graph. The file system is assumed to honour fsync/rename semantics.',
    'technique': 'CFG must-pass-through / ordered-effect chains, who-may-call tables, result-consumption classes on MIR',
}

EXPLANATION = (
    'ORD/DOM/WMC/ERR rules of DESIGN §4.1 evaluated on promoted MIR. A step of an ordered chain is an effect '
    '(a primitive call or a local callee that must-performs it on all its Ok returns); "A ≺ B" means every path to B '
    'crosses the success edge of A, A never runs after B, and no failure edge of A reaches B. Persistence-disabled '
    'paths are exempt through the None edge of the switch on discriminant(self.persistence).')

CANON = ('HnswBackend.doc_store', 'HnswBackend.index', 'HnswBackend.metadata_index')
MUTATORS = ['HnswBackend::insert', 'HnswBackend::delete', 'HnswBackend::update_metadata', 'HnswBackend::batch_delete']


def canonical_writers(prog, lm):
    """Bodies that (transitively, synchronously) take a write lock on canonical state."""
    direct = set()
    for bid, acqs in lm.body_acqs.items():
        for a in acqs.values():
            if a.cls in CANON and a.mode in ('W', 'U'):
                direct.add(bid)
    sc = sync_calls(prog)
    w = set(direct)
    changed = True
    while changed:
        changed = False
        for bid, per in sc.items():
            if bid in w:
                continue
            if any(cb.id in w for cbs in per.values() for cb in cbs):
                w.add(bid)
                changed = True
    return direct, w


def rotation_publish_order(ctx, prog, eff, rid):
    """rotate_wal_if_needed: create the segment ≺ list it in the MANIFEST ≺ switch the active writer (shared: C01.R5 and C03.R8 — every mutator swallows a rotation
    error and keeps writing to "the current WAL", which is only safe while the active writer is a segment the MANIFEST lists).  The switch is an assignment through
    the guard or mem::replace / mem::swap / mem::take on it."""
    rw = ctx.body(rid, 'PersistenceState::rotate_wal_if_needed')
    if rw is None:
        return
    wg = rw.var_local('wal_guard')
    sw = set(util.assign_blocks(rw, local=wg[0] if wg else -1, deref_only=True))
    ov = flow.Origin(rw, stop_at_vars=True)
    for c in rw.calls:
        if c.callee and re.search(r'core::mem::(replace|swap|take)$', c.callee) and c.args and flow.render(ov.of_operand(c.args[0])) in ('var:wal_guard', 'arg:wal_guard', '&mut var:wal_guard'):
            sw.add(c.bb)
        elif c.callee and re.search(r'core::mem::(replace|swap|take)$', c.callee) and c.args and 'wal_guard' in flow.render(ov.of_operand(c.args[0])):
            sw.add(c.bb)
    util.check_chain(ctx, rid, rw, [
        util.Step('WalWriter::create', rw, eff.blocks(rw, 'wal_create')),
        util.Step('Manifest::save', rw, eff.blocks(rw, 'manifest_save')),
        util.Step('assign *wal_guard', rw, sorted(sw), is_call=False),
    ], final_ok=False)
    # nothing can fail once the writer has been switched (the callers keep going after an Err)
    errs = flow.err_blocks(rw)
    after = set()
    for b_ in sw:
        after |= rw.reach(rw.succ(b_))
    late = sorted(after & errs)
    ctx.inst(rid, rw.short, 'no failure exit after the active writer was switched', bool(sw) and not late,
             ('Err exit at %s is reachable after the switch: the callers log the error and keep appending to a segment the MANIFEST may not list' % rw.loc_of(late[0])) if late
             else '%d switch site(s); every exit after them is Ok' % len(sw))


def drop_unsound_threading(body):
    """flow.threaded_successors redirects the LAST block of the goto/drop chain between `_b = const` and the switch on `_b` — also when that block is a join
    that other definitions of `_b` flow through (`match r { Ok(x) => f(x), Err(_) => false }` followed by a shared `drop(r)` block and then `if flag`): every
    path through the join is then sent to the constant's target and the switch is never seen.  Such redirections are removed here (the explorer's own constant
    propagation still resolves the switch on the constant's path): a redirection is kept only when the redirected block is reached from the block holding the
    constant assignment through blocks with a single predecessor."""
    red = flow.threaded_successors(body)
    for cur in list(red):
        x, ok = cur, False
        for _ in range(8):
            if any(st.get('rv', {}).get('k') == 'use' and st['rv']['a'].get('k') == 'c' and st['rv']['a'].get('ty') == 'bool' for st in body.blocks[x]['s']):
                ok = True
                break
            ps = body.pred(x)
            if len(ps) != 1:
                break
            x = ps[0]
        if not ok:
            del red[cur]


def _excludes_periodic(pred):
    """An edge predicate of a switch on an fsync policy that the Periodic policy cannot take."""
    m_ = re.match(r'^variant\(.*fsync_policy\) = (\w+)$', pred)
    if m_:
        return m_.group(1) != 'Periodic'
    m_ = re.match(r'^variant\(.*fsync_policy\) ∉ \{(.*)\}$', pred)
    if m_:
        return 'Periodic' in m_.group(1).split(',')
    return False


def _non_periodic_edges(body):
    out = set()
    o = flow.Origin(body)
    for i, blk in enumerate(body.blocks):
        if blk['t']['k'] == 'switch' and i in body.live_blocks():
            for tg, p in flow.switch_edge_predicates(body, i, o):
                if _excludes_periodic(p):
                    out.add((i, tg))
    return out


def periodic_sync(ctx, prog, eff, rid):
    """C01.R14 (F19): see the rule text."""
    # (a) rotation
    rw = ctx.body(rid, 'PersistenceState::rotate_wal_if_needed')
    if rw is not None:
        util.bind_role(rw, 'wal_guard', type_rx=r'^&mut .*WalWriter$')
        wg = rw.var_local('wal_guard')
        sw = set(util.assign_blocks(rw, local=wg[0] if wg else -1, deref_only=True))
        ov = flow.Origin(rw, stop_at_vars=True)
        for c in rw.calls:
            if c.callee and re.search(r'core::mem::(replace|swap|take)$', c.callee) and c.args and 'wal_guard' in flow.render(ov.of_operand(c.args[0])):
                sw.add(c.bb)
        syncs = [bb for bb in eff.blocks(rw, 'file_sync')
                 if rw.call_at(bb) is not None and rw.call_at(bb).args and 'wal_guard' in flow.render(ov.of_operand(rw.call_at(bb).args[0]))]
        S = set(eff.success_edges(rw, syncs))
        tv = flow.ThreadedView(rw)
        r = tv.reach([0], avoid_edges=S | _non_periodic_edges(rw))
        bad = sorted(sw & r)
        if not sw:
            ctx.missing(rid, 'rotate_wal_if_needed: the switch of the active writer')
        else:
            ctx.inst(rid, rw.short, 'Periodic ⇒ the outgoing segment is synced before the writer is replaced', not bad,
                     ('the writer switch at %s is reachable under the Periodic policy without a successful sync of the outgoing writer (%s): the tail of the old '
                      'segment is never synced again' % (rw.loc_of(bad[0]), 'no file sync of *wal_guard in the function' if not syncs else
                                                         'sync at %s is not on every such path' % rw.loc_of(syncs[0]))) if bad else
                     '%d switch site(s) behind the success edge of the sync at %s' % (len(sw), ', '.join(rw.loc_of(b_) for b_ in syncs)))
    # (b) tickers
    memo = {}

    def attempt_blocks(b_, depth=0):
        out = set(c.bb for c in b_.calls if c.callee and c.is_('HnswBackend::sync_wal'))
        if depth < 3:
            for bb, cbs in sync_calls(prog).get(b_.id, {}).items():
                if bb not in out and b_.blocks[bb]['t']['k'] == 'call' and cbs and all(always_attempts(cb, depth + 1) for cb in cbs):
                    out.add(bb)
        return out

    def always_attempts(cb, depth):
        if cb.id not in memo:
            memo[cb.id] = False
            blks = attempt_blocks(cb, depth)
            rets = cb.return_blocks()
            memo[cb.id] = bool(blks) and bool(rets) and not (set(rets) & cb.reach([0], avoid_blocks=blks))
        return memo[cb.id]
    for owner in ('kyrodb_server::main', 'TieredEngine::spawn_flush_task'):
        ob = ctx.body(rid, owner)
        if ob is None:
            continue
        tickers, good, why = [], [], []
        for b in prog.family(ob):
            ticks = [c.bb for c in b.calls if c.callee and c.is_('re:tokio::time::interval::Interval::tick$')]
            ticks = [t for t in ticks if t in b.reach(b.succ(t))]          # in a loop
            if not ticks:
                continue
            tickers.append(b)
            sy = attempt_blocks(b)                     # the call itself, or a local callee that makes it on every path to a return (its outcome is the callee's business)
            if not sy:
                continue
            tv = flow.ThreadedView(b)
            npe = _non_periodic_edges(b)
            free = [t for t in ticks if t in tv.reach(tv.succ(t), avoid_blocks=sy, avoid_edges=npe)]
            if free:
                why.append('%s: the tick at %s is reached again under the Periodic policy without passing sync_wal' % (b.short, b.loc_of(free[0])))
            else:
                good.append(b)
        if not tickers:
            ctx.missing(rid, '%s: a loop around Interval::tick' % owner)
            continue
        ctx.inst(rid, owner, 'Periodic ⇒ a background tick syncs the log', bool(good),
                 ('%d ticker loop(s) in %s, none calls HnswBackend::sync_wal on every round the Periodic policy can take%s: appends acknowledged just before an idle '
                  'period are never synced' % (len(tickers), owner, (' (' + '; '.join(why) + ')') if why else '')) if not good else
                 'ticker %s: every way back to the tick under Periodic passes sync_wal' % good[0].short)
    # (c) sync_wal itself
    sb = ctx.body(rid, 'HnswBackend::sync_wal')
    if sb is not None:
        S = set(eff.success_edges(sb, eff.blocks(sb, 'file_sync')))
        N = set(util.option_edges(sb, r'HnswBackend\.persistence$', 'None'))
        oks = flow.ok_return_reachable(sb, [0], avoid_edges=S | N)
        ctx.inst(rid, sb.short, 'Ok only past a successful file sync of the log (or persistence off)', bool(S) and not oks,
                 'no file sync in sync_wal' if not S else 'an Ok return is reachable without the sync' if oks else 'every Ok return is behind the sync or the None edge of persistence')
    ctx.floor(rid, 'periodic-sync obligations (rotation, two tickers, sync_wal)', sum(1 for x in ctx.instances if x.get('config') == ctx.config and x['rule'] == rid), 4, 'counted')


def orphan_scan(ctx, prog, rid):
    """C01.R16 = C13.R10 (F18 / F20): what the server's start-up takes for "this directory holds a database although its MANIFEST is gone"."""
    main = ctx.body(rid, 'kyrodb_server::main')
    if main is None:
        return
    scans = [b for b in prog.family(main) if any(c.callee and c.callee.endswith('DirEntry::file_name') for c in b.calls)]
    if len(scans) != 1:
        ctx.missing(rid, 'main: the closure that classifies the entries of the data directory (found %d)' % len(scans))
        return
    sc = scans[0]
    o = flow.Origin(sc)
    lits = set()
    for c in sc.calls:
        if c.callee and re.search(r'str(>)?::(starts_with|ends_with)$', c.callee) and len(c.args) > 1:
            r_ = flow.render(o.of_operand(c.args[1]))
            if r_.startswith('"') and r_.endswith('"'):
                lits.add((c.callee.rsplit('::', 1)[1], r_[1:-1]))
    # the names the engine itself gives its files (writer side): format templates "wal_{}.wal" / "snapshot_{}.snap" under HnswBackend
    names = {}
    for fam, pre, suf, owners in (('log segments', 'wal_', '.wal', ('PersistenceState::rotate_wal_if_needed',)), ('snapshots', 'snapshot_', '.snap', ('HnswBackend::create_snapshot',))):
        found = False
        for ow in owners:
            ob = ctx.body(rid, ow)
            if ob is None:
                continue
            for fb_ in [ob] + [b_ for b_ in prog.family(ob) if b_.id.startswith(ob.id + '::')]:
                oo = flow.Origin(fb_)
                for c in fb_.calls:
                    if c.callee and re.search(r'fmt::Arguments(<.*>)?::new', c.callee) and c.args:
                        r_ = flow.render(oo.of_operand(c.args[0]))
                        if re.search(re.escape(pre) + r'(\\x[0-9a-f]{2}){1,4}' + re.escape(suf), r_):      # prefix, one placeholder, suffix
                            found = True
        names[fam] = (pre, suf, found)
    for fam, (pre, suf, found) in sorted(names.items()):
        if not found:
            ctx.missing(rid, 'writer side: the engine no longer names its %s %s*%s' % (fam, pre, suf))
            continue
        ok = ('starts_with', pre) in lits and ('ends_with', suf) in lits
        ctx.inst(rid, 'kyrodb_server::main', 'the start-up scan recognises the engine\'s %s (%s*%s)' % (fam, pre, suf), ok,
                 ('the scan tests %s: a directory whose MANIFEST was removed and that holds only %s is taken for a fresh one — the server starts empty over it' % (sorted(lits), fam)) if not ok else
                 'tests starts_with("%s") and ends_with("%s")' % (pre, suf))
    # a segment that holds only its header is NOT data: the first start-up creates its segment before it publishes the MANIFEST
    hdr = prog.named_constants().get('kyrodb_engine::persistence::WAL_HEADER_LEN')
    cw = ctx.body(rid, 'WalWriter::create_with_error_handler')
    init = None
    if cw is not None:
        co = flow.Origin(cw)
        for blk in cw.blocks:
            for st in blk['s']:
                rv = st.get('rv')
                if rv and rv['k'] == 'agg' and rv.get('adt', '').endswith('persistence::WalWriter') and 'bytes_written' in (rv.get('fields') or []):
                    init = flow.render(co.of_operand(rv['ops'][rv['fields'].index('bytes_written')]))
    cmps = []
    for fb in [sc] + [b for b in prog.family(main) if b.id.startswith(sc.id + '::')]:
        r_ = flow.render(flow.Origin(fb).of_local(0))
        for m_ in re.finditer(r'\(Metadata::len\([^()]*\) (Gt|Ge) ((?:\d+|\((?:\d+) (?:Add|AddWithOverflow) (?:\d+)\)(?:\.0)?))\)', r_):
            rhs = m_.group(2)
            m2 = re.match(r'^\((\d+) \w+ (\d+)\)(?:\.0)?$', rhs)
            cmps.append((m_.group(1), int(rhs) if rhs.isdigit() else int(m2.group(1)) + int(m2.group(2))))
    want = None if init is None or not init.isdigit() else int(init)
    ok = want is not None and hdr == want and any((op == 'Gt' and n == want) or (op == 'Ge' and n == want + 1) for op, n in cmps)
    ctx.inst(rid, 'kyrodb_server::main', 'a log segment that holds only its header does not count as data', ok,
             ('a fresh segment is %s bytes long (WalWriter::create), WAL_HEADER_LEN = %s, length tests in the scan: %s — a first start-up killed between the creation of its segment and '
              'the publication of the MANIFEST leaves a directory the next start-up refuses' % (init, hdr, cmps or 'none')) if not ok else
             'length test %s against the header length %d that WalWriter::create starts from' % (cmps, want))


def policy_mapping(ctx, prog, rid):
    """C01.R13: configuration value → engine fsync policy, edge by edge."""
    fam = prog.family(ctx.body(rid, 'kyrodb_server::main'))
    site = None
    for b in fam:
        o = flow.Origin(b)
        for i, blk in enumerate(b.blocks):
            if blk['t']['k'] == 'switch' and i in b.live_blocks():
                preds = flow.switch_edge_predicates(b, i, o)
                if any(re.match(r'^variant\(.*→KyroDbConfig\.persistence→PersistenceConfig\.fsync_policy\) = \w+$', p) for _, p in preds):
                    site = (b, i, preds, o)
    if site is None:
        ctx.missing(rid, 'main: switch on config.persistence.fsync_policy')
        return
    b, sw, preds, o = site
    cfg_adt = prog.adts.get('kyrodb_engine::config::FsyncPolicy')
    variants = sorted(v['name'] for v in cfg_adt['variants']) if cfg_adt else []
    arms = {}
    for tg, p in preds:
        m_ = re.match(r'^variant\(.*PersistenceConfig\.fsync_policy\) = (\w+)$', p)
        if m_:
            arms[m_.group(1)] = tg
    # a wildcard arm that can only stand for ONE variant is that variant's arm (`_ => Always` after None and DataOnly)
    rest = [v for v in variants if v not in arms]
    els = b.blocks[sw]['t']['else']
    if len(rest) == 1 and b.blocks[els]['t']['k'] != 'unreachable' and els not in arms.values():
        arms[rest[0]] = els
    ctx.inst(rid, 'kyrodb_server::main', 'every configured policy is mapped explicitly', bool(variants) and sorted(arms) == variants,
             'config::FsyncPolicy variants %s; arms of the mapping: %s' % (variants, sorted(arms)))
    # where the mapping ends: the engine configuration that receives the policy
    stop = set()
    for i, blk in enumerate(b.blocks):
        for st in blk['s']:
            rv = st.get('rv')
            if rv and rv['k'] == 'agg' and rv.get('adt', '').endswith('TieredEngineConfig') and 'fsync_policy' in (rv.get('fields') or []):
                stop.add(i)
    if not stop:
        ctx.missing(rid, 'main: TieredEngineConfig{fsync_policy, ..} built in the function that maps the policy')
        return

    def built(tg):
        """engine policies constructed between the edge and the engine configuration: (variant, operand origins, conditional?, loc)"""
        others = set(arms.values()) - {tg}
        region = b.reach([tg], avoid_blocks=stop | others) | {tg}
        out = []
        for i in sorted(region):
            for st in b.blocks[i]['s']:
                rv = st.get('rv')
                if rv and rv['k'] == 'agg' and rv.get('ak') == 'adt' and re.search(r'persistence::FsyncPolicy$', rv.get('adt', '')):
                    # unconditional: the engine configuration cannot be reached from the edge without this construction
                    cond = bool(stop & (b.reach([tg], avoid_blocks=[i]) | {tg})) and i != tg
                    out.append((rv.get('variant'), [flow.render(o.of_operand(x)) for x in rv['ops']], cond, st.get('loc', b.loc_of(i))))
        return out
    WANT = {'Full': ('Always', None), 'DataOnly': ('Periodic', r'→KyroDbConfig\.persistence→PersistenceConfig\.wal_flush_interval_ms$')}
    for cv, (ev, op_rx) in WANT.items():
        if cv not in arms:
            ctx.missing(rid, 'main: arm %s of the fsync policy mapping' % cv)
            continue
        bs = built(arms[cv])
        bad = []
        if not bs:
            bad.append('no engine policy is built on this edge')
        for v, ops, cond, loc in bs:
            if v != ev:
                bad.append('FsyncPolicy::%s%s is built at %s' % (v, ('(%s)' % ', '.join(x[-60:] for x in ops)) if ops else '', loc))
            elif cond:
                bad.append('FsyncPolicy::%s at %s is built only under a further condition' % (v, loc))
            elif op_rx and not (len(ops) == 1 and re.search(op_rx, ops[0])):
                bad.append('FsyncPolicy::%s at %s carries %s, not the configured interval' % (v, loc, [x[-80:] for x in ops]))
        why = {'Full': 'a write acknowledged under the fsync-every-write setting can then be lost by a power failure before the next periodic sync',
               'DataOnly': 'the flush interval the operator configured is not the one the writer observes'}[cv]
        ctx.inst(rid, 'kyrodb_server::main', 'configured %s ⇒ engine policy %s' % ({'Full': 'full', 'DataOnly': 'data_only'}[cv], ev), not bad,
                 ('on the edge fsync_policy = %s: %s — %s' % (cv, '; '.join(bad), why)) if bad else
                 'on the edge fsync_policy = %s the only policy built is FsyncPolicy::%s%s, unconditionally' % (cv, ev, ('(%s)' % bs[0][1][0][-70:]) if bs[0][1] else ''))


def run(ctx, prog):
    ctx.not_decided = ['what a given crash state contains; torn-write handling; replay arithmetic',
                       'that the file system honours fsync / rename atomicity']
    lm = LockModel(prog)
    eff = Effects(prog)
    eff.define('wal_append', 'WalWriter::append', 'WalWriter::append_batch')
    eff.define('write_entry', 'WalWriter::write_entry')
    eff.define('perform_fsync', 'WalWriter::perform_fsync')
    eff.define('file_sync', 'std::fs::File::sync_all', 'std::fs::File::sync_data')
    eff.define('file_create', 'std::fs::File::create')
    eff.define('write_all', 're:std::io::Write>::write_all$', 'std::io::Write::write_all')
    eff.define('flush', 're:std::io::Write>::flush$', 'std::io::Write::flush')
    eff.define('rename', 'std::fs::rename')
    eff.define('dir_open', 'std::fs::File::open')
    eff.define('sync_parent_dir', 'persistence::sync_parent_dir')
    eff.define('manifest_save', 'Manifest::save')
    eff.define('snapshot_save', 'Snapshot::save')
    eff.define('wal_create', 'WalWriter::create_with_error_handler', 'WalWriter::create')
    eff.define('compact_wal', 'HnswBackend::compact_old_wal_segments')
    n_sites = 0

    # ------------------------------------------------------------------ R1 log-before-apply
    ctx.rule('C01.R1', 'log-before-apply: in every mutator, each acquisition of write access to canonical state '
                       '(doc_store / index / metadata_index, directly or in a callee) is reached only across the success '
                       'edge of WalWriter::append[_batch], unless through the None edge of self.persistence')
    direct, writers = canonical_writers(prog, lm)
    total_m = 0
    for name in MUTATORS:
        f = ctx.body('C01.R1', name)
        A = eff.success_edges(f, eff.blocks(f, 'wal_append'))
        N = util.option_edges(f, r'HnswBackend\.persistence$', 'None')
        if not A:
            ctx.missing('C01.R1', '%s: no WAL append call' % name)
            continue
        if not N:
            ctx.missing('C01.R1', '%s: no switch on self.persistence' % name)
            continue
        M = []
        for bb, a in lm.body_acqs.get(f.id, {}).items():
            if a.cls in CANON and a.mode in ('W', 'U'):
                M.append((bb, '%s.write()' % a.cls))
        for bb, cbs in sync_calls(prog).get(f.id, {}).items():
            for cb in cbs:
                if cb.id in writers and cb.id != f.id:
                    if cb.name == 'compact_tombstones':
                        ctx.exception('C01.R1', 'HnswBackend::compact_tombstones',
                                      'rebuilds index and store from live documents only; changes no logical content (C02.R5 checks it)')
                        continue
                    M.append((bb, 'call ' + cb.short))
        r = f.reach([0], avoid_edges=set(A) | set(N))
        for bb, what in sorted(set(M)):
            total_m += 1
            ok = bb not in r
            ctx.inst('C01.R1', f.short, '%s' % what + ' #%d' % sorted(x[0] for x in M if x[1] == what).index(bb), ok,
                     ('%s at %s reachable without a successful WAL append:\n  %s' % (
                         what, f.loc_of(bb), '\n  '.join(rt.path_witness(f, rt.find_path(f, [0], [bb], (), set(A) | set(N)) or [])[-14:])))
                     if not ok else '%s at %s only after append success (or persistence disabled)' % (what, f.loc_of(bb)))
    ctx.floor('C01.R1', 'write acquisitions of canonical state in the 4 mutators', total_m, 9, '≥ 9 by hand (DESIGN §4.1)')

    # ------------------------------------------------------------------ R2 fsync per policy
    ctx.rule('C01.R2', 'fsync per policy: append_internal / append_batch_internal: write_entry ≺ perform_fsync ≺ Ok; '
                       'perform_fsync syncs on every path of the Always arm and, in the Periodic arm, skips the sync only '
                       'when interval≠0 ∧ elapsed<interval, stamping last_fsync after a sync; write_with_retry returns Ok '
                       'only past the Ok edge of write_fn(); write_entry / file writes only from their owners')
    for name in ('WalWriter::append_internal', 'WalWriter::append_batch_internal'):
        f = ctx.body('C01.R2', name)
        util.check_chain(ctx, 'C01.R2', f, [
            util.Step('write_entry', f, eff.blocks(f, 'write_entry')),
            util.Step('perform_fsync', f, eff.blocks(f, 'perform_fsync')),
        ], no_reorder=(name == 'WalWriter::append_internal'), need_dom=(name == 'WalWriter::append_internal'))
        # (the batch variant may legitimately fsync an empty batch: only "no failed write_entry reaches the fsync / Ok")
    pf = ctx.body('C01.R2', 'WalWriter::perform_fsync')
    o = flow.Origin(pf)
    sw = None
    for i, blk in enumerate(pf.blocks):
        if blk['t']['k'] == 'switch':
            preds = flow.switch_edge_predicates(pf, i, o)
            if any(re.match(r'^variant\(.*WalWriter\.fsync_policy\)', p) for _, p in preds):
                sw = (i, preds)
    if sw is None:
        ctx.missing('C01.R2', 'perform_fsync: switch on self.fsync_policy')
    else:
        i, preds = sw
        sync_edges = eff.success_edges(pf, eff.blocks(pf, 'file_sync'))
        errs = flow.err_blocks(pf)
        tg_always = [tg for tg, p in preds if p.endswith('= Always')]
        tg_periodic = [tg for tg, p in preds if p.endswith('= Periodic')]
        variants = sorted(p.split('= ')[-1] for _, p in preds if ' = ' in p)
        ctx.inst('C01.R2', pf.short, 'policy switch covers Always and Periodic explicitly', bool(tg_always and tg_periodic),
                 'arms: %s' % [p for _, p in preds])
        if tg_always:
            r = pf.reach(tg_always, avoid_blocks=errs, avoid_edges=sync_edges) | set(tg_always)
            bad = [x for x in pf.return_blocks() if x in r]
            ctx.inst('C01.R2', pf.short, 'Always ⇒ sync on every Ok path', not bad,
                     'Always arm reaches an Ok return without File::sync_all/sync_data succeeding' if bad else
                     'every Ok path of the Always arm crosses a sync success edge')
        if tg_periodic:
            atoms = [pathsens.Atom('zero', r'^cmp\[\+ .*(interval_ms|Periodic\.0).* == 0\]$'),
                     pathsens.Atom('zero', r'^cmp\[\+ .* <= 0\]$'),
                     pathsens.Atom('due', r'^ord\[Instant::elapsed\(.*WalWriter\.last_fsync\) >= Duration::from_millis\(.*\)\]$')]
            stamp = util.assign_blocks(pf, r'WalWriter\.last_fsync$')
            terms, seen = pathsens.explore(pf, atoms, start=tg_periodic[0], mark_edges={'synced': set(sync_edges)},
                                           mark_blocks={'stamped': set(stamp)})
            oks = [t for t in terms if not t[1]]
            bad = []
            for (rb, via, a, path) in oks:
                if not a.get('synced'):
                    if not (a.get('zero') is False and a.get('due') is False):
                        bad.append(('skips the sync although it is not established that interval≠0 ∧ elapsed<interval', a))
                elif not a.get('stamped'):
                    bad.append(('syncs without updating last_fsync', a))
            if not seen.get('zero') or not seen.get('due'):
                ctx.inst('C01.R2', pf.short, 'Periodic guard atoms', False,
                         'anchor missing: the Periodic arm no longer tests interval==0 / elapsed>=interval in a recognised form (%s)' % sorted(seen))
            ctx.inst('C01.R2', pf.short, 'Periodic ⇒ sync unless interval≠0 ∧ elapsed<interval; stamp after sync', not bad,
                     '; '.join('%s %s' % b for b in bad[:3]) if bad else '%d Ok paths of the Periodic arm checked' % len(oks))
    wr = ctx.body('C01.R2', 'WalErrorHandler::write_with_retry')
    wf = [c for c in wr.calls if c.is_('core::ops::function::FnMut::call_mut', 're:FnMut<.*>::call_mut$', 'core::ops::function::FnOnce::call_once')
          and c.args and 'write_fn' in flow.render(flow.Origin(wr).of_operand(c.args[0]))]
    if not wf:
        ctx.missing('C01.R2', 'write_with_retry: call of write_fn')
    else:
        s_edges = []
        for c in wf:
            s_edges += flow.success_edges(wr, c)
        errs = flow.err_blocks(wr)
        r = wr.reach([0], avoid_blocks=errs, avoid_edges=s_edges)
        bad = [x for x in wr.return_blocks() if x in r]
        ctx.inst('C01.R2', wr.short, 'Ok only past the Ok edge of write_fn()', not bad,
                 'write_with_retry can return Ok without write_fn() having returned Ok' if bad else
                 'every Ok return crosses the Ok edge of write_fn() (%d call site)' % len(wf))
    # WMC: who calls write_entry; who touches WalWriter.file
    # a call site inside a closure (`entries.iter().try_for_each(|e| self.write_entry(e))`) belongs to the function that owns the closure: the body's root.
    # (The order write_entry ≺ perform_fsync of such a function is decided above through the closure's must-effect summary at the call that receives it.)
    def owner(b_):
        rb_ = prog.bodies.get(b_.root)
        return rb_.short if rb_ is not None and b_.kind in ('Closure', 'Promoted') else b_.short
    wsites = prog.callers_of('WalWriter::write_entry')
    callers = sorted(set(owner(c.body) for c in wsites))
    want = ['persistence::WalWriter::append_batch_internal', 'persistence::WalWriter::append_internal']
    # … and what such a closure returns (the Result of write_entry, passed through) must not get lost one level up: the call of the owner that receives the
    # closure (`try_for_each`) has its result propagated or returned — R7 sees only the call inside the closure, where the result is "returned"
    lost = []
    for c in wsites:
        if c.body.kind != 'Closure':
            continue
        rb_ = prog.bodies.get(c.body.root)
        recv = [x for x in rb_.calls if c.body.id in x.gc] if rb_ is not None and c.body.parent in (None, rb_.id) else []
        inner = util.result_use(c.body, c)
        if not recv or inner not in ('returned', 'propagated'):
            lost.append('%s: the closure is not handed to a call of its owner function / does not pass the result on (%s)' % (c.body.short, inner))
        for x in recv:
            u_ = util.result_use(rb_, x)
            if u_ not in ('propagated', 'returned'):
                lost.append('%s: the result of %s at %s, which runs the closure, is %s' % (c.body.short, flow.short(x.callee or '?'), x.loc, u_))
    ctx.inst('C01.R2', 'WalWriter::write_entry', 'callers = {append_internal, append_batch_internal}', callers == want and not lost,
             'callers: %s%s' % (sorted(set(c.body.short for c in wsites)), ('; ' + '; '.join(lost)) if lost else ''))
    FILE_OPS = {'persistence::WalWriter::write_entry': {'write_all'},
                'persistence::WalWriter::rollback_to_offset': {'set_len', 'seek', 'sync_data'},
                'persistence::WalWriter::perform_fsync': {'flush', 'sync_all', 'sync_data'},
                'persistence::WalWriter::sync': {'flush', 'sync_all'},
                'persistence::WalWriter::sync_async': {'flush', 'try_clone'}}
    seen_ops = {}
    for b in prog.bodies.values():
        if 'persistence' not in b.id and 'hnsw_backend' not in b.id:
            continue
        og = None
        for c in b.calls:
            if not c.args or not c.callee:
                continue
            if not re.search(r'(File|Write>|Seek>|Write|Seek)::(write_all|write|set_len|seek|sync_all|sync_data|flush|try_clone|write_vectored)$', c.callee):
                continue
            og = og or flow.Origin(b)
            e = og.of_operand(c.args[0])
            if any(f.endswith('WalWriter.file') for f in flow.fields_in(e)):
                seen_ops.setdefault(b.short, set()).add(c.callee.split('::')[-1])
    ok = all(fn in FILE_OPS and ops <= FILE_OPS[fn] for fn, ops in seen_ops.items())
    ctx.inst('C01.R2', 'WalWriter.file', 'file operations only in their owner functions', ok and 'persistence::WalWriter::write_entry' in seen_ops,
             'operations on WalWriter.file by function: %s' % {k: sorted(v) for k, v in sorted(seen_ops.items())})

    # ------------------------------------------------------------------ R3 atomic replace
    ctx.rule('C01.R3', 'atomic replace in Snapshot::save and Manifest::save: File::create(tmp) ≺ write_all* ≺ [flush ≺] '
                       'sync_all ≺ rename(tmp→path) ≺ sync_parent_dir ≺ Ok, rename source = the created temp path, '
                       'target = the path argument; sync_parent_dir: File::open(parent) ≺ sync_all ≺ Ok')
    for name in ('Snapshot::save', 'Manifest::save'):
        f = ctx.body('C01.R3', name)
        steps = [util.Step('File::create(tmp)', f, eff.blocks(f, 'file_create')),
                 util.Step('write_all', f, eff.blocks(f, 'write_all'))]
        wcalls = [f.call_at(b) for b in eff.blocks(f, 'write_all')]
        buffered = any(c is not None and 'BufWriter' in (c.callee or '') for c in wcalls)
        if buffered:
            steps.append(util.Step('BufWriter::flush', f, eff.blocks(f, 'flush')))
        steps += [util.Step('sync_all(tmp)', f, eff.blocks(f, 'file_sync')),
                  util.Step('rename', f, eff.blocks(f, 'rename')),
                  util.Step('sync_parent_dir', f, eff.blocks(f, 'sync_parent_dir'))]
        util.check_chain(ctx, 'C01.R3', f, steps)
        o = flow.Origin(f)
        cr = [f.call_at(b) for b in eff.blocks(f, 'file_create')]
        rn = [f.call_at(b) for b in eff.blocks(f, 'rename')]
        if cr and rn:
            src = flow.render(o.of_operand(rn[0].args[0]))
            dst = flow.render(o.of_operand(rn[0].args[1]))
            tmp = flow.render(o.of_operand(cr[0].args[0]))
            ok = (src == tmp) and dst.startswith('arg:path') and 'with_extension' in tmp
            ctx.inst('C01.R3', f.short, 'rename(source = created temp, target = path argument)', ok,
                     'create(%s); rename(%s → %s)' % (tmp, src, dst))
            sp = [f.call_at(b) for b in eff.blocks(f, 'sync_parent_dir')]
            if sp:
                a = flow.render(o.of_operand(sp[0].args[0]))
                ctx.inst('C01.R3', f.short, 'sync_parent_dir(path argument)', a.startswith('arg:path'), 'sync_parent_dir(%s)' % a)
            # the synced handle is the created file
            sy = [f.call_at(b) for b in eff.blocks(f, 'file_sync')]
            if sy:
                a = flow.render(o.of_operand(sy[0].args[0]))
                ctx.inst('C01.R3', f.short, 'sync_all on the created temp file', 'File::create' in a, 'sync receiver: %s' % a)
    sp = ctx.body('C01.R3', 'persistence::sync_parent_dir')
    util.check_chain(ctx, 'C01.R3', sp, [util.Step('File::open(parent)', sp, eff.blocks(sp, 'dir_open')),
                                         util.Step('sync_all(dir)', sp, eff.blocks(sp, 'file_sync'))],
                     exempt_edges=util.option_edges(sp, r'Path::parent\(', 'None'))
    osp = flow.Origin(sp)
    for c in sp.calls_to('std::fs::File::open'):
        a = flow.render(osp.of_operand(c.args[0]))
        ctx.inst('C01.R3', sp.short, 'opens the parent of its argument', 'Path::parent(arg:path)' in a, 'File::open(%s)' % a)

    # ------------------------------------------------------------------ R4 publish before prune
    ctx.rule('C01.R4', 'publish before prune, unlist before unlink, in create_snapshot: Snapshot::save ≺ assign(manifest.latest_snapshot) ≺ '
                       'Manifest::save#1 (pointer, full segment list) ≺ compact_old_wal_segments (decides, prunes the in-memory list) ≺ Manifest::save#2 (pruned list) '
                       '≺ unlink of the covered segments ≺ Ok (the stale-snapshot exit excepted); remove_file sites in hnsw_backend.rs/persistence.rs are exactly '
                       'the stale-snapshot removal and that unlink loop, which runs over the list the compaction returned')
    cs = util.pick(ctx, 'C01.R4', 'HnswBackend::create_snapshot', 'Snapshot::save', 'Manifest::save')
    saves = eff.blocks(cs, 'manifest_save')
    comp = eff.blocks(cs, 'compact_wal')
    if len(saves) < 2 or len(comp) != 1:
        ctx.missing('C01.R4', 'create_snapshot: two Manifest::save calls around one compact_old_wal_segments call (found %d, %d)' % (len(saves), len(comp)))
    else:
        after_comp = cs.reach(comp)
        s1 = [b for b in saves if b not in after_comp]
        s2 = [b for b in saves if b in after_comp]
        stale = []
        ocs = flow.Origin(cs)
        for i, blk in enumerate(cs.blocks):
            if blk['t']['k'] == 'switch':
                for tg, p in flow.switch_edge_predicates(cs, i, ocs):
                    if re.match(r'^cmp\[.*latest_snapshot_wal_seq.*\]$', p) and not p.startswith('!'):
                        stale.append((i, tg, p))
        stale_edges = [(i, tg) for i, tg, p in stale]
        util.check_chain(ctx, 'C01.R4', cs, [
            util.Step('Snapshot::save', cs, eff.blocks(cs, 'snapshot_save')),
            util.Step('assign manifest.latest_snapshot', cs, util.assign_blocks(cs, r'Manifest\.latest_snapshot$'), is_call=False),
            util.Step('Manifest::save#1', cs, s1),
            util.Step('compact_old_wal_segments', cs, comp),
            util.Step('Manifest::save#2', cs, s2),
        ], exempt_edges=stale_edges)
        ctx.inst('C01.R4', cs.short, 'stale-snapshot guard present', len(stale) >= 1,
                 'guard edges: %s' % [p for _, _, p in stale])
    rm_sites = []
    for c in prog.callers_of('std::fs::remove_file', 'std::fs::remove_dir_all', 'std::fs::remove_dir'):
        if re.search(r'engine/src/(hnsw_backend|persistence)\.rs', c.loc):
            rm_sites.append(c.body.short.split('::{')[0])
    ctx.inst('C01.R4', 'remove_file inventory', 'unlink sites = {create_snapshot: stale snapshot file, covered segments}',
             sorted(set(rm_sites)) == ['hnsw_backend::HnswBackend::create_snapshot'] and len(rm_sites) == 2, 'sites: %s' % sorted(rm_sites))
    # unlist before unlink: a log segment is deleted only after the MANIFEST that no longer lists it is on disk. Deleting first leaves, after a process kill in
    # between, a MANIFEST that lists a missing segment — and strict recovery refuses that at every later start-up
    if len(saves) >= 2 and len(comp) == 1:
        ocs2 = flow.Origin(cs, stop_at_vars=True)
        seg_rm = []
        for c in cs.calls_to('std::fs::remove_file'):
            h_ = [h for h in cs.calls if h.callee and h.is_('re:Iterator>::next$') and cs.dominates(h.bb, c.bb) and h.bb in cs.reach([c.bb])]
            if h_:
                seg_rm.append((c, util.loop_source(cs, h_[-1])))
        comp_call = cs.call_at(comp[0])
        lst = flow.render(ocs2.of_local(cs.var_local('covered_segments')[0])) if cs.var_local('covered_segments') else '?'
        s2_succ = []
        for b_ in s2:
            s2_succ += flow.success_edges(cs, cs.call_at(b_)) or []
        ok_rm = bool(seg_rm) and bool(s2_succ) and all(c.bb not in cs.reach([0], avoid_edges=s2_succ) for c, _ in seg_rm)
        ctx.inst('C01.R4', cs.short, 'segments are unlinked only after the MANIFEST without them was saved', ok_rm,
                 '%d unlink loop(s) over %s; behind the success edge of Manifest::save#2: %s' % (len(seg_rm), [s_[:60] for _, s_ in seg_rm], ok_rm))
        full_src = [flow.render(flow.Origin(cs).of_local(cs.var_local(re.sub(r'^.*var:(\w+).*$', r'\1', s_))[0])) if re.search(r'var:\w+', s_) and cs.var_local(re.sub(r'^.*var:(\w+).*$', r'\1', s_)) else s_ for _, s_ in seg_rm]
        ctx.inst('C01.R4', cs.short, 'what is unlinked is the list the compaction returned', bool(full_src) and all('HnswBackend::compact_old_wal_segments(' in x for x in full_src),
                 'unlink loop source: %s' % [x[:110] for x in full_src])
    cc = sorted(set(c.body.short for c in prog.callers_of('HnswBackend::compact_old_wal_segments')))
    ctx.inst('C01.R4', 'compact_old_wal_segments', 'called only from create_snapshot', cc == [cs.short], 'callers: %s' % cc)

    # ------------------------------------------------------------------ R5 list before use
    ctx.rule('C01.R5', 'list before use: rotate_wal_if_needed: create_with_error_handler ≺ Manifest::save ≺ assign(*wal_guard); '
                       'constructors: create_with_error_handler ≺ Manifest::save ≺ PersistenceState{..} ≺ Ok; '
                       'create_with_error_handler: write_all(magic) ≺ sync_data ≺ Ok')
    rotation_publish_order(ctx, prog, eff, 'C01.R5')
    # the true return (rotated) only after the assignment
    for name in ('HnswBackend::with_persistence_with_hnsw_params', 'HnswBackend::recover_with_hnsw_params_and_mode'):
        f = ctx.body('C01.R5', name)
        util.check_chain(ctx, 'C01.R5', f, [
            util.Step('WalWriter::create', f, eff.blocks(f, 'wal_create')),
            util.Step('Manifest::save', f, eff.blocks(f, 'manifest_save')),
            util.Step('PersistenceState{..}', f, util.agg_blocks(f, r'PersistenceState$'), is_call=False),
        ], no_reorder=False)
    cw = ctx.body('C01.R5', 'WalWriter::create_with_error_handler')
    util.check_chain(ctx, 'C01.R5', cw, [
        util.Step('write_all(magic)', cw, eff.blocks(cw, 'write_all')),
        util.Step('sync_data', cw, eff.blocks(cw, 'file_sync')),
    ])

    # ------------------------------------------------------------------ R6 start-up decision
    ctx.rule('C01.R6', 'start-up decision in the server: an empty engine is created only when recovery is not attempted '
                       '(¬(enable_recovery ∧ MANIFEST exists)), or after TieredEngine::recover failed AND '
                       'allow_fresh_start_on_recovery_failure AND the old directory was quarantined (rename succeeded) or '
                       'does not exist; otherwise a failed recovery reaches only an Err return')
    mfam = prog.family(ctx.body('C01.R6', 'kyrodb_server::main'))
    mbs = [b for b in mfam if b.calls_to('TieredEngine::recover')]
    if not mbs:
        ctx.missing('C01.R6', 'main: call of TieredEngine::recover')
    else:
        m = mbs[0]
        new_closures = [b.id for b in mfam if b.calls_to('TieredEngine::new')]
        new_blocks = set()
        for c in m.calls:
            if c.is_('TieredEngine::new') or any(g in new_closures for g in c.gc):
                new_blocks.add(c.bb)
        rec = m.calls_to('TieredEngine::recover')
        s_e, f_e = [], []
        for c in rec:
            s2, f2 = flow.outcome_edges(m, c)
            s_e += s2 or []
            f_e += f2 or []
        ren = []
        for c in m.calls_to('std::fs::rename'):
            ren += flow.success_edges(m, c)
        atoms = [pathsens.Atom('attempt', r'^bool\[.*Path::exists\(.*"MANIFEST".*\)'),
                 pathsens.Atom('fresh_allowed', r'^bool\[.*PersistenceConfig\.allow_fresh_start_on_recovery_failure\]$'),
                 pathsens.Atom('dir_exists', r'^bool\[Path::exists\((?!.*MANIFEST).*data_dir.*\)\]$'),
                 pathsens.Atom('recovery_enabled', r'^bool\[.*PersistenceConfig\.enable_recovery\]$'),
                 # the data directory still holds snapshot / log files (derived from read_dir(data_dir)): a lost MANIFEST, not a fresh directory
                 pathsens.Atom('orphaned', r'^bool\[Result::unwrap_or\(Result::map\(fs::read_dir\(.*PersistenceConfig\.data_dir.*\), closure:.*\), (0|false)\)\]$'),
                 # the same probe written as a match: `match read_dir(data_dir) { Ok(entries) => entries.flatten().any(..), Err(_) => false }` — the switch on the flag
                 # renders as the Ok arm's value; on the Err arm the flag is the constant the arm assigns, which the explorer propagates to that switch (a constant
                 # `false` takes the ¬orphaned edge as unwrap_or(false) does, a constant `true` the refusing one)
                 pathsens.Atom('orphaned', r'^bool\[Iterator::any\(Iterator::flatten\(fs::read_dir\(.*PersistenceConfig\.data_dir.*\)@Ok→Ok\.0\), closure:.*\)\]$')]
        drop_unsound_threading(m)
        terms, seen = pathsens.explore(m, atoms, mark_edges={'recover_ok': set(s_e), 'recover_err': set(f_e), 'quarantined': set(ren)},
                                       stop_blocks=new_blocks, max_states=400000)
        arrivals = [t for t in terms if t[0] in new_blocks]
        ctx.floor('C01.R6', 'call sites creating an empty engine in main', len(new_blocks), 2, '2 on the pinned tree (fallback after failed recovery, no-recovery branch)')
        for nm in ('attempt', 'fresh_allowed', 'dir_exists'):
            if not seen.get(nm):
                ctx.inst('C01.R6', 'kyrodb_server::main', 'atom ' + nm, False, 'anchor missing: guard %s not recognised in main' % nm, nontrivial=False)
        if not f_e:
            ctx.missing('C01.R6', 'main: Err arm of TieredEngine::recover')
        bad = []
        for (bb, via, a, path) in arrivals:
            # recovery not attempted = ¬(enable_recovery ∧ MANIFEST exists): the conjunction tested false as a whole (named bool), or — when the condition is
            # tested in place — its first conjunct false (the MANIFEST test is then never evaluated), or the second
            good = (a.get('attempt') is False) or (a.get('recovery_enabled') is False and not a.get('recover_ok') and not a.get('recover_err')) or \
                   (a.get('recover_err') and a.get('fresh_allowed') is True and (a.get('quarantined') or a.get('dir_exists') is False))
            if not good:
                bad.append((bb, a, path))
        # with recovery enabled, "no MANIFEST" means a fresh directory only if no snapshot / log file is there: otherwise the MANIFEST was lost and starting empty
        # silently drops what those files hold (C13: a removed file must lead to a refusal)
        lost = [(bb, a, path) for (bb, via, a, path) in arrivals if a.get('attempt') is False and a.get('recovery_enabled') is True and a.get('orphaned') is not False]
        ctx.inst('C01.R6', 'kyrodb_server::main', 'no empty engine over a data directory whose MANIFEST is missing but whose snapshot / log files are there',
                 bool(seen.get('orphaned')) and bool(seen.get('recovery_enabled')) and not lost,
                 ('an empty engine is created at %s with recovery enabled, no MANIFEST, and the directory not known to be free of snapshot / log files: %s' % (m.loc_of(lost[0][0]), lost[0][1])) if lost
                 else ('guard not recognised (read_dir(data_dir) test / enable_recovery)' if not (seen.get('orphaned') and seen.get('recovery_enabled')) else 'every such arrival passed the ¬orphaned edge'))
        ctx.inst('C01.R6', 'kyrodb_server::main', 'empty engine only when recovery is skipped or explicitly abandoned', not bad,
                 ('an empty engine is created at %s with guards %s' % (m.loc_of(bad[0][0]), bad[0][1])) if bad else
                 '%d abstract arrivals at %d creation sites, all guarded' % (len(arrivals), len(new_blocks)),
                 witness=rt.path_witness(m, [b for b in bad[0][2] if m.blocks[b]['t']['k'] in ('switch', 'call')][-30:]) if bad else None)
        # the fail-fast edge reaches only an Err return
        ff = []
        om = flow.Origin(m)
        for i, blk in enumerate(m.blocks):
            if blk['t']['k'] == 'switch':
                for tg, p in flow.switch_edge_predicates(m, i, om):
                    if re.match(r'^!bool\[.*allow_fresh_start_on_recovery_failure\]$', p):
                        ff.append((i, tg))
        after_rec_fail = m.reach([e[1] for e in f_e]) | set(e[1] for e in f_e)
        ff = [e for e in ff if e[0] in after_rec_fail]
        if not ff:
            ctx.missing('C01.R6', 'main: ¬allow_fresh_start edge after a failed recovery')
        else:
            errs = flow.err_blocks(m)
            r = m.reach([e[1] for e in ff], avoid_blocks=errs) | set(e[1] for e in ff if e[1] not in errs)
            escapes = [x for x in r if x in new_blocks or m.blocks[x]['t']['k'] == 'return'
                       or (m.call_at(x) is not None and m.call_at(x).is_('alloc::sync::Arc::new', 'TieredEngine::set_access_logger'))]
            ctx.inst('C01.R6', 'kyrodb_server::main', 'failed recovery without permission ⇒ only Err return', not escapes,
                     'from the ¬allow_fresh_start edge, execution can continue to %s' % [m.loc_of(x) for x in escapes[:3]] if escapes
                     else 'the fail-fast edge reaches only an Err return')

    # ------------------------------------------------------------------ R7 no swallowed protocol error
    ctx.rule('C01.R7', 'results of protocol calls (append*, Manifest::load/save, Snapshot::save, sync*, rename, set_len, '
                       'rollback*, perform_fsync, write_entry, WalWriter::create*) are propagated or abort the operation; '
                       'never logged-only / discarded outside the exception table')
    PROTO = ['WalWriter::append', 'WalWriter::append_batch', 'WalWriter::append_internal', 'WalWriter::append_batch_internal',
             'WalWriter::append_internal_with_rollback', 'WalWriter::append_batch_internal_with_rollback',
             'WalWriter::write_entry', 'WalWriter::perform_fsync', 'WalWriter::rollback_to_offset',
             'WalWriter::rollback_to_stable_state', 'WalWriter::sync', 'WalErrorHandler::write_with_retry',
             'Manifest::save', 'Manifest::load', 'Snapshot::save', 'persistence::sync_parent_dir', 'std::fs::rename',
             'std::fs::File::sync_all', 'std::fs::File::sync_data', 'std::fs::File::set_len',
             'WalWriter::create_with_error_handler', 'WalWriter::create', 'HnswBackend::compact_old_wal_segments',
             'PersistenceState::rotate_wal_if_needed', 'HnswBackend::create_snapshot']
    EXC = {
        'PersistenceState::rotate_wal_if_needed': ('continues', 'a failed rotation leaves the current, MANIFEST-listed segment in use; the operation is already logged'),
        'HnswBackend::create_snapshot': ('continues', 'automatic snapshot after a committed operation: the log already holds the operation'),
    }
    counts = {}
    for c in prog.all_calls():
        if not c.callee or not c.is_(*PROTO):
            continue
        if not re.search(r'engine/src/(persistence|hnsw_backend|tiered_engine)\.rs', c.loc):
            continue
        if c.body.kind == 'Promoted':
            continue
        n_sites += 1
        use = util.result_use(c.body, c)
        callee_s = flow.short(c.callee)
        counts[(callee_s, use)] = counts.get((callee_s, use), 0) + 1
        ok = use in ('propagated', 'returned')
        exc = None
        for k, (allowed, why) in EXC.items():
            if c.is_(k) and use == allowed and ('hnsw_backend::' + c.body.short.split('hnsw_backend::')[-1]) in ['hnsw_backend::' + x for x in MUTATORS]:
                # only inside a mutator and only after its own append succeeded (or persistence is off)
                A_ = eff.success_edges(c.body, eff.blocks(c.body, 'wal_append'))
                N_ = util.option_edges(c.body, r'HnswBackend\.persistence$', 'None')
                if c.bb not in c.body.reach([0], avoid_edges=set(A_) | set(N_)):
                    exc = (k, why)
        if exc:
            ctx.exception('C01.R7', exc[0], exc[1])
            ok = True
        # index per (function, callee) to keep keys line-free but distinct
        idx = sum(1 for i in ctx.instances if i['rule'] == 'C01.R7' and i['key'].startswith('C01.R7 | %s | %s ' % (c.body.short, callee_s)))
        ctx.inst('C01.R7', c.body.short, '%s #%d' % (callee_s, idx), ok,
                 'result of %s at %s is %s%s' % (callee_s, c.loc, use, (' (exception: %s)' % exc[1]) if exc else ''),
                 nontrivial=True)
    ctx.floor('C01.R7', 'protocol call sites classified', n_sites, 45, 'measured on the pinned tree')
    ctx.extra['result_consumption_table'] = {'%s: %s' % k: v for k, v in sorted(counts.items())}
    n_exc = sum(v for (k, u), v in counts.items() if u == 'continues')
    ctx.stat('logged_only_sites', n_exc)
    ctx.stat('call_sites_checked', n_sites)
    ctx.stat('functions_analysed', len(set(i['key'].split(' | ')[1] for i in ctx.instances)))

    # ------------------------------------------------------------------ R8 numbering after a restart
    ctx.rule('C01.R8', 'a write acknowledged after a restart is numbered above everything the newest snapshot covers: next_wal_seq of the '
                       'recovered backend = max(snapshot.last_wal_seq, every logged seq) + 1 (otherwise the following restart skips the '
                       'acknowledged entry as covered); same rule as C02.R1')
    _c02.seq_continuation(ctx, prog, 'C01.R8')

    # ------------------------------------------------------------------ R9 the segment list is never lost
    ctx.rule('C01.R9', 'every MANIFEST save after construction writes back a manifest loaded in the same manifest_lock critical section (same rule as '
                       'C09.R3): otherwise a rotation that lists a new segment between the load and the save is overwritten, and the acknowledged writes '
                       'appended to that segment are never replayed')
    _c09.manifest_rmw(ctx, prog, 'C01.R9', lm)

    # ------------------------------------------------------------------ R10 a torn tail stays tolerated at every later start-up
    ctx.rule('C01.R10', 'a frame cut short by a crash is tolerated at EVERY later start-up, not only the first: each start-up appends a new segment to the MANIFEST, '
                        'so the torn segment soon is no longer the last one, and nothing on disk tells a torn tail from a truncation (segments are not sealed). '
                        'Therefore no refusal of recover() may depend on state that WalReader::read_all records on its end-of-file exits (today it records '
                        'none). The opposite demand of C13 (refuse a truncated non-newest segment) is listed there as a known finding for exactly this reason')
    ra = ctx.body('C01.R10', 'WalReader::read_all')
    rec10 = ctx.body('C01.R10', 'HnswBackend::recover_with_hnsw_params_and_mode')
    if ra is not None and rec10 is not None:
        rav = flow.Origin(ra, stop_at_vars=True)
        eof = [(i, tg) for i, blk in enumerate(ra.blocks) if blk['t']['k'] == 'switch' and i in ra.live_blocks() for tg, p in flow.switch_edge_predicates(ra, i, rav)
               if re.match(r'^eq\[.*ErrorKind::UnexpectedEof.*\]$', p)]
        ctx.floor('C01.R10', 'end-of-file exits of read_all', len(eof), 3, 'size header, payload, checksum')
        fields = set()
        for i, tg in eof:
            region = ra.reach([tg]) | {tg}
            # state written after an EOF edge and before the function returns, that is not also written on the non-EOF continuation of the same frame
            for x in region:
                for st in ra.blocks[x]['s']:
                    if 'rv' in st and st['pl'].get('p'):
                        fs = [y for y in st['pl']['p'] if isinstance(y, str) and y != '*']
                        if fs and re.search(r'WalReader\.\w+$', fs[-1]) and ra.dominates(tg, x):
                            fields.add(fs[-1].split('.')[-1])
        acc = {}
        for b in prog.bodies.values():
            if '::WalReader::' in b.id and b.kind in ('Fn', 'AssocFn'):
                r_ = flow.render(flow.Origin(b).of_local(0))
                m_ = re.match(r'^arg:self→WalReader\.(\w+)$', r_)
                if m_ and m_.group(1) in fields:
                    acc[b.name] = m_.group(1)
        bad = []
        if fields:
            rv10 = flow.Origin(rec10, stop_at_vars=True)
            errs = flow.err_blocks(rec10)
            for i, blk in enumerate(rec10.blocks):
                if blk['t']['k'] != 'switch' or i not in rec10.live_blocks():
                    continue
                for tg, p in flow.switch_edge_predicates(rec10, i, rv10):
                    if any(('WalReader::%s(' % a) in p for a in acc) or any(('WalReader.%s' % f_) in p for f_ in fields):
                        # is some refusal control-dependent on this edge (reachable through it, unreachable without it)? — also as one conjunct of a condition
                        r_wo = rec10.reach([0], avoid_edges=[(i, tg)]) | {0}
                        dep = [e_ for e_ in errs if e_ in (rec10.reach([tg]) | {tg}) and e_ not in r_wo]
                        if dep:
                            bad.append('%s at %s' % (p[:80], rec10.loc_of(i)))
        ctx.inst('C01.R10', rec10.short, 'no refusal depends on end-of-file state of the frame reader', not bad,
                 ('read_all records %s on an end-of-file exit and recovery refuses on it (%s): the first start-up after a torn append succeeds, every later one fails '
                  'because the torn segment is no longer the last listed' % (sorted(fields), bad[0])) if bad else
                 'fields written on end-of-file exits: %s; refusing tests on them: none' % (sorted(fields) or 'none'))
    # ------------------------------------------------------------------ R11 what a snapshot covers is in it
    ctx.rule('C01.R11', 'a snapshot covers sequence numbers up to next_wal_seq − 1 and recovery skips them: every number allocated must already be applied in memory when the '
                        'snapshotter reads (seq, store) — writers hold the snapshot lock (shared) from the allocation to the in-memory apply, the snapshotter holds it '
                        'exclusively (same analysis as C09.R1 / C09.R2). Otherwise an acknowledged delete comes back, or an acknowledged insert is gone, after the crash')
    from rules import C09 as _C09
    from kvstatic.locks import LockModel as _LM11
    lm11 = _LM11(prog)
    n11 = _C09.alloc_to_apply(ctx, prog, lm11, 'C01.R11')
    ctx.floor('C01.R11', 'next_wal_seq.fetch_add sites', n11, 5, 'insert ×2, delete, update_metadata, batch_delete')
    # ------------------------------------------------------------------ R12 the snapshot claims no number that is still to be handed out
    ctx.rule('C01.R12', 'an acknowledged write is never numbered at or below what a snapshot already claims, and never shares its number with another entry (same rule as '
                        'C02.R9): fetch_add(n) numbers exactly n entries, with the returned pre-increment value, so the counter is the NEXT number; create_snapshot records '
                        'next_wal_seq.load() − c, c ≥ 1, in the snapshot, the MANIFEST and the compaction boundary. Otherwise the write acknowledged right after a snapshot is '
                        'skipped as "covered" at the next start-up')
    n12 = _c02.seq_accounting(ctx, prog, 'C01.R12')
    ctx.floor('C01.R12', 'next_wal_seq.fetch_add sites', n12, 5, 'insert ×2, delete, update_metadata, batch_delete')
    # ------------------------------------------------------------------ R13 the configured policy is the policy that runs
    ctx.rule('C01.R13', 'the configured fsync policy is the one the log writer runs (R2 decides what each engine policy does; this decides which one a configuration value '
                        'becomes): in the server\'s main the switch on persistence.fsync_policy handles every variant explicitly; on the edge `full` (fsync every write) the '
                        'only engine policy built is FsyncPolicy::Always, unconditionally; on the edge `data_only` the only one is FsyncPolicy::Periodic carrying the '
                        'configured wal_flush_interval_ms')
    policy_mapping(ctx, prog, 'C01.R13')
    # ------------------------------------------------------------------ R14 periodic policy: somebody syncs what the appends left unsynced
    ctx.rule('C01.R14', 'periodic-fsync clause (F19): under FsyncPolicy::Periodic an append syncs only when the previous sync is an interval old (R2), so (a) '
                        'rotate_wal_if_needed reaches the switch of the active writer, on every path the Periodic policy can take, only across the success edge of a '
                        'file sync of the outgoing writer; (b) a background ticker (a loop around tokio Interval::tick) in the server\'s main and in '
                        'TieredEngine::spawn_flush_task cannot come back to its tick under the Periodic policy without calling HnswBackend::sync_wal; (c) sync_wal '
                        'returns Ok only past a successful file sync of the log unless persistence is off. Not decided: that the ticker\'s period is the configured interval')
    periodic_sync(ctx, prog, eff, 'C01.R14')
    # ------------------------------------------------------------------ R15 = C02.R6 the log carries what was applied and acknowledged
    ctx.rule('C01.R15', 'post-image agreement (= C02.R6, shared function): the recovered collection equals the acknowledged history only if each mutator logs exactly what it '
                        'installs in memory — update_metadata logs the map it assigns (the merged map, not the caller\'s delta; replay is a full replacement), insert logs '
                        'the vector and metadata it pushes, taken after the last in-place change')
    _c02.post_image_agreement(ctx, prog, 'C01.R15', ctx.body('C01.R15', 'HnswBackend::recover_with_hnsw_params_and_mode'))
    # ------------------------------------------------------------------ R16 what start-up takes for a database without MANIFEST
    ctx.rule('C01.R16', 'start-up without MANIFEST (F18, F20; = C13.R10): the scan of the data directory recognises both file families the engine writes (snapshot_*.snap, '
                        'wal_*.wal — names taken from the writer side), so a lost MANIFEST is not mistaken for a fresh directory; and a log segment that holds only its '
                        'header (its length compared with the header length WalWriter::create starts from) does not count, because the first start-up creates its '
                        'segment before it publishes the MANIFEST and a kill in between must not leave a directory the next start-up refuses')
    orphan_scan(ctx, prog, 'C01.R16')
    ctx.stat('functions_analysed', len(set(i['key'].split(' | ')[1] for i in ctx.instances)))
