"""C02 — restart is lossless.

Decided statically: necessary structural facts — sequence continuation, the replay-skip and compaction
"covered" predicates imply `entry seq ≤ snapshot seq`, the active log segment is never unlinked and every
non-unlinked segment stays listed, the writer's and the reader's operation tables agree, tombstone
compaction rebuilds from live documents only, every sequence number numbers one entry and the snapshot claims only numbers already handed out,
the initial documents are snapshotted before the constructor returns, and a new segment is named by a fresh sub-millisecond id.  Equality of recovered and live state over histories × configurations
and floating-point idempotence of normalisation are not decided.
"""
import re

from kvstatic import flow, rt, util

MANIFEST = {
    'text': 'Decides structural facts each of which is a necessary condition of lossless restart: the recovered '
            'sequence counter continues from max(snapshot seq, every replayed or skipped entry seq)+1; every skip of a log '
            'entry at replay and every "covered" verdict in log compaction is established by a comparison that implies '
            'entry seq ≤ snapshot seq; the active segment is never unlinked and kept segments stay listed; writer and '
            'reader operation tables agree variant by variant; tombstone compaction copies live documents only; fetch_add(n) numbers exactly n '
            'entries and create_snapshot records next_wal_seq − c, c ≥ 1; with_persistence returns Ok only after the baseline snapshot unless the '
            'backend is empty; segment names come from file_id() read in microseconds or finer. '
            'It decides these parts, not equality of recovered and live state.',
    'design_ref': 'DESIGN.md §4.2',
    'note': 'Trusted base: rustc MIR, integer normal form of comparisons (strict/non-strict, ±1), origin tracing '
            'through user variables. Histories × configurations and float idempotence are not decided.',
    'technique': 'guard normal-form implication, def-use origin checks and variant-table agreement on MIR',
}

EXPLANATION = (
    'FLOW/GUARD/TABLE rules of DESIGN §4.2 on promoted MIR. Comparisons are normalised over integers '
    '(`a ≤ b`, `!(a > b)`, `a < b+1` are one form); a skip/covered edge is accepted when its predicate is '
    '`entry.seq_no − snapshot_seq ≤ c` with c ≤ 0 or `= 0` (deliberately also the stricter forms, so safe edits stay silent).')

SEQ_COVERED = r'^cmp\[\+ var:entry→WalEntry\.seq_no - (?:var|arg):snapshot_last_wal_seq (<= (0|-\d+)|== 0)\]$'
TS_COVERED = r'^cmp\[\+ var:entry→WalEntry\.timestamp - (?:var|arg):snapshot_timestamp (<= (0|-\d+)|== 0)\]$'


def switches(body, origin):
    for i, blk in enumerate(body.blocks):
        if blk['t']['k'] == 'switch' and i in body.live_blocks():
            yield i, flow.switch_edge_predicates(body, i, origin)


def edges_matching(body, origin, rx):
    r = re.compile(rx)
    out = []
    for i, preds in switches(body, origin):
        for tg, p in preds:
            if r.search(p):
                out.append((i, tg, p))
    return out


def seq_continuation(ctx, prog, rid):
    """sequence continuation after recovery (C02.R1; shared with C01.R8: a write acknowledged after a restart must not be numbered at or
    below the snapshot's sequence, or the next restart skips it as covered)."""
    rec = ctx.body(rid, 'HnswBackend::recover_with_hnsw_params_and_mode')
    if rec is None:
        return
    # roles, found structurally (a rename of these locals in /repo changes nothing here)
    util.bind_role(rec, 'max_wal_seq', type_rx=r'^u64$', used_as=(r'num::(saturating|wrapping|checked)_add$', 0), origin_rx=r'WalEntry\.seq_no', full=True)
    util.bind_role(rec, 'snapshot_last_wal_seq', type_rx=r'^u64$', origin_rx=r'^phi\(0 \| Snapshot::load_with_validation\(.*→Snapshot\.last_wal_seq\)$', full=True)
    util.bind_role(rec, 'entry', type_rx=r'persistence::WalEntry$', origin_rx=r'Iterator>::next\(')
    ov = flow.Origin(rec, stop_at_vars=True)
    of = flow.Origin(rec)
    # ------------------------------------------------------------------ R1 sequence continuation
    ctx.rule(rid, 'sequence continuation: next_wal_seq of the recovered backend = max_wal_seq + 1; max_wal_seq takes '
                       'snapshot.last_wal_seq and every entry.seq_no, the latter before the replay-skip decision (skipped '
                       'entries still raise the maximum)')
    agg = None
    for i, blk in enumerate(rec.blocks):
        for s in blk['s']:
            rv = s.get('rv')
            if rv and rv['k'] == 'agg' and rv.get('adt', '').endswith('PersistenceState') and 'next_wal_seq' in (rv.get('fields') or []):
                agg = rv
    if agg is None:
        ctx.missing(rid, 'recovery: PersistenceState{next_wal_seq: ..}')
    else:
        r = flow.render(ov.of_operand(agg['ops'][agg['fields'].index('next_wal_seq')]))
        ok = bool(re.search(r'Atomic::new\((num::saturating_add\(var:max_wal_seq, 1\)|\(var:max_wal_seq Add(WithOverflow)? 1\)(\.0)?|num::wrapping_add\(var:max_wal_seq, 1\))\)', r))
        ctx.inst(rid, rec.short, 'next_wal_seq = max_wal_seq + 1', ok, 'next_wal_seq: %s' % r)
        ml = rec.var_local('max_wal_seq')
        if not ml:
            ctx.missing(rid, 'recovery: variable max_wal_seq')
        else:
            full = flow.render(of.of_local(ml[0]))
            ctx.inst(rid, rec.short, 'max_wal_seq reaches from snapshot.last_wal_seq and entry.seq_no',
                     'Snapshot.last_wal_seq' in full and 'WalEntry.seq_no' in full, 'origins: %s' % full[:400])
            sl = rec.var_local('snapshot_last_wal_seq')
            slo = flow.render(of.of_local(sl[0])) if len(sl) == 1 else '?'
            ctx.inst(rid, rec.short, 'the replay skip boundary is the last_wal_seq of the snapshot actually loaded (0 without a snapshot), never a MANIFEST field',
                     bool(re.match(r'^phi\(0 \| Snapshot::load_with_validation\(.*\)@Ok→Ok\.0\.0→Snapshot\.last_wal_seq\)$', slo)) and 'latest_snapshot_wal_seq' not in slo,
                     'snapshot_last_wal_seq = %s' % (slo[:60] + ' … ' + slo[-60:]))
            raise_sw = edges_matching(rec, ov, r'^cmp\[\+ var:entry→WalEntry\.seq_no - var:max_wal_seq >= 1\]$')
            skip_sw = edges_matching(rec, ov, SEQ_COVERED)
            # the other idiom: max_wal_seq = max_wal_seq.max(entry.seq_no) — an unconditional assignment that must come before the skip decision
            max_asg = [d for d in rec.defs.get(ml[0], []) if d[2] in ('call', 'pcall') and d[3].callee and re.search(r'Ord::max$|cmp::max$', flow.short(d[3].callee)) and
                       sorted(flow.render(ov.of_operand(a)) for a in d[3].args) == ['var:entry→WalEntry.seq_no', 'var:max_wal_seq']]
            max_asg += [d for d in rec.defs.get(ml[0], []) if d[2] == 'assign' and re.match(
                r'^(Ord::max|cmp::max)\((var:max_wal_seq, var:entry→WalEntry\.seq_no|var:entry→WalEntry\.seq_no, var:max_wal_seq)\)$', flow.render(ov.of_rvalue(d[3]['rv'], 0, frozenset({-1}))))]
            if max_asg and skip_sw and not raise_sw:
                ok = all(rec.dominates(max_asg[0][0], s_[0]) for s_ in skip_sw)
                ctx.inst(rid, rec.short, 'maximum raised before the skip decision', ok,
                         'max_wal_seq = max(max_wal_seq, entry.seq_no) at %s dominates skip guard(s) at %s: %s' % (rec.loc_of(max_asg[0][0]), [rec.loc_of(s_[0]) for s_ in skip_sw], ok))
            elif not raise_sw or not skip_sw:
                ctx.missing(rid, 'recovery: guard entry.seq_no > max_wal_seq and the replay-skip guard')
            else:
                rs = raise_sw[0][0]
                ok = all(rec.dominates(rs, s[0]) for s in skip_sw)
                # the raising assignment is on the true edge
                asg = [d for d in rec.defs.get(ml[0], []) if d[2] == 'assign' and 'WalEntry.seq_no' in flow.render(ov.of_rvalue(d[3]['rv'], 0, frozenset()))]
                ok2 = bool(asg) and all(a[0] in (rec.reach([raise_sw[0][1]]) | {raise_sw[0][1]}) for a in asg)
                ctx.inst(rid, rec.short, 'maximum raised before the skip decision', ok and ok2,
                         'raise guard at %s dominates skip guard(s) at %s: %s; assignment on its true edge: %s' % (
                             rec.loc_of(rs), [rec.loc_of(s[0]) for s in skip_sw], ok, ok2))



WRITERS = ['HnswBackend::insert', 'HnswBackend::delete', 'HnswBackend::update_metadata', 'HnswBackend::batch_delete']


def _is_seq_counter(e):
    return any(f.endswith('PersistenceState.next_wal_seq') for f in flow.fields_in(e))


def _minus_const(e):
    """(base, c) when the origin tree `e` is `base − c` for an integer constant c (saturating / wrapping / checked-with-default / plain subtraction), (e, 0) otherwise."""
    t = e[0]
    if t == 'cast':
        return _minus_const(e[1])
    if t == 'field' and e[2] == '.0' and e[1][0] == 'bin' and e[1][1].endswith('WithOverflow'):
        return _minus_const(e[1])
    if t == 'bin' and e[1] in ('Sub', 'SubWithOverflow', 'SubUnchecked') and e[3][0] == 'const' and e[3][2] is not None:
        b, c = _minus_const(e[2])
        return b, c + e[3][2]
    if t == 'bin' and e[1] in ('Add', 'AddWithOverflow', 'AddUnchecked') and e[3][0] == 'const' and e[3][2] is not None:
        b, c = _minus_const(e[2])
        return b, c - e[3][2]
    if t == 'call' and re.search(r'num::(saturating|wrapping|unchecked)_sub$', flow.short(e[1])) and len(e[2]) == 2 and e[2][1][0] == 'const' and e[2][1][2] is not None:
        b, c = _minus_const(e[2][0])
        return b, c + e[2][1][2]
    if t == 'call' and re.search(r'num::(saturating|wrapping|unchecked)_add$', flow.short(e[1])) and len(e[2]) == 2 and e[2][1][0] == 'const' and e[2][1][2] is not None:
        b, c = _minus_const(e[2][0])
        return b, c - e[2][1][2]
    if t == 'call' and flow.short(e[1]).endswith('Option::unwrap_or') and len(e[2]) == 2 and e[2][1][0] == 'const' and e[2][0][0] == 'call' \
            and re.search(r'num::checked_sub$', flow.short(e[2][0][1])) and e[2][0][2][1][0] == 'const' and e[2][0][2][1][2] is not None:
        b, c = _minus_const(e[2][0][2][0])
        return b, c + e[2][0][2][1][2]
    return e, 0


_FN_CALL = r'ops::function::Fn(Once|Mut)?::call(_once|_mut)?$'


def _entry_numberings(b, o):
    """Every place of body `b` where a log entry gets its number: the seq_no operand of a WalEntry{..} aggregate, or an assignment to <entry>.seq_no.
    -> [(kind, block, origin tree of the number, origin of the assigned entry | None, loc)]"""
    numberings = []
    for i, blk in enumerate(b.blocks):
        if i not in b.live_blocks():
            continue
        for st in blk['s']:
            rv = st.get('rv')
            if rv and rv['k'] == 'agg' and rv.get('adt', '').endswith('persistence::WalEntry') and 'seq_no' in (rv.get('fields') or []):
                numberings.append(('agg', i, o.of_operand(rv['ops'][rv['fields'].index('seq_no')]), None, st.get('loc', b.loc_of(i))))
            elif rv and st['pl'].get('p'):
                fs = [x for x in st['pl']['p'] if isinstance(x, str) and x != '*']
                if fs and fs[-1].endswith('persistence::WalEntry.seq_no'):
                    numberings.append(('assign', i, o.of_rvalue(rv, 0, frozenset()), o.of_local(st['pl']['l']), st.get('loc', b.loc_of(i))))
    return numberings


def _subst_closure(t, params, caps):
    """An origin tree of a closure body re-expressed at a call site of the closure: parameter k (local k ≥ 2) becomes component k−2 of the argument tuple,
    capture i (`(*_1).^i`) becomes operand i of the closure aggregate."""
    k = t[0]
    if k == 'arg':
        return params.get(t[1], t)
    if k == 'field' and isinstance(t[2], str) and t[2].startswith('^') and t[1][0] == 'arg' and t[1][1] == 1:
        m_ = re.match(r'^\^(\d+)', t[2])
        return caps[int(m_.group(1))] if m_ and int(m_.group(1)) < len(caps) else t
    if k in ('field', 'index', 'downcast', 'cast', 'set', 'discr'):
        return (k, _subst_closure(t[1], params, caps)) + tuple(t[2:])
    if k == 'call':
        return (k, t[1], [_subst_closure(a, params, caps) for a in t[2]]) + tuple(t[3:])
    if k == 'bin':
        return (k, t[1], _subst_closure(t[2], params, caps), _subst_closure(t[3], params, caps))
    if k == 'un':
        return (k, t[1], _subst_closure(t[2], params, caps))
    if k == 'agg':
        return (k, t[1], [_subst_closure(a, params, caps) for a in t[2]]) + tuple(t[3:])
    if k == 'phi':
        return (k, [_subst_closure(a, params, caps) for a in t[1]])
    return t


def _closure_built_entries(prog, fam, origins):
    """Log entries built by a closure that the writer (or a helper inlined into it) calls directly — `log_single_mutation(doc_id, |seq_no| WalEntry { seq_no, .. })` with
    `let entry = make_entry(seq_no)` in the helper.  The entry is numbered by what the CALL passes for the closure's parameter, so each numbering site of the closure
    body is carried over to every direct call site `Fn*::call*(closure, (args,))` of the body that builds the closure, with parameters and captures replaced by their
    origins there; it is then subject to the same checks as an entry built in place (number = the reserved number itself, once per reservation, not in a loop).
    Carried over only when nothing is left undecided by it: the closure reserves no number itself, builds entries by aggregates only and not in a loop of its own, is
    constructed once, and its value goes nowhere but into those direct calls (not into another function, a structure or the return value).  Otherwise nothing is
    carried over and the closure's entry is reported as numbered from outside, as before.
    -> ({caller body id: [numbering at the call site]}, {ids of the closure bodies carried over})"""
    imported, consumed = {}, set()
    by_id = {b.id: b for b in fam}
    for b in fam:
        o = origins[b.id]
        sites = {}
        for c in b.calls:
            if not any(n_ and re.search(_FN_CALL, n_) for n_ in (c.callee, c.orig)) or len(c.args) != 2:
                continue
            clo, tup = o.of_operand(c.args[0]), o.of_operand(c.args[1])
            if clo[0] == 'agg' and clo[1].startswith('closure:') and tup[0] == 'agg' and tup[1] == 'tuple' and clo[1].split(':', 1)[1] in by_id:
                sites.setdefault(clo[1].split(':', 1)[1], []).append((c, tup[2], clo[2]))
        for cid, calls in sites.items():
            cb = by_id[cid]
            co = origins[cid]
            nums = _entry_numberings(cb, co)
            if not nums or cb.id == b.id:
                continue
            if any(c.callee and re.search(r'Atomic.*::fetch_add$', c.callee) and c.args and _is_seq_counter(co.of_operand(c.args[0])) for c in cb.calls):
                continue   # reserves its own numbers: judged on its own
            if any(n_[0] != 'agg' or n_[1] in cb.reach(cb.succ(n_[1])) for n_ in nums):
                continue
            tag = 'closure:' + cid
            built = sum(1 for x in fam for blk in x.blocks for st in blk['s'] if st.get('rv', {}).get('k') == 'agg' and st['rv'].get('def') == cid)
            direct = set(id(c) for c, _, _ in calls)

            def carries(t):
                """does the value `t` contain the closure itself (the RESULT of one of its direct calls does not)?"""
                if t[0] == 'agg' and t[1] == tag:
                    return True
                if t[0] == 'call' and len(t) > 3 and id(t[3]) in direct:
                    return any(carries(a) for a in t[2][1:])
                k_ = t[0]
                subs = [t[1]] if k_ in ('field', 'index', 'downcast', 'cast', 'set', 'discr') else t[2] if k_ in ('call', 'agg') else [t[2], t[3]] if k_ == 'bin' else \
                    [t[2]] if k_ == 'un' else t[1] if k_ == 'phi' else []
                return any(carries(a) for a in subs)
            escapes = carries(o.of_local(0))
            for c in b.calls:
                if id(c) in direct:
                    continue
                if cid in c.gc or any(carries(o.of_operand(a)) for a in c.args):
                    escapes = True
            for blk in b.blocks:
                for st in blk['s']:
                    rv = st.get('rv')
                    if rv and rv['k'] == 'agg' and rv.get('def') != cid and any(carries(o.of_operand(a)) for a in rv['ops']):
                        escapes = True   # stored in a structure / captured by another closure
            if built != 1 or escapes:
                continue
            consumed.add(cid)
            for c, targs, caps in calls:
                params = {k_ + 2: v_ for k_, v_ in enumerate(targs)}
                for kind, bb, t, pl, loc in nums:
                    imported.setdefault(b.id, []).append(('agg', c.bb, _subst_closure(t, params, caps), None, '%s, built by the closure called at %s' % (loc, c.loc)))
    return imported, consumed


def seq_accounting(ctx, prog, rid):
    """Sequence numbers are handed out once each, and the snapshot claims no more than was handed out (C02.R9; shared with C01.R12).

    Replay decides per entry with `entry.seq_no ≤ snapshot.last_wal_seq ⇒ skip` and log compaction unlinks a segment whose entries all satisfy it, so two facts about the
    WRITE side are necessary for a lossless restart:
      (a) a number is used for one entry only: `next_wal_seq.fetch_add(n)` reserves [r, r+n); the entries numbered from that call get r (n = 1) or r + i with i the
          position in the very vector whose length was reserved (n = len);
      (b) fetch_add returns the value BEFORE the addition and that value numbers the entry, so the counter is the next number to hand out: what create_snapshot
          records as covered (Snapshot.last_wal_seq, MANIFEST.latest_snapshot_wal_seq, the compaction boundary) is `next_wal_seq.load() − c` with c ≥ 1.
    Returns the number of fetch_add sites examined."""
    n_sites = 0
    offsets = set()
    for name in WRITERS:
        f = ctx.body(rid, name)
        if f is None:
            continue
        fam = prog.family(f)
        origins = {b.id: flow.Origin(b) for b in fam}
        imported, consumed = _closure_built_entries(prog, fam, origins)
        for b in fam:
            o = origins[b.id]
            fas = [c for c in b.calls if c.callee and re.search(r'Atomic.*::fetch_add$', c.callee) and c.args and _is_seq_counter(o.of_operand(c.args[0]))]
            # every place where a log entry gets its number: the seq_no operand of a WalEntry{..} aggregate, or an assignment to <entry>.seq_no — in this body, or in a
            # closure this body calls directly (judged at the call site, with what the call passes)
            numberings = ([] if b.id in consumed else _entry_numberings(b, o)) + imported.get(b.id, [])
            if not fas and not numberings:
                continue
            const_nums = [n_ for n_ in numberings if n_[2][0] == 'const']
            has_batch = False
            for k, c in enumerate(fas):
                n_sites += 1
                amount = o.of_operand(c.args[1])
                while amount[0] == 'cast':
                    amount = amount[1]
                mine = [n_ for n_ in numberings if any(x[0] == 'call' and len(x) > 3 and x[3] is c for x in flow.walk(n_[2]))]
                me = ([flow.render(x) for n_ in mine for x in flow.walk(n_[2]) if x[0] == 'call' and len(x) > 3 and x[3] is c] or ['?'])[0]
                descr = 'numbers handed out by next_wal_seq.fetch_add #%d are used once each' % k
                if not mine:
                    ctx.inst(rid, b.short, descr, False, 'the value returned by fetch_add at %s numbers no log entry (anchor: WalEntry.seq_no derived from it)' % c.loc)
                    continue
                if amount[0] == 'const' and amount[2] == 1:
                    bad = []
                    for kind, bb, t, pl, loc in mine:
                        terms, cst = flow._linear(t)
                        if terms != [(1, me)] or cst != 0:
                            bad.append('the entry at %s is numbered %s, not the reserved number itself' % (loc, flow.render(t).replace(me, 'fetch_add(..)')[:160]))
                        elif bb in b.reach(b.succ(bb), avoid_blocks=[c.bb]) or not b.dominates(c.bb, bb):
                            bad.append('the entry at %s can be built more than once per reservation (it is in a loop that does not contain the fetch_add)' % loc)
                        else:
                            offsets.add(0)
                    if len(mine) != 1:
                        bad.append('%d entries are numbered from one reservation of 1' % len(mine))
                    ctx.inst(rid, b.short, descr, not bad,
                             ('fetch_add(1) at %s reserves ONE number, but %s — two entries of the log share a sequence number: a snapshot between them skips / compacts the '
                              'later one as covered' % (c.loc, '; '.join(bad))) if bad else 'fetch_add(1) at %s; the reserved number goes into exactly one entry (%s)' % (c.loc, mine[0][4]))
                elif amount[0] == 'call' and re.search(r'(Vec|slice)::len$', flow.short(amount[1])) and len(amount[2]) == 1:
                    has_batch = True
                    vec = amount[2][0]   # origin tree of the vector whose length is reserved (call nodes carry their call site: equality is identity of the definition)
                    bad = []
                    if len(mine) != 1 or mine[0][0] != 'assign':
                        bad.append('expected exactly one `entry.seq_no = base + index` assignment, found %d numbering site(s)' % len(mine))
                    else:
                        kind, bb, t, pl, loc = mine[0]
                        terms, cst = flow._linear(t)
                        rest = [x for x in terms if x != (1, me)]
                        enum = [x for x in flow.walk(t) if x[0] == 'call' and x[1].endswith('Iterator::enumerate')]
                        if cst != 0 or len(rest) != 1 or len(terms) != 2 or rest[0][0] != 1:
                            bad.append('the entry is numbered %s, not base + position' % flow.render(t).replace(me, 'fetch_add(..)')[:200])
                        elif len(enum) != 1 or not re.search(r'\.0\.0$', rest[0][1]) or 'enumerate' not in rest[0][1]:
                            bad.append('the offset %s is not the enumerate() position of the numbering loop' % rest[0][1][:160])
                        else:
                            over = [x for x in flow.walk(enum[0][2][0]) if x == vec]
                            same_item = pl is not None and any(x[0] == 'call' and len(x) > 3 and x[3] is enum[0][3] for x in flow.walk(pl))
                            if not over:
                                bad.append('the numbering loop runs over %s, the reservation counted %s' % (flow.render(enum[0][2][0])[:120], flow.render(vec)[:120]))
                            if not same_item:
                                bad.append('the numbered entry is not the item of the enumerate() loop')
                            if not bad:
                                offsets.add(0)
                    ctx.inst(rid, b.short, descr, not bad,
                             ('fetch_add(len) at %s: %s' % (c.loc, '; '.join(bad))) if bad else
                             'fetch_add(len(v)) at %s; entry i of the same v gets base + i (%s)' % (c.loc, mine[0][4]))
                else:
                    ctx.inst(rid, b.short, descr, False, 'fetch_add at %s reserves %s: neither 1 nor the length of the vector of entries that is numbered from it' % (c.loc, flow.render(amount)[:160]))
            # an entry built with a constant number is a placeholder that the batch numbering loop overwrites; anywhere else it is an unnumbered (seq 0 = "legacy") entry
            has_batch = has_batch or any(n_[0] == 'assign' and any(x[0] == 'call' and len(x) > 3 and x[3] in fas for x in flow.walk(n_[2])) for n_ in numberings)
            if const_nums and not has_batch:
                ctx.inst(rid, b.short, 'no log entry keeps a constant sequence number', False,
                         'WalEntry built with seq_no = %s at %s and no numbering loop in this function' % (flow.render(const_nums[0][2]), const_nums[0][4]))
            foreign = [n_ for n_ in numberings if n_[2][0] != 'const' and not any(x[0] == 'call' and len(x) > 3 and x[3] in fas for x in flow.walk(n_[2]))]
            if foreign:
                ctx.inst(rid, b.short, 'every log entry is numbered from next_wal_seq.fetch_add', False,
                         'the entry at %s is numbered %s' % (foreign[0][4], flow.render(foreign[0][2])[:200]))
    # (b) what the snapshot claims to cover
    cs = None
    try:
        cs = util.pick(ctx, rid, 'HnswBackend::create_snapshot', 'Snapshot::save', 'Manifest::save')
    except rt.AnchorMissing:
        pass
    sn = ctx.body(rid, 'Snapshot::new')
    if cs is not None and sn is not None:
        o = flow.Origin(cs)
        son = flow.Origin(sn)
        # which parameter of Snapshot::new becomes Snapshot.last_wal_seq
        par = None
        for i, blk in enumerate(sn.blocks):
            for st in blk['s']:
                rv = st.get('rv')
                if rv and rv['k'] == 'agg' and rv.get('adt', '').endswith('persistence::Snapshot') and 'last_wal_seq' in (rv.get('fields') or []):
                    e = son.of_operand(rv['ops'][rv['fields'].index('last_wal_seq')])
                    if e[0] == 'arg':
                        par = e[1] - 1
        claims = []
        for c in cs.calls_to('Snapshot::new'):
            if par is not None and par < len(c.args):
                claims.append(('Snapshot.last_wal_seq', o.of_operand(c.args[par]), c.loc))
        for i, blk in enumerate(cs.blocks):
            if i not in cs.live_blocks():
                continue
            for st in blk['s']:
                if 'rv' in st and st['pl'].get('p'):
                    fs = [x for x in st['pl']['p'] if isinstance(x, str) and x != '*']
                    if fs and fs[-1].endswith('Manifest.latest_snapshot_wal_seq'):
                        e = o.of_rvalue(st['rv'], 0, frozenset())
                        if e[0] == 'agg' and e[1].endswith('Option::Some') and len(e[2]) == 1:
                            e = e[2][0]
                        claims.append(('MANIFEST.latest_snapshot_wal_seq', e, st.get('loc', cs.loc_of(i))))
        # the parameter of the compaction that entry.seq_no is compared with
        cp = ctx.body(rid, 'HnswBackend::compact_old_wal_segments')
        cpo = flow.Origin(cp)
        bpar = set()
        for blk in cp.blocks:
            for st in blk['s']:
                rv = st.get('rv')
                if rv and rv['k'] == 'bin' and rv['op'] in ('Le', 'Lt', 'Ge', 'Gt', 'Eq', 'Ne'):
                    x, y = cpo.of_operand(rv['a']), cpo.of_operand(rv['b'])
                    for p_, q_ in ((x, y), (y, x)):
                        if any(f_.endswith('WalEntry.seq_no') for f_ in flow.fields_in(p_)) and q_[0] == 'arg':
                            bpar.add(q_[1] - 1)
        for c in cs.calls_to('HnswBackend::compact_old_wal_segments'):
            for k_ in sorted(bpar):
                if k_ < len(c.args):
                    claims.append(('compaction boundary', o.of_operand(c.args[k_]), c.loc))
        if par is None or any(not any(w.startswith(k_) for w, _, _ in claims) for k_ in ('Snapshot.', 'MANIFEST', 'compaction')):
            ctx.missing(rid, 'create_snapshot: the sequence number passed to Snapshot::new, assigned to manifest.latest_snapshot_wal_seq and passed to the log compaction (found: %s)'
                        % sorted(set(w for w, _, _ in claims)))
        elif offsets != {0}:
            ctx.missing(rid, 'the writers number their entries with the value fetch_add returns (needed to read the counter as "next number to hand out")')
        else:
            bad = []
            for what, e, loc in claims:
                base, cst = _minus_const(e)
                is_load = base[0] == 'call' and re.search(r'Atomic.*::load$', base[1]) and _is_seq_counter(base)
                if not is_load:
                    bad.append('%s = %s is not derived from next_wal_seq.load()' % (what, flow.render(e)[:140]))
                elif cst < 1:
                    bad.append('%s = next_wal_seq.load() − %d at %s' % (what, cst, loc))
            ctx.inst(rid, cs.short, 'the snapshot claims to cover next_wal_seq − c, c ≥ 1 (the counter is the NEXT number to hand out)', not bad,
                     ('; '.join(bad[:3]) + ' — the counter value itself has not been handed out yet: the next acknowledged write gets exactly that number and the following '
                      'restart skips it as covered by the snapshot (and compaction may unlink its segment)') if bad else
                     '%d uses (%s) all of the form next_wal_seq.load() − c with c ≥ 1' % (len(claims), ', '.join(sorted(set(w for w, _, _ in claims)))))
    return n_sites


def baseline_snapshot(ctx, prog, rid):
    """C02.R10: with_persistence returns Ok only after create_snapshot succeeded, or with an empty backend."""
    f = ctx.body(rid, 'HnswBackend::with_persistence_with_hnsw_params')
    if f is None:
        return
    logged = [c for b in prog.family(f) for c in b.calls_to('WalWriter::append', 'WalWriter::append_batch')]
    if logged:
        ctx.inst(rid, f.short, 'initial documents are durable when the constructor returns', True,
                 'the constructor appends to the log (%s): the initial state is replayable' % logged[0].loc)
        return
    snaps = f.calls_to('HnswBackend::create_snapshot')
    if not snaps:
        ctx.inst(rid, f.short, 'initial documents are durable when the constructor returns', False,
                 'the constructor neither logs the initial documents nor calls create_snapshot: after a restart they are gone')
        return
    o = flow.Origin(f)
    S, F = [], []
    for c in snaps:
        s_, f_ = flow.outcome_edges(f, c)
        S += s_ if s_ is not None else ([(c.bb, c.to)] if c.to is not None else [])
        F += f_ or []
    B = r'hnsw_backend::HnswBackend::HnswBackend\{'
    empty_rx = re.compile(r'^(?:bool\[HnswBackend::is_empty\(%s.*\)\]|cmp\[\+ HnswBackend::len\(%s.*\) (?:== 0|<= 0)\]|!cmp\[\+ HnswBackend::len\(%s.*\) >= 1\])$' % (B, B, B))
    E = [(i, tg) for i, tg, p in edges_matching(f, o, empty_rx.pattern)]
    errs = flow.err_blocks(f)
    r = f.reach([0], avoid_blocks=errs, avoid_edges=set(S) | set(E))
    bad = [x for x in f.return_blocks() if x in r]
    detail = '%d create_snapshot call(s); %d edge(s) establishing an empty backend; every Ok return is behind one of them' % (len(snaps), len(E))
    wit = None
    if bad:
        path = rt.find_path(f, [0], bad, errs, set(S) | set(E)) or []
        # the decisions that let the path go round the snapshot: the switch edges on the path from which the snapshot call is no longer reachable
        sb = set(c.bb for c in snaps)
        by = []
        for a_, b_ in zip(path, path[1:]):
            if f.blocks[a_]['t']['k'] == 'switch' and (sb & f.reach([a_])) and not (sb & f.reach([b_])) and b_ not in sb:
                by += [p for tg, p in flow.switch_edge_predicates(f, a_, o) if tg == b_]
        wit = rt.path_witness(f, [b_ for b_ in path if f.blocks[b_]['t']['k'] in ('switch', 'call')][-12:])
        detail = ('an Ok return at %s is reachable without a successful create_snapshot and without the backend being empty, through the edge %s — the initial documents are in '
                  'no snapshot and in no log segment: after a restart they are gone' % (f.loc_of(bad[0]), [x[:120] for x in by] or '?'))
    rf = (f.reach([e[1] for e in F], avoid_blocks=errs) | set(e[1] for e in F if e[1] not in errs)) if F else set()
    bad_f = [x for x in f.return_blocks() if x in rf]
    if bad_f and not bad:
        detail = 'an Ok return is reachable from a FAILED create_snapshot'
    ctx.inst(rid, f.short, 'initial documents are durable when the constructor returns: create_snapshot ≺ Ok unless the backend is empty', not bad and not bad_f and bool(S), detail, witness=wit)


def fresh_segment_names(ctx, prog, rid):
    """C02.R11: a new log segment never lands on an existing file."""
    from rules import C09 as _c09
    cw = ctx.body(rid, 'WalWriter::create_with_error_handler')
    if cw is not None and cw.calls_to('std::fs::OpenOptions::create_new', 'std::fs::File::create_new'):
        ctx.inst(rid, cw.short, 'a new segment cannot land on an existing file', True, 'the opener refuses an existing file (create_new)')
        return
    n = 0
    for c in prog.callers_of('WalWriter::create_with_error_handler', 'WalWriter::create'):
        if not re.search(r'engine/src/hnsw_backend\.rs', c.loc) or c.body.kind == 'Promoted':
            continue
        n += 1
        o = flow.Origin(c.body)
        path = o.of_operand(c.args[0])
        parts = _c09.name_parts(path)
        ok = len(parts) == 1 and _c09.is_file_id(parts[0])
        k = sum(1 for i in ctx.instances if i.get('config') == ctx.config and i['rule'] == rid and i['key'].startswith('%s | %s | segment' % (rid, c.body.short)))
        ctx.inst(rid, c.body.short, 'segment #%d is named by an id minted for this creation (file_id())' % k, ok,
                 '%s(%s) at %s: variable part(s) of the name: %s' % (flow.short(c.callee), flow.render(path)[-120:], c.loc, [flow.render(x)[-100:] for x in parts]))
    ctx.floor(rid, 'segment creation sites in hnsw_backend.rs', n, 3, 'rotation, with_persistence, recover')
    fi = ctx.body(rid, 'HnswBackend::file_id')
    if fi is None:
        return
    alts = flow.top_alternatives(flow.Origin(fi).of_local(0))
    bad = []
    n_clock = 0
    for a in alts:
        calls = [flow.short(x[1]) for x in flow.calls_in(a)]
        if any(x.endswith('SystemTime::now') for x in calls):
            n_clock += 1
            unit = [x for x in calls if re.search(r'Duration::(as_|subsec_)\w+$', x)]
            if not any(re.search(r'Duration::(as_micros|as_nanos|subsec_micros|subsec_nanos)$', x) for x in unit):
                bad.append('the clock reading is taken in %s: ids minted within one such unit coincide' % (unit or ['?']))
        elif a[0] == 'call' and prog.resolve_local(a[1]) is not None and \
                any(x.callee and re.search(r'Atomic.*::fetch_add$', x.callee) for x in prog.resolve_local(a[1]).calls):
            pass   # the process-unique fallback counter
        else:
            bad.append('alternative %s is neither a sub-millisecond clock reading nor the fallback counter' % flow.render(a)[:120])
    ctx.inst(rid, fi.short, 'ids keep sub-millisecond resolution (microseconds or finer), or come from the process-unique counter', not bad and n_clock >= 1,
             ('; '.join(bad) + ' — a rotation (or a restart) inside the same unit re-opens the existing, MANIFEST-listed segment with create+append and writes a second header '
              'after its frames: the next strict start-up refuses the segment') if bad else
             'file_id() = %s' % ' | '.join(flow.render(a)[:110] for a in alts))


def compaction_timestamp_legacy_only(ctx, prog, rid):
    """In compact_old_wal_segments the timestamp comparison may call an entry covered only when the entry has no sequence number (shared: C02.R2, C09.R8)."""
    comp = ctx.body(rid, 'HnswBackend::compact_old_wal_segments')
    if comp is None:
        return
    util.bind_role(comp, 'covered', type_rx=r'^bool$', origin_rx=r'WalEntry\.seq_no (Le|Lt|Eq) arg:snapshot_last_wal_seq')
    cv = flow.Origin(comp, stop_at_vars=True)
    cl = comp.var_local('covered')
    if not cl:
        ctx.missing(rid, 'compact_old_wal_segments: variable covered')
        return
    ts_defs = [d[0] for d in comp.defs.get(cl[0], []) if d[2] == 'assign' and
               re.match(r'^\(var:entry→WalEntry\.timestamp (Le|Lt|Eq) arg:snapshot_timestamp\)$', flow.render(cv.of_rvalue(d[3]['rv'], 0, frozenset())))]
    zc = edges_matching(comp, cv, r'^cmp\[\+ var:entry→WalEntry\.seq_no == 0\]$')
    okzc = (not ts_defs) or (bool(zc) and all(t not in comp.reach([0], avoid_edges=[(i_, tg) for i_, tg, p_ in zc]) for t in ts_defs))
    ctx.inst(rid, comp.short, 'compaction: timestamp coverage only for legacy entries (seq_no = 0)', okzc,
             'the timestamp verdict at %s is %s' % ([comp.loc_of(t) for t in ts_defs], 'only behind the seq_no == 0 edge' if okzc else
              'reachable for an entry with a sequence number: writes acknowledged in the same second as the snapshot count as covered and their segments are deleted'))



def post_image_agreement(ctx, prog, rid, rec):
    """C02.R6 (shared with C01 as C01.R15): what a mutator logs is what it installs; replay installs the logged value as is."""
    um = ctx.body(rid, 'HnswBackend::update_metadata')
    if um is not None:
        uv = flow.Origin(um, stop_at_vars=True)
        uf = flow.Origin(um)
        ent = [(i_, st['rv']) for i_, blk in enumerate(um.blocks) for st in blk['s'] if st.get('rv', {}).get('k') == 'agg' and st['rv'].get('adt', '').endswith('persistence::WalEntry')]
        logged = [flow.render(uv.of_operand(rv['ops'][rv['fields'].index('metadata')], 0, frozenset({-1}))) for _, rv in ent]
        applied = []
        for i_, blk in enumerate(um.blocks):
            for st in blk['s']:
                if 'rv' in st and st['pl'].get('p') == ['*'] and 'DocumentStore.metadata' in flow.render(uf.of_local(st['pl']['l'])):
                    applied.append((i_, flow.render(uv.of_rvalue(st['rv'], 0, frozenset({-1})))))
        same = len(set(logged)) == 1 and bool(applied) and all(a == logged[0] for _, a in applied) and re.match(r'^var:\w+$', logged[0] or '') is not None
        dom = False
        if same:
            ls = um.var_local(logged[0].split(':')[1])
            defs = [d for l_ in ls for d in um.defs.get(l_, [])]
            # the merge is an if/else: the entry is built only after one of the definitions ran
            r_nodef = um.reach([0], avoid_blocks=sorted(set(d[0] for d in defs)))
            dom = bool(defs) and all(e_[0] not in r_nodef for e_ in ent)
        ctx.inst(rid, um.short, 'logged metadata = the map assigned to store.metadata[id], computed before the entry is built', same and dom,
                 'WalEntry.metadata = %s; store.metadata[id] := %s; defined before the entry: %s' % (logged, sorted(set(a for _, a in applied)), dom))
    ib = ctx.body(rid, 'HnswBackend::insert')
    if ib is not None:
        iv = flow.Origin(ib, stop_at_vars=True)
        iff = flow.Origin(ib)
        ent = [(i_, st['rv']) for i_, blk in enumerate(ib.blocks) for st in blk['s'] if st.get('rv', {}).get('k') == 'agg' and st['rv'].get('adt', '').endswith('persistence::WalEntry')
               and 'WalOp::Insert' in flow.render(iv.of_operand(st['rv']['ops'][st['rv']['fields'].index('op')], 0, frozenset({-1})))]
        if len(ent) != 1:
            ctx.missing(rid, 'HnswBackend::insert: the Insert log entry (found %d)' % len(ent))
        else:
            eb, rv = ent[0]
            for fld, store_field in (('embedding', 'DocumentStore.embeddings'), ('metadata', 'DocumentStore.metadata')):
                lv = flow.render(iv.of_operand(rv['ops'][rv['fields'].index(fld)], 0, frozenset({-1})))
                m_ = re.match(r'^var:(\w+)$', lv)
                src = None
                clone_bb = None
                if m_:
                    for l_ in ib.var_local(m_.group(1)):
                        for d in ib.defs.get(l_, []):
                            if d[2] == 'call' and d[3].callee and d[3].callee.endswith('Clone>::clone'):
                                src = flow.render(iv.of_operand(d[3].args[0], 0, frozenset({-1})))
                                clone_bb = d[0]
                pushes = [c for c in ib.calls if c.callee and c.callee.endswith('Vec::push') and flow.render(iff.of_operand(c.args[0])).endswith(store_field)]
                pv = [flow.render(iv.of_operand(c.args[1], 0, frozenset({-1}))) for c in pushes]
                pv_n = [re.sub(r'^mem::take\((.*)\)$', r'\1', x) for x in pv]
                # in-place changes of the source variable (calls that take it by &mut) all happen before the copy
                muts = [c for c in ib.calls if c.callee and not c.exp and src and any(flow.render(iv.of_operand(a, 0, frozenset({-1}))) == src and ib.locals[a['pl']['l']].startswith('&mut') for a in c.args if a.get('k') in ('cp', 'mv') and not a['pl'].get('p'))
                        and not c.callee.endswith('Clone>::clone')]
                late = [c for c in muts if clone_bb is not None and c.bb in ib.reach([clone_bb]) and c not in pushes and 'mem::take' not in c.callee]
                ok = src is not None and len(pushes) == 1 and pv_n == [src] and not late and clone_bb is not None and ib.dominates(clone_bb, eb)
                ctx.inst(rid, ib.short, 'logged %s is a copy of the %s that is pushed, taken after its last in-place change' % (fld, fld), ok,
                         'WalEntry.%s = %s = clone(%s); pushed: %s; in-place changes after the copy: %s' % (fld, lv, src, pv, [flow.short(c.callee) for c in late]))
    if rec is not None:
        rv_ = flow.Origin(rec, stop_at_vars=True)
        rf_ = flow.Origin(rec)
        asg = []
        for i_, blk in enumerate(rec.blocks):
            for st in blk['s']:
                if 'rv' in st and st['pl'].get('p') == ['*'] and 'HashMap<alloc::string::String, alloc::string::String' in rec.locals[st['pl']['l']] and rec.locals[st['pl']['l']].startswith('&mut'):
                    asg.append((i_, flow.render(rv_.of_rvalue(st['rv'], 0, frozenset({-1})))))
        um_edges = [(i_, tg) for i_, blk in enumerate(rec.blocks) if blk['t']['k'] == 'switch' and i_ in rec.live_blocks() for tg, p in flow.switch_edge_predicates(rec, i_, rv_)
                    if re.match(r'^variant\(var:entry→WalEntry\.op\) = UpdateMetadata$', p)]
        arm = set()
        for i_, tg in um_edges:
            arm |= {x for x in (rec.reach([tg]) | {tg}) if rec.dominates(tg, x)}
        asg = [(i_, a) for i_, a in asg if i_ in arm]
        ctx.inst(rid, rec.short, 'replay of UpdateMetadata installs the logged map as is (full replacement)', bool(um_edges) and bool(asg) and all(a == 'var:entry→WalEntry.metadata' for _, a in asg),
                 'assignments to the document\'s metadata during replay: %s' % sorted(set(a for _, a in asg)))

def run(ctx, prog):
    ctx.not_decided = ['equality of recovered and live state over histories × configurations',
                       'bit-exact idempotence of normalisation (floating point)']
    rec = ctx.body('C02.R1', 'HnswBackend::recover_with_hnsw_params_and_mode')
    ov = flow.Origin(rec, stop_at_vars=True)
    of = flow.Origin(rec)

    seq_continuation(ctx, prog, 'C02.R1')

    # ------------------------------------------------------------------ R2 covered predicates
    ctx.rule('C02.R2', '"covered" predicates: every path of the replay loop body that skips an entry (returns to the loop head '
                       'without reaching the switch on entry.op) crosses an edge establishing entry.seq_no ≤ snapshot seq (or, for '
                       'legacy entries, timestamp ≤ snapshot timestamp); in compact_old_wal_segments `covered` is true only through '
                       'such a comparison and a non-covered entry clears all_entries_covered')
    op_sw = [i for i, preds in switches(rec, ov) if any(re.match(r'^variant\(var:entry→WalEntry\.op\) = ', p) for _, p in preds)]
    if not op_sw:
        ctx.missing('C02.R2', 'recovery: switch on entry.op')
    else:
        opb = op_sw[0]
        # loop head = the IntoIter::next call whose Some-edge leads to opb
        heads = [c.bb for c in rec.calls if c.is_('re:IntoIter<.*Iterator>::next$', 're:Iterator>::next$') and opb in rec.reach([c.bb])
                 and c.bb in rec.reach([opb])]
        # innermost: the candidate dominated by all other candidates that dominate the op switch
        heads = [h for h in heads if rec.dominates(h, opb)]
        hs_ = list(heads)
        heads = sorted(hs_, key=lambda h: -sum(1 for g in hs_ if rec.dominates(g, h)))
        if not heads:
            ctx.missing('C02.R2', 'recovery: entries loop head')
        else:
            head = heads[0]
            cov = [(i, tg) for i, tg, p in edges_matching(rec, ov, SEQ_COVERED)] + [(i, tg) for i, tg, p in edges_matching(rec, ov, TS_COVERED)]
            ts_edges = edges_matching(rec, ov, TS_COVERED)
            start = [e[1] for e in flow.success_edges(rec, rec.call_at(head))]  # the Some(entry) edge: loop body
            r = rec.reach(start, avoid_blocks=[opb], avoid_edges=cov)
            # a skip = reaching the head again
            bad = head in r
            wit = None
            if bad:
                pth = rt.find_path(rec, start, [head], [opb], cov)
                wit = rt.path_witness(rec, [b for b in (pth or []) if rec.blocks[b]['t']['k'] in ('switch', 'call')])
            ctx.inst('C02.R2', rec.short, 'replay skip ⇒ entry covered by the snapshot', not bad and bool(cov),
                     ('an entry can be skipped without an edge establishing seq_no ≤ snapshot seq:\n  ' + '\n  '.join((wit or [])[-10:])) if bad else
                     '%d covered-edges guard every skip path of the replay loop' % len(cov), witness=wit)
            # the legacy timestamp skip additionally requires seq_no == 0
            if ts_edges:
                z = edges_matching(rec, ov, r'^cmp\[\+ var:entry→WalEntry\.seq_no == 0\]$')
                okz = bool(z) and all(any(rec.dominates(zz[1], t[0]) or zz[1] == t[0] for zz in z) for t in ts_edges)
                ctx.inst('C02.R2', rec.short, 'timestamp skip only for legacy entries (seq_no = 0)', okz,
                         'timestamp-covered edge at %s dominated by the seq_no == 0 edge: %s' % ([rec.loc_of(t[0]) for t in ts_edges], okz))
    comp = ctx.body('C02.R2', 'HnswBackend::compact_old_wal_segments')
    cv = flow.Origin(comp, stop_at_vars=True)
    cl = comp.var_local('covered')
    if not cl:
        ctx.missing('C02.R2', 'compact_old_wal_segments: variable covered')
    else:
        alts = []
        for d in comp.defs.get(cl[0], []):
            if d[2] == 'assign':
                alts.append(flow.render(cv.of_rvalue(d[3]['rv'], 0, frozenset())))
        okc = bool(alts)
        for a in alts:
            if a in ('0', 'false'):
                continue
            if re.match(r'^\(var:entry→WalEntry\.seq_no (Le|Lt|Eq) arg:snapshot_last_wal_seq\)$', a):
                continue
            if re.match(r'^\(var:entry→WalEntry\.timestamp (Le|Lt|Eq) arg:snapshot_timestamp\)$', a):
                continue
            okc = False
        ctx.inst('C02.R2', comp.short, 'covered ⇐ seq_no ≤ snapshot seq (or legacy timestamp ≤ snapshot timestamp)', okc,
                 'definitions of `covered`: %s' % alts)
        compaction_timestamp_legacy_only(ctx, prog, 'C02.R2')
        # `!covered` clears all_entries_covered on every path to the next entry
        al = comp.var_local('all_entries_covered')
        sw = [(i, preds) for i, preds in switches(comp, cv) if any(p in ('bool[var:covered]', '!bool[var:covered]') for _, p in preds)]
        # the same accumulation without a branch: `all_entries_covered &= covered` (= `all_entries_covered = all_entries_covered & covered`): the flag keeps its
        # value for a covered entry and becomes false for an uncovered one. Accepted only in exactly this form (the flag itself AND the verdict, BitAnd), and only
        # when EVERY path from a definition of `covered` to the next entry runs through such an assignment (the conditional form demands the same of its !covered edge)
        acc = []
        if al:
            for d in comp.defs.get(al[0], []):
                if d[2] == 'assign' and d[3]['rv'].get('k') == 'bin' and d[3]['rv'].get('op') == 'BitAnd' and d[0] in comp.live_blocks():
                    e_ = cv.of_rvalue(d[3]['rv'], 0, frozenset())
                    if e_[0] == 'bin' and sorted((e_[2], e_[3])) == sorted((('var', al[0], 'all_entries_covered'), ('var', cl[0], 'covered'))):
                        acc.append((d[0], d[1]))
        if al and acc and not sw:
            acc_blocks = set(a_[0] for a_ in acc)
            flag_use = edges_matching(comp, cv, r'^!?bool\[var:all_entries_covered\]$')
            cdefs =[d for d in comp.defs.get(cl[0], []) if d[0] in comp.live_blocks()]
            leak = []
            for d in cdefs:
                if any(a_[0] == d[0] and a_[1] > d[1] for a_ in acc):
                    continue   # accumulated later in the very block that defines it
                st_ = comp.succ(d[0])
                r = comp.reach(st_, avoid_blocks=acc_blocks)
                # neither the next entry (or segment) nor the test of the flag may be reachable from the verdict without the accumulation
                if [c for c in comp.calls if c.is_('re:Iterator>::next$') and c.bb in r] or any(i_ in r for i_, tg, p in flag_use):
                    leak.append(comp.loc_of(d[0], d[1]))
            # nothing else writes the flag: its only definitions are the initial constant true, the accumulation(s) and constant-false clears
            other = [comp.loc_of(d[0], d[1]) for d in comp.defs.get(al[0], []) if d[0] in comp.live_blocks() and (d[0], d[1]) not in acc and not (
                d[2] == 'assign' and flow.render(cv.of_rvalue(d[3]['rv'], 0, frozenset())) in ('0', 'false', '1', 'true'))]
            sets_true = [d for d in comp.defs.get(al[0], []) if d[0] in comp.live_blocks() and d[2] == 'assign' and flow.render(cv.of_rvalue(d[3]['rv'], 0, frozenset())) in ('1', 'true')]
            # a `= true` inside the entry loop would forget an uncovered entry: the constant true may only be the initialisation that dominates every accumulation
            # (outside the loop over the entries: the head of that loop is the innermost Iterator::next that dominates the accumulation and is reached again from it)
            late_true = []
            for a_ in acc:
                hs_ = [c.bb for c in comp.calls if c.is_('re:Iterator>::next$') and comp.dominates(c.bb, a_[0]) and c.bb in comp.reach(comp.succ(a_[0]))]
                hs_ = sorted(hs_, key=lambda h_, all_=tuple(hs_): -sum(1 for g_ in all_ if comp.dominates(g_, h_)))
                for d in sets_true:
                    in_loop = bool(hs_) and comp.dominates(hs_[0], d[0]) and hs_[0] in comp.reach(comp.succ(d[0]))
                    if not hs_ or in_loop or not comp.dominates(d[0], a_[0]) or d[0] == a_[0]:
                        late_true.append(comp.loc_of(d[0], d[1]))
            ctx.inst('C02.R2', comp.short, 'an uncovered entry clears all_entries_covered', bool(cdefs) and not leak and not other and not late_true,
                     'accumulation `all_entries_covered &= covered` at %s; verdicts reaching the next entry without it: %s; other writes of the flag: %s; flag set to true after an accumulation: %s'
                     % ([comp.loc_of(*a_) for a_ in acc], leak, other, late_true))
        elif not al or not sw:
            ctx.missing('C02.R2', 'compact_old_wal_segments: `if !covered { all_entries_covered = false }`')
        else:
            i, preds = sw[0]
            neg_t = [tg for tg, p in preds if p == '!bool[var:covered]']
            clears = [d[0] for d in comp.defs.get(al[0], []) if d[2] == 'assign' and flow.render(cv.of_rvalue(d[3]['rv'], 0, frozenset())) in ('0', 'false')]
            # next entry = loop head of the inner loop: the nearest Iterator::next reachable
            st_ = [t for t in neg_t if t not in clears]
            r = (comp.reach(st_, avoid_blocks=clears) | set(st_)) if st_ else set()
            nxt = [c.bb for c in comp.calls if c.is_('re:Iterator>::next$') and c.bb in r]
            ctx.inst('C02.R2', comp.short, 'an uncovered entry clears all_entries_covered', bool(clears) and not nxt and not (set(neg_t) & set(clears) and False),
                     'assignments all_entries_covered=false: %d; next-entry reachable from the !covered edge without one: %s' % (len(clears), bool(nxt)))

    # ------------------------------------------------------------------ R3 unlink guard
    ctx.rule('C02.R3', 'unlink guard in compact_old_wal_segments: remove_file is dominated by the false edge of idx == active index '
                       '(active index = wal_segments.len() − 1) and by the true edge of all_entries_covered; every loop-body path '
                       'that does not unlink keeps the segment listed, the file-missing case excepted; the kept list replaces '
                       'manifest.wal_segments')
    # the function condemns a segment by putting its path on the list it returns (create_snapshot unlinks that list after the pruned MANIFEST is saved, C01.R4);
    # it performs no unlink itself
    rm = comp.calls_to('std::fs::remove_file')
    ctx.inst('C02.R3', comp.short, 'decides only: no unlink inside the compaction', not rm, 'remove_file calls in compact_old_wal_segments: %d' % len(rm))
    ret_o = flow.render(flow.Origin(comp, stop_at_vars=True).of_local(0))
    mret = re.search(r'Result::Ok\{var:(\w+)\}', ret_o)
    cvar = 'var:' + mret.group(1) if mret else None
    cond = [c for c in comp.calls if c.is_('re:Vec<.*>::push$', 're:::push$') and c.args and cvar and flow.render(cv.of_operand(c.args[0])) == cvar]
    if len(cond) != 1:
        ctx.missing('C02.R3', 'compact_old_wal_segments: exactly one push onto the returned list of covered segments (found %d; returns %s)' % (len(cond), ret_o[:80]))
    else:
        rmb = cond[0].bb
        rm = cond
        act = edges_matching(comp, cv, r'^!cmp\[\+ var:active_wal_index - var:idx == 0\]$|^!cmp\[\+ var:idx - var:active_wal_index == 0\]$')
        allc = edges_matching(comp, cv, r'^bool\[var:all_entries_covered\]$')
        for nm, es in (('idx ≠ active index', act), ('all_entries_covered', allc)):
            if not es:
                ctx.inst('C02.R3', comp.short, 'remove_file guarded by ' + nm, False, 'anchor missing: guard %s not found in a recognised form' % nm)
                continue
            pass_edges = [(i, tg) for i, tg, p in es]
            # every path to the condemning push crosses one of the pass edges  ≡ unreachable when they are deleted
            r = comp.reach([0], avoid_edges=pass_edges)
            ctx.inst('C02.R3', comp.short, 'remove_file guarded by ' + nm, rmb not in r,
                     'the push that condemns a segment at %s %s' % (rm[0].loc, 'is reachable without passing the guard' if rmb in r else 'only past the guard edge'))
        pv = flow.render(cv.of_operand(cond[0].args[1]))
        ctx.inst('C02.R3', comp.short, 'the condemned path is the segment examined in this iteration', pv in ('var:wal_path',) or 'wal_path' in pv, 'pushed: %s' % pv[:80])
        ai = comp.var_local('active_wal_index')
        if ai:
            r = flow.render(flow.Origin(comp).of_local(ai[0]))
            ctx.inst('C02.R3', comp.short, 'active index = wal_segments.len() − 1',
                     bool(re.search(r'saturating_sub\(Vec::len\(arg:manifest→Manifest\.wal_segments\), 1\)|\(Vec::len\(arg:manifest→Manifest\.wal_segments\) Sub(WithOverflow)? 1\)', r)),
                     'active_wal_index = %s' % r)
        # keep-or-condemn: from the outer loop's body start, reaching the outer loop head again without condemning
        # must pass a push to segments_to_keep or the file-missing edge
        pushes = [c.bb for c in comp.calls if c.is_('re:Vec<.*>::push$', 're:::push$') and c.args
                  and 'segments_to_keep' in flow.render(cv.of_operand(c.args[0]))]
        missing = [(i, tg) for i, tg, p in edges_matching(comp, cv, r'^!bool\[Path::exists\(.*\)\]$')]
        outer_heads = [c.bb for c in comp.calls if c.is_('re:Enumerate<.*Iterator>::next$')]
        if not outer_heads or not pushes:
            ctx.missing('C02.R3', 'compact_old_wal_segments: outer loop head / segments_to_keep.push')
        else:
            h = outer_heads[0]
            start = comp.succ(h)
            r = comp.reach(start, avoid_blocks=pushes + [rmb], avoid_edges=missing)
            ctx.inst('C02.R3', comp.short, 'a segment that is not unlinked stays listed (file-missing excepted)', h not in r,
                     'the next segment can be reached without condemning, keeping or the file-missing case' if h in r else
                     '%d keep sites, 1 condemn site, %d file-missing edges cover every loop-body path' % (len(pushes), len(missing)))
        asg = util.assign_blocks(comp, r'Manifest\.wal_segments$')
        ctx.inst('C02.R3', comp.short, 'manifest.wal_segments replaced by the kept list', bool(asg), 'assignment blocks: %s' % asg)

    # ------------------------------------------------------------------ R4 writer/reader op table
    ctx.rule('C02.R4', 'writer/reader operation table: insert→Insert (+ rollback Delete), delete→Delete, batch_delete→Delete, '
                       'update_metadata→UpdateMetadata on the writer side; the recovery switch on entry.op handles all three variants '
                       'explicitly with Insert→map insert, Delete→map remove, UpdateMetadata→assignment through get_mut')
    WR = {'HnswBackend::insert': {'Insert', 'Delete'}, 'HnswBackend::delete': {'Delete'},
          'HnswBackend::batch_delete': {'Delete'}, 'HnswBackend::update_metadata': {'UpdateMetadata'}}
    for fn, want in WR.items():
        f = ctx.body('C02.R4', fn)
        got = set()
        for b in prog.family(f):
            og = flow.Origin(b)
            for i, blk in enumerate(b.blocks):
                for s in blk['s']:
                    rv = s.get('rv')
                    if rv and rv['k'] == 'agg' and rv.get('adt', '').endswith('persistence::WalEntry'):
                        r = flow.render(og.of_operand(rv['ops'][rv['fields'].index('op')]))
                        m = re.search(r'WalOp::(\w+)', r)
                        got.add(m.group(1) if m else r)
        ctx.inst('C02.R4', f.short, 'logs %s' % '/'.join(sorted(want)), got == want, 'WalEntry.op constants constructed: %s' % sorted(got))
    wal_op = prog.adts.get('kyrodb_engine::persistence::WalOp')
    variants = [v['name'] for v in wal_op['variants']] if wal_op else []
    ctx.inst('C02.R4', 'WalOp', 'variants = {Insert, Delete, UpdateMetadata}', sorted(variants) == ['Delete', 'Insert', 'UpdateMetadata'],
             'variants: %s' % variants)
    if op_sw:
        preds = flow.switch_edge_predicates(rec, op_sw[0], ov)
        handled = {}
        for tg, p in preds:
            m = re.match(r'^variant\(var:entry→WalEntry\.op\) = (\w+)$', p)
            if m:
                handled[m.group(1)] = tg
        ctx.inst('C02.R4', rec.short, 'replay handles every WalOp variant explicitly', sorted(handled) == sorted(variants),
                 'handled: %s' % sorted(handled))
        EFFECT = {'Insert': r'HashMap<.*>::insert$|HashMap::insert$', 'Delete': r'HashMap<.*>::remove$|HashMap::remove$',
                  'UpdateMetadata': r'HashMap<.*>::get_mut$|HashMap::get_mut$'}
        others = set(handled.values())
        for v, tg in handled.items():
            # region of this arm: reachable from tg without entering the other arms / going back to the loop head
            stop = (others - {tg}) | {head} if op_sw and heads else (others - {tg})
            region = rec.reach([tg], avoid_blocks=stop) | {tg}
            calls = [c for c in rec.calls if c.bb in region and c.callee and c.args and 'documents' in flow.render(ov.of_operand(c.args[0]))]
            names = sorted(set(c.callee.split('::')[-1] for c in calls))
            want_rx = EFFECT.get(v)
            ok = bool(want_rx) and any(re.search(want_rx, c.callee) for c in calls)
            # the effect is unconditional in its arm: the next entry is unreachable from the arm without it (Err exits aside)
            eb = [c.bb for c in calls if re.search(want_rx or '^$', c.callee)]
            if ok and heads:
                rr = rec.reach([tg], avoid_blocks=set(eb) | flow.err_blocks(rec)) | {tg}
                if head in rr and tg not in eb:
                    ok = False
                    names = names + ['(conditional: the next entry is reachable from the arm without the effect)']
            foreign = [n for n in names if n in ('insert', 'remove', 'get_mut', 'clear') and not re.search(want_rx or '^$', 'HashMap::' + n)]
            ctx.inst('C02.R4', rec.short, 'replay %s → %s' % (v, {'Insert': 'insert', 'Delete': 'remove', 'UpdateMetadata': 'get_mut+assign'}.get(v)),
                     ok and not foreign, 'operations on `documents` in the %s arm: %s' % (v, names))

    # ------------------------------------------------------------------ R5 compaction rebuilds from live documents only
    ctx.rule('C02.R5', 'tombstone compaction: every push into the rebuilt store is dominated by the Some(external_id) edge of the '
                       'old internal_to_external entry; the new index is filled from the compacted store.embeddings; the metadata '
                       'index is rebuilt from the compacted store')
    ct = ctx.body('C02.R5', 'HnswBackend::compact_tombstones')
    co = flow.Origin(ct, stop_at_vars=True)
    some_edges = [(i, tg) for i, tg, p in edges_matching(ct, co, r'^variant\(var:ext\) = Some$')]
    if not some_edges:
        # `let Some(external_id) = ext else { continue }`
        some_edges = [(i, tg) for i, tg, p in edges_matching(ct, co, r'^variant\(.*\.1\) = Some$|^variant\(.*ext.*\) = Some$')]
    pushes = [c for c in ct.calls if c.callee and re.search(r'::push$|HashMap.*::insert$', c.callee) and c.args
              and re.search(r'DocumentStore\.(embeddings|metadata|versions|digests|internal_to_external|external_to_internal)$',
                            flow.render(flow.Origin(ct).of_operand(c.args[0])))]
    if not some_edges:
        ctx.inst('C02.R5', ct.short, 'live-only guard', False, 'anchor missing: no `Some(external_id)` test of the old internal_to_external entry')
    else:
        r = ct.reach([0], avoid_edges=some_edges)
        bad = [c for c in pushes if c.bb in r]
        ctx.inst('C02.R5', ct.short, 'pushes into the rebuilt store only for live entries', len(pushes) >= 6 and not bad,
                 '%d store pushes; reachable without the Some(external_id) edge: %s' % (len(pushes), [c.loc for c in bad]))
    fo = flow.Origin(ct)
    pib = ct.calls_to('HnswVectorIndex::parallel_insert_batch')
    if pib:
        r = flow.render(fo.of_operand(pib[0].args[1]))
        ctx.inst('C02.R5', ct.short, 'new index built from the compacted embeddings', 'DocumentStore.embeddings' in r and 'old_' not in r, 'batch source: %s' % r[:300])
    else:
        ctx.missing('C02.R5', 'compact_tombstones: parallel_insert_batch')
    rb = ct.calls_to('MetadataInvertedIndex::rebuild_from')
    if rb:
        a0 = flow.render(fo.of_operand(rb[0].args[0]))
        a1 = flow.render(fo.of_operand(rb[0].args[1]))
        ctx.inst('C02.R5', ct.short, 'metadata index rebuilt from the compacted store',
                 a0.endswith('DocumentStore.metadata') and a1.endswith('DocumentStore.internal_to_external'), 'rebuild_from(%s, %s)' % (a0[-60:], a1[-60:]))
        # and it is installed
        mi = [c for c in ct.calls if c.is_('re:RwLock::write$') and c.args and 'metadata_index' in flow.render(fo.of_operand(c.args[0]))]
        ctx.inst('C02.R5', ct.short, 'rebuilt metadata index installed', bool(mi), 'metadata_index.write() sites: %d' % len(mi))
    else:
        ctx.missing('C02.R5', 'compact_tombstones: MetadataInvertedIndex::rebuild_from')
    # completeness of the compaction rebuild: every live slot is copied — the only must-pass guards of the pushes into the rebuilt store are "there are
    # tombstones", the zip iteration and "this slot has an external id"; a further skip condition silently drops live documents at the next compaction
    ctb = ctx.body('C02.R5', 'HnswBackend::compact_tombstones')
    if ctb is not None:
        cv = flow.Origin(ctb, stop_at_vars=True)
        cpush = [c for c in ctb.calls if c.callee and c.callee.endswith('Vec::push') and not c.exp and re.search(r'DocumentStore\.(embeddings|metadata|versions|digests|internal_to_external)$', flow.render(cv.of_operand(c.args[0], 0, frozenset({-1}))))]
        allowed = [r'^!cmp\[\+ var:tombstones == 0\]$', r'^variant\(<zip::Zip<A, B> as iterator::Iterator>::next\(var:iter\)\) = Some$', r'^variant\(var:ext\) = Some$', r'^variant\(var:\w+\) = Some$']
        cpreds = [(i_, tg, p) for i_, blk in enumerate(ctb.blocks) if blk['t']['k'] == 'switch' and i_ in ctb.live_blocks() for tg, p in flow.switch_edge_predicates(ctb, i_, cv)]
        extra_all = set()
        for c in cpush:
            must = [p for i_, tg, p in cpreds if c.bb not in ctb.reach([0], avoid_edges=[(i_, tg)])]
            extra_all |= set(p for p in must if not any(re.match(a, p) for a in allowed))
        ctx.inst('C02.R5', ctb.short, 'every live slot is copied: the pushes into the rebuilt store have no skip condition besides the tombstone test', len(cpush) >= 5 and not extra_all,
                 ('additional skip condition(s): %s' % sorted(x[:90] for x in extra_all)) if extra_all else '%d pushes guarded only by tombstones ≠ 0, the iteration and Some(external id)' % len(cpush))

    # ------------------------------------------------------------------ R6 the log carries the post-image
    ctx.rule('C02.R6', 'post-image agreement: what a mutator writes into the log entry is what it installs in memory, because replay installs the logged value '
                       'as is — update_metadata logs the map it assigns to store.metadata[id] (the merged map, not the caller\'s delta; replay does a full '
                       'replacement); insert logs a copy of the vector taken after the last in-place change (normalisation) and pushes that same vector, and '
                       'logs / pushes the same metadata map')
    post_image_agreement(ctx, prog, 'C02.R6', rec)
    # ------------------------------------------------------------------ R7 re-normalising a stored vector is the identity
    ctx.rule('C02.R7', 'the vector normaliser is applied once on insert (its output is logged and stored) and AGAIN to every recovered vector: bit-identity after restart '
                       'needs it to leave its own output alone — the in-range test of the squared norm must send EVERY normalising metric to the untouched return, so the '
                       'component writes are reachable only through the out-of-range edge (whether a scaled vector lands in range is arithmetic, not decided)')
    nz = ctx.body('C02.R7', 'hnsw_backend::normalize_in_place_if_needed')
    if nz is not None:
        on = flow.Origin(nz)
        callers7 = sorted(set(c.body.name for c in prog.callers_of('hnsw_backend::normalize_in_place_if_needed')))
        ctx.inst('C02.R7', nz.short, 'applied on the write path and again on recovery', 'insert' in callers7 and any('recover' in x for x in callers7), 'callers: %s' % callers7)
        out_edges = [(i_, tg) for i_, blk in enumerate(nz.blocks) if blk['t']['k'] == 'switch' and i_ in nz.live_blocks() for tg, p_ in flow.switch_edge_predicates(nz, i_, on)
                     if re.match(r'^!bool\[RangeInclusive::contains\(RangeInclusive::new\(.*NORMALIZATION_NORM_SQ_MIN, .*NORMALIZATION_NORM_SQ_MAX\), simd::sum_squares_f32\(arg:embedding\)\)\]$', p_)]
        writes = [i_ for i_, blk in enumerate(nz.blocks) if i_ in nz.live_blocks() for st in blk['s'] if 'rv' in st and st['pl'].get('p') == ['*'] and 'f32' in nz.locals[st['pl']['l']]]
        r7 = nz.reach([0], avoid_edges=out_edges) | {0}
        leak = [w for w in writes if w in r7]
        ctx.inst('C02.R7', nz.short, 'components are rewritten only when the squared norm is out of range', bool(out_edges) and bool(writes) and not leak,
                 ('the write at %s is reachable with the norm in range: a stored (already normalised) vector is rescaled again on recovery and comes back with different bits'
                  % nz.loc_of(leak[0])) if leak else '%d component write(s), all behind the out-of-range edge' % len(writes))
        # the range constants used by the normaliser and by the index's acceptance test are the same items (an accepted vector is one the normaliser leaves alone)
        rng = sorted(set(re.findall(r'(\w+::NORMALIZATION_NORM_SQ_M(?:IN|AX))', ' '.join(p_ for i_, blk in enumerate(nz.blocks) if blk['t']['k'] == 'switch'
                                                                                              for tg, p_ in flow.switch_edge_predicates(nz, i_, on)))))
        ctx.inst('C02.R7', nz.short, 'range bounds are the named constants', len(rng) == 2, 'bounds: %s' % rng)
    # ------------------------------------------------------------------ R8 nothing is logged that the index then refuses
    # replay applies Insert(new) and then the compensating Delete: for an overwrite that is NOT the live state (the previous version is still live, but gone after
    # the restart). So every rejection class of the index must be refused before the log append — the C03.R1 table, shared
    from rules import C03 as _C03
    from kvstatic.effects import Effects as _Eff8
    eff8 = _Eff8(prog)
    eff8.define('wal_append', 'WalWriter::append', 'WalWriter::append_batch')
    _C03.rejection_classes(ctx, prog, 'C02.R8', eff8)
    # ------------------------------------------------------------------ R9 sequence numbers are used once, and the snapshot claims only what was handed out
    ctx.rule('C02.R9', 'sequence accounting on the write side (replay skips and compaction unlinks by `entry.seq_no ≤ snapshot.last_wal_seq`): every '
                       'next_wal_seq.fetch_add(n) numbers exactly n entries — n = 1 and the returned value itself, or n = len(v) and entry i of that same v gets '
                       'returned + i — so no two entries of the log share a number; and because the returned (pre-increment) value numbers the entry, the counter is the '
                       'next number to hand out: Snapshot.last_wal_seq, MANIFEST.latest_snapshot_wal_seq and the compaction boundary in create_snapshot are '
                       'next_wal_seq.load() − c with c ≥ 1')
    n9 = seq_accounting(ctx, prog, 'C02.R9')
    ctx.floor('C02.R9', 'next_wal_seq.fetch_add sites', n9, 5, 'insert ×2, delete, update_metadata, batch_delete')
    # ------------------------------------------------------------------ R10 state installed without a log entry is snapshotted before the constructor returns
    ctx.rule('C02.R10', 'the documents handed to with_persistence are installed without a log entry (the constructor appends nothing), so the baseline snapshot is their '
                        'only durable copy: every Ok return of the constructor lies behind the success edge of create_snapshot, except through the edge that establishes '
                        'that the backend just built is empty (is_empty() / len() == 0) — no other condition (snapshot interval, policy, size) may bypass it')
    baseline_snapshot(ctx, prog, 'C02.R10')
    # ------------------------------------------------------------------ R11 a new segment never takes the name of an existing file
    ctx.rule('C02.R11', 'WalWriter::create opens with create+append and writes the 4-byte header unconditionally, so a segment created under the name of an existing file '
                        'damages that (MANIFEST-listed) file and lists it twice; nothing checks for existence. Freshness rests on the name alone: every segment creation in '
                        'hnsw_backend.rs names the file by an id minted for that creation by file_id(), and file_id() reads the clock in microseconds or finer (or falls back '
                        'to the process-unique counter) — with tiny rotation thresholds consecutive rotations are well inside a millisecond, let alone a second. Decided: the '
                        'origin and the unit; that two creations are further apart than that unit is timing and not decided')
    fresh_segment_names(ctx, prog, 'C02.R11')
    ctx.stat('functions_analysed', len(set(i['key'].split(' | ')[1] for i in ctx.instances)))
