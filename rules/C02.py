"""C02 — restart is lossless.

Decided statically: five necessary structural facts — sequence continuation, the replay-skip and compaction
"covered" predicates imply `entry seq ≤ snapshot seq`, the active log segment is never unlinked and every
non-unlinked segment stays listed, the writer's and the reader's operation tables agree, and tombstone
compaction rebuilds from live documents only.  Equality of recovered and live state over histories × configurations
and floating-point idempotence of normalisation are not decided.
"""
import re

from kvstatic import flow, rt, util

MANIFEST = {
    'text': 'Decides five structural facts each of which is a necessary condition of lossless restart: the recovered '
            'sequence counter continues from max(snapshot seq, every replayed or skipped entry seq)+1; every skip of a log '
            'entry at replay and every "covered" verdict in log compaction is established by a comparison that implies '
            'entry seq ≤ snapshot seq; the active segment is never unlinked and kept segments stay listed; writer and '
            'reader operation tables agree variant by variant; tombstone compaction copies live documents only. '
            'It decides these parts, not equality of recovered and live state.',
    'design_ref': 'DESIGN.md §4.2',
    'note': 'Trusted base: rustc MIR, integer normal form of comparisons (strict/non-strict, ±1), origin tracing '
            'through user variables. Histories × configurations and float idempotence are not decided.',
    'technique': 'guard normal-form implication, def-use origin checks and variant-table agreement on MIR',
}

EXPLANATION = (
    'FLOW/GUARD/TABLE rules of DESIGN §4.2 on promoted MIR. Comparisons are normalised over integers '
    '(`a ≤ b`, `!(a > b)`, `a < b+1` are one form); a skip/covered edge is accepted when its predicate is '
    '`entry.seq_no − snapshot_seq ≤ c` with c ≤ 0 or `= 0` (deliberately also the stricter forms, so safe edits stay silent).')

SEQ_COVERED = r'^cmp\[\+ var:entry→WalEntry\.seq_no - (?:var|arg):snapshot_last_wal_seq (<= (0|-\d+)|== 0)\]$'
TS_COVERED = r'^cmp\[\+ var:entry→WalEntry\.timestamp - (?:var|arg):snapshot_timestamp (<= (0|-\d+)|== 0)\]$'


def switches(body, origin):
    for i, blk in enumerate(body.blocks):
        if blk['t']['k'] == 'switch' and i in body.live_blocks():
            yield i, flow.switch_edge_predicates(body, i, origin)


def edges_matching(body, origin, rx):
    r = re.compile(rx)
    out = []
    for i, preds in switches(body, origin):
        for tg, p in preds:
            if r.search(p):
                out.append((i, tg, p))
    return out


def seq_continuation(ctx, prog, rid):
    """sequence continuation after recovery (C02.R1; shared with C01.R8: a write acknowledged after a restart must not be numbered at or
    below the snapshot's sequence, or the next restart skips it as covered)."""
    rec = ctx.body(rid, 'HnswBackend::recover_with_hnsw_params_and_mode')
    if rec is None:
        return
    # roles, found structurally (a rename of these locals in /repo changes nothing here)
    util.bind_role(rec, 'max_wal_seq', type_rx=r'^u64$', used_as=(r'num::(saturating|wrapping|checked)_add$', 0), origin_rx=r'WalEntry\.seq_no', full=True)
    util.bind_role(rec, 'snapshot_last_wal_seq', type_rx=r'^u64$', origin_rx=r'^phi\(0 \| Snapshot::load_with_validation\(.*→Snapshot\.last_wal_seq\)$', full=True)
    util.bind_role(rec, 'entry', type_rx=r'persistence::WalEntry$', origin_rx=r'Iterator>::next\(')
    ov = flow.Origin(rec, stop_at_vars=True)
    of = flow.Origin(rec)
    # ------------------------------------------------------------------ R1 sequence continuation
    ctx.rule(rid, 'sequence continuation: next_wal_seq of the recovered backend = max_wal_seq + 1; max_wal_seq takes '
                       'snapshot.last_wal_seq and every entry.seq_no, the latter before the replay-skip decision (skipped '
                       'entries still raise the maximum)')
    agg = None
    for i, blk in enumerate(rec.blocks):
        for s in blk['s']:
            rv = s.get('rv')
            if rv and rv['k'] == 'agg' and rv.get('adt', '').endswith('PersistenceState') and 'next_wal_seq' in (rv.get('fields') or []):
                agg = rv
    if agg is None:
        ctx.missing(rid, 'recovery: PersistenceState{next_wal_seq: ..}')
    else:
        r = flow.render(ov.of_operand(agg['ops'][agg['fields'].index('next_wal_seq')]))
        ok = bool(re.search(r'Atomic::new\((num::saturating_add\(var:max_wal_seq, 1\)|\(var:max_wal_seq Add(WithOverflow)? 1\)(\.0)?|num::wrapping_add\(var:max_wal_seq, 1\))\)', r))
        ctx.inst(rid, rec.short, 'next_wal_seq = max_wal_seq + 1', ok, 'next_wal_seq: %s' % r)
        ml = rec.var_local('max_wal_seq')
        if not ml:
            ctx.missing(rid, 'recovery: variable max_wal_seq')
        else:
            full = flow.render(of.of_local(ml[0]))
            ctx.inst(rid, rec.short, 'max_wal_seq reaches from snapshot.last_wal_seq and entry.seq_no',
                     'Snapshot.last_wal_seq' in full and 'WalEntry.seq_no' in full, 'origins: %s' % full[:400])
            sl = rec.var_local('snapshot_last_wal_seq')
            slo = flow.render(of.of_local(sl[0])) if len(sl) == 1 else '?'
            ctx.inst(rid, rec.short, 'the replay skip boundary is the last_wal_seq of the snapshot actually loaded (0 without a snapshot), never a MANIFEST field',
                     bool(re.match(r'^phi\(0 \| Snapshot::load_with_validation\(.*\)@Ok→Ok\.0\.0→Snapshot\.last_wal_seq\)$', slo)) and 'latest_snapshot_wal_seq' not in slo,
                     'snapshot_last_wal_seq = %s' % (slo[:60] + ' … ' + slo[-60:]))
            raise_sw = edges_matching(rec, ov, r'^cmp\[\+ var:entry→WalEntry\.seq_no - var:max_wal_seq >= 1\]$')
            skip_sw = edges_matching(rec, ov, SEQ_COVERED)
            # the other idiom: max_wal_seq = max_wal_seq.max(entry.seq_no) — an unconditional assignment that must come before the skip decision
            max_asg = [d for d in rec.defs.get(ml[0], []) if d[2] in ('call', 'pcall') and d[3].callee and re.search(r'Ord::max$|cmp::max$', flow.short(d[3].callee)) and
                       sorted(flow.render(ov.of_operand(a)) for a in d[3].args) == ['var:entry→WalEntry.seq_no', 'var:max_wal_seq']]
            max_asg += [d for d in rec.defs.get(ml[0], []) if d[2] == 'assign' and re.match(
                r'^(Ord::max|cmp::max)\((var:max_wal_seq, var:entry→WalEntry\.seq_no|var:entry→WalEntry\.seq_no, var:max_wal_seq)\)$', flow.render(ov.of_rvalue(d[3]['rv'], 0, frozenset({-1}))))]
            if max_asg and skip_sw and not raise_sw:
                ok = all(rec.dominates(max_asg[0][0], s_[0]) for s_ in skip_sw)
                ctx.inst(rid, rec.short, 'maximum raised before the skip decision', ok,
                         'max_wal_seq = max(max_wal_seq, entry.seq_no) at %s dominates skip guard(s) at %s: %s' % (rec.loc_of(max_asg[0][0]), [rec.loc_of(s_[0]) for s_ in skip_sw], ok))
            elif not raise_sw or not skip_sw:
                ctx.missing(rid, 'recovery: guard entry.seq_no > max_wal_seq and the replay-skip guard')
            else:
                rs = raise_sw[0][0]
                ok = all(rec.dominates(rs, s[0]) for s in skip_sw)
                # the raising assignment is on the true edge
                asg = [d for d in rec.defs.get(ml[0], []) if d[2] == 'assign' and 'WalEntry.seq_no' in flow.render(ov.of_rvalue(d[3]['rv'], 0, frozenset()))]
                ok2 = bool(asg) and all(a[0] in (rec.reach([raise_sw[0][1]]) | {raise_sw[0][1]}) for a in asg)
                ctx.inst(rid, rec.short, 'maximum raised before the skip decision', ok and ok2,
                         'raise guard at %s dominates skip guard(s) at %s: %s; assignment on its true edge: %s' % (
                             rec.loc_of(rs), [rec.loc_of(s[0]) for s in skip_sw], ok, ok2))



def run(ctx, prog):
    ctx.not_decided = ['equality of recovered and live state over histories × configurations',
                       'bit-exact idempotence of normalisation (floating point)']
    rec = ctx.body('C02.R1', 'HnswBackend::recover_with_hnsw_params_and_mode')
    ov = flow.Origin(rec, stop_at_vars=True)
    of = flow.Origin(rec)

    seq_continuation(ctx, prog, 'C02.R1')

    # ------------------------------------------------------------------ R2 covered predicates
    ctx.rule('C02.R2', '"covered" predicates: every path of the replay loop body that skips an entry (returns to the loop head '
                       'without reaching the switch on entry.op) crosses an edge establishing entry.seq_no ≤ snapshot seq (or, for '
                       'legacy entries, timestamp ≤ snapshot timestamp); in compact_old_wal_segments `covered` is true only through '
                       'such a comparison and a non-covered entry clears all_entries_covered')
    op_sw = [i for i, preds in switches(rec, ov) if any(re.match(r'^variant\(var:entry→WalEntry\.op\) = ', p) for _, p in preds)]
    if not op_sw:
        ctx.missing('C02.R2', 'recovery: switch on entry.op')
    else:
        opb = op_sw[0]
        # loop head = the IntoIter::next call whose Some-edge leads to opb
        heads = [c.bb for c in rec.calls if c.is_('re:IntoIter<.*Iterator>::next$', 're:Iterator>::next$') and opb in rec.reach([c.bb])
                 and c.bb in rec.reach([opb])]
        # innermost: the candidate dominated by all other candidates that dominate the op switch
        heads = [h for h in heads if rec.dominates(h, opb)]
        hs_ = list(heads)
        heads = sorted(hs_, key=lambda h: -sum(1 for g in hs_ if rec.dominates(g, h)))
        if not heads:
            ctx.missing('C02.R2', 'recovery: entries loop head')
        else:
            head = heads[0]
            cov = [(i, tg) for i, tg, p in edges_matching(rec, ov, SEQ_COVERED)] + [(i, tg) for i, tg, p in edges_matching(rec, ov, TS_COVERED)]
            ts_edges = edges_matching(rec, ov, TS_COVERED)
            start = [e[1] for e in flow.success_edges(rec, rec.call_at(head))]  # the Some(entry) edge: loop body
            r = rec.reach(start, avoid_blocks=[opb], avoid_edges=cov)
            # a skip = reaching the head again
            bad = head in r
            wit = None
            if bad:
                pth = rt.find_path(rec, start, [head], [opb], cov)
                wit = rt.path_witness(rec, [b for b in (pth or []) if rec.blocks[b]['t']['k'] in ('switch', 'call')])
            ctx.inst('C02.R2', rec.short, 'replay skip ⇒ entry covered by the snapshot', not bad and bool(cov),
                     ('an entry can be skipped without an edge establishing seq_no ≤ snapshot seq:\n  ' + '\n  '.join((wit or [])[-10:])) if bad else
                     '%d covered-edges guard every skip path of the replay loop' % len(cov), witness=wit)
            # the legacy timestamp skip additionally requires seq_no == 0
            if ts_edges:
                z = edges_matching(rec, ov, r'^cmp\[\+ var:entry→WalEntry\.seq_no == 0\]$')
                okz = bool(z) and all(any(rec.dominates(zz[1], t[0]) or zz[1] == t[0] for zz in z) for t in ts_edges)
                ctx.inst('C02.R2', rec.short, 'timestamp skip only for legacy entries (seq_no = 0)', okz,
                         'timestamp-covered edge at %s dominated by the seq_no == 0 edge: %s' % ([rec.loc_of(t[0]) for t in ts_edges], okz))
    comp = ctx.body('C02.R2', 'HnswBackend::compact_old_wal_segments')
    cv = flow.Origin(comp, stop_at_vars=True)
    cl = comp.var_local('covered')
    if not cl:
        ctx.missing('C02.R2', 'compact_old_wal_segments: variable covered')
    else:
        alts = []
        for d in comp.defs.get(cl[0], []):
            if d[2] == 'assign':
                alts.append(flow.render(cv.of_rvalue(d[3]['rv'], 0, frozenset())))
        okc = bool(alts)
        for a in alts:
            if a in ('0', 'false'):
                continue
            if re.match(r'^\(var:entry→WalEntry\.seq_no (Le|Lt|Eq) arg:snapshot_last_wal_seq\)$', a):
                continue
            if re.match(r'^\(var:entry→WalEntry\.timestamp (Le|Lt|Eq) arg:snapshot_timestamp\)$', a):
                continue
            okc = False
        ctx.inst('C02.R2', comp.short, 'covered ⇐ seq_no ≤ snapshot seq (or legacy timestamp ≤ snapshot timestamp)', okc,
                 'definitions of `covered`: %s' % alts)
        # `!covered` clears all_entries_covered on every path to the next entry
        al = comp.var_local('all_entries_covered')
        sw = [(i, preds) for i, preds in switches(comp, cv) if any(p in ('bool[var:covered]', '!bool[var:covered]') for _, p in preds)]
        if not al or not sw:
            ctx.missing('C02.R2', 'compact_old_wal_segments: `if !covered { all_entries_covered = false }`')
        else:
            i, preds = sw[0]
            neg_t = [tg for tg, p in preds if p == '!bool[var:covered]']
            clears = [d[0] for d in comp.defs.get(al[0], []) if d[2] == 'assign' and flow.render(cv.of_rvalue(d[3]['rv'], 0, frozenset())) in ('0', 'false')]
            # next entry = loop head of the inner loop: the nearest Iterator::next reachable
            st_ = [t for t in neg_t if t not in clears]
            r = (comp.reach(st_, avoid_blocks=clears) | set(st_)) if st_ else set()
            nxt = [c.bb for c in comp.calls if c.is_('re:Iterator>::next$') and c.bb in r]
            ctx.inst('C02.R2', comp.short, 'an uncovered entry clears all_entries_covered', bool(clears) and not nxt and not (set(neg_t) & set(clears) and False),
                     'assignments all_entries_covered=false: %d; next-entry reachable from the !covered edge without one: %s' % (len(clears), bool(nxt)))

    # ------------------------------------------------------------------ R3 unlink guard
    ctx.rule('C02.R3', 'unlink guard in compact_old_wal_segments: remove_file is dominated by the false edge of idx == active index '
                       '(active index = wal_segments.len() − 1) and by the true edge of all_entries_covered; every loop-body path '
                       'that does not unlink keeps the segment listed, the file-missing case excepted; the kept list replaces '
                       'manifest.wal_segments')
    # the function condemns a segment by putting its path on the list it returns (create_snapshot unlinks that list after the pruned MANIFEST is saved, C01.R4);
    # it performs no unlink itself
    rm = comp.calls_to('std::fs::remove_file')
    ctx.inst('C02.R3', comp.short, 'decides only: no unlink inside the compaction', not rm, 'remove_file calls in compact_old_wal_segments: %d' % len(rm))
    ret_o = flow.render(flow.Origin(comp, stop_at_vars=True).of_local(0))
    mret = re.search(r'Result::Ok\{var:(\w+)\}', ret_o)
    cvar = 'var:' + mret.group(1) if mret else None
    cond = [c for c in comp.calls if c.is_('re:Vec<.*>::push$', 're:::push$') and c.args and cvar and flow.render(cv.of_operand(c.args[0])) == cvar]
    if len(cond) != 1:
        ctx.missing('C02.R3', 'compact_old_wal_segments: exactly one push onto the returned list of covered segments (found %d; returns %s)' % (len(cond), ret_o[:80]))
    else:
        rmb = cond[0].bb
        rm = cond
        act = edges_matching(comp, cv, r'^!cmp\[\+ var:active_wal_index - var:idx == 0\]$|^!cmp\[\+ var:idx - var:active_wal_index == 0\]$')
        allc = edges_matching(comp, cv, r'^bool\[var:all_entries_covered\]$')
        for nm, es in (('idx ≠ active index', act), ('all_entries_covered', allc)):
            if not es:
                ctx.inst('C02.R3', comp.short, 'remove_file guarded by ' + nm, False, 'anchor missing: guard %s not found in a recognised form' % nm)
                continue
            pass_edges = [(i, tg) for i, tg, p in es]
            # every path to the condemning push crosses one of the pass edges  ≡ unreachable when they are deleted
            r = comp.reach([0], avoid_edges=pass_edges)
            ctx.inst('C02.R3', comp.short, 'remove_file guarded by ' + nm, rmb not in r,
                     'the push that condemns a segment at %s %s' % (rm[0].loc, 'is reachable without passing the guard' if rmb in r else 'only past the guard edge'))
        pv = flow.render(cv.of_operand(cond[0].args[1]))
        ctx.inst('C02.R3', comp.short, 'the condemned path is the segment examined in this iteration', pv in ('var:wal_path',) or 'wal_path' in pv, 'pushed: %s' % pv[:80])
        ai = comp.var_local('active_wal_index')
        if ai:
            r = flow.render(flow.Origin(comp).of_local(ai[0]))
            ctx.inst('C02.R3', comp.short, 'active index = wal_segments.len() − 1',
                     bool(re.search(r'saturating_sub\(Vec::len\(arg:manifest→Manifest\.wal_segments\), 1\)|\(Vec::len\(arg:manifest→Manifest\.wal_segments\) Sub(WithOverflow)? 1\)', r)),
                     'active_wal_index = %s' % r)
        # keep-or-condemn: from the outer loop's body start, reaching the outer loop head again without condemning
        # must pass a push to segments_to_keep or the file-missing edge
        pushes = [c.bb for c in comp.calls if c.is_('re:Vec<.*>::push$', 're:::push$') and c.args
                  and 'segments_to_keep' in flow.render(cv.of_operand(c.args[0]))]
        missing = [(i, tg) for i, tg, p in edges_matching(comp, cv, r'^!bool\[Path::exists\(.*\)\]$')]
        outer_heads = [c.bb for c in comp.calls if c.is_('re:Enumerate<.*Iterator>::next$')]
        if not outer_heads or not pushes:
            ctx.missing('C02.R3', 'compact_old_wal_segments: outer loop head / segments_to_keep.push')
        else:
            h = outer_heads[0]
            start = comp.succ(h)
            r = comp.reach(start, avoid_blocks=pushes + [rmb], avoid_edges=missing)
            ctx.inst('C02.R3', comp.short, 'a segment that is not unlinked stays listed (file-missing excepted)', h not in r,
                     'the next segment can be reached without condemning, keeping or the file-missing case' if h in r else
                     '%d keep sites, 1 condemn site, %d file-missing edges cover every loop-body path' % (len(pushes), len(missing)))
        asg = util.assign_blocks(comp, r'Manifest\.wal_segments$')
        ctx.inst('C02.R3', comp.short, 'manifest.wal_segments replaced by the kept list', bool(asg), 'assignment blocks: %s' % asg)

    # ------------------------------------------------------------------ R4 writer/reader op table
    ctx.rule('C02.R4', 'writer/reader operation table: insert→Insert (+ rollback Delete), delete→Delete, batch_delete→Delete, '
                       'update_metadata→UpdateMetadata on the writer side; the recovery switch on entry.op handles all three variants '
                       'explicitly with Insert→map insert, Delete→map remove, UpdateMetadata→assignment through get_mut')
    WR = {'HnswBackend::insert': {'Insert', 'Delete'}, 'HnswBackend::delete': {'Delete'},
          'HnswBackend::batch_delete': {'Delete'}, 'HnswBackend::update_metadata': {'UpdateMetadata'}}
    for fn, want in WR.items():
        f = ctx.body('C02.R4', fn)
        got = set()
        for b in prog.family(f):
            og = flow.Origin(b)
            for i, blk in enumerate(b.blocks):
                for s in blk['s']:
                    rv = s.get('rv')
                    if rv and rv['k'] == 'agg' and rv.get('adt', '').endswith('persistence::WalEntry'):
                        r = flow.render(og.of_operand(rv['ops'][rv['fields'].index('op')]))
                        m = re.search(r'WalOp::(\w+)', r)
                        got.add(m.group(1) if m else r)
        ctx.inst('C02.R4', f.short, 'logs %s' % '/'.join(sorted(want)), got == want, 'WalEntry.op constants constructed: %s' % sorted(got))
    wal_op = prog.adts.get('kyrodb_engine::persistence::WalOp')
    variants = [v['name'] for v in wal_op['variants']] if wal_op else []
    ctx.inst('C02.R4', 'WalOp', 'variants = {Insert, Delete, UpdateMetadata}', sorted(variants) == ['Delete', 'Insert', 'UpdateMetadata'],
             'variants: %s' % variants)
    if op_sw:
        preds = flow.switch_edge_predicates(rec, op_sw[0], ov)
        handled = {}
        for tg, p in preds:
            m = re.match(r'^variant\(var:entry→WalEntry\.op\) = (\w+)$', p)
            if m:
                handled[m.group(1)] = tg
        ctx.inst('C02.R4', rec.short, 'replay handles every WalOp variant explicitly', sorted(handled) == sorted(variants),
                 'handled: %s' % sorted(handled))
        EFFECT = {'Insert': r'HashMap<.*>::insert$|HashMap::insert$', 'Delete': r'HashMap<.*>::remove$|HashMap::remove$',
                  'UpdateMetadata': r'HashMap<.*>::get_mut$|HashMap::get_mut$'}
        others = set(handled.values())
        for v, tg in handled.items():
            # region of this arm: reachable from tg without entering the other arms / going back to the loop head
            stop = (others - {tg}) | {head} if op_sw and heads else (others - {tg})
            region = rec.reach([tg], avoid_blocks=stop) | {tg}
            calls = [c for c in rec.calls if c.bb in region and c.callee and c.args and 'documents' in flow.render(ov.of_operand(c.args[0]))]
            names = sorted(set(c.callee.split('::')[-1] for c in calls))
            want_rx = EFFECT.get(v)
            ok = bool(want_rx) and any(re.search(want_rx, c.callee) for c in calls)
            # the effect is unconditional in its arm: the next entry is unreachable from the arm without it (Err exits aside)
            eb = [c.bb for c in calls if re.search(want_rx or '^$', c.callee)]
            if ok and heads:
                rr = rec.reach([tg], avoid_blocks=set(eb) | flow.err_blocks(rec)) | {tg}
                if head in rr and tg not in eb:
                    ok = False
                    names = names + ['(conditional: the next entry is reachable from the arm without the effect)']
            foreign = [n for n in names if n in ('insert', 'remove', 'get_mut', 'clear') and not re.search(want_rx or '^$', 'HashMap::' + n)]
            ctx.inst('C02.R4', rec.short, 'replay %s → %s' % (v, {'Insert': 'insert', 'Delete': 'remove', 'UpdateMetadata': 'get_mut+assign'}.get(v)),
                     ok and not foreign, 'operations on `documents` in the %s arm: %s' % (v, names))

    # ------------------------------------------------------------------ R5 compaction rebuilds from live documents only
    ctx.rule('C02.R5', 'tombstone compaction: every push into the rebuilt store is dominated by the Some(external_id) edge of the '
                       'old internal_to_external entry; the new index is filled from the compacted store.embeddings; the metadata '
                       'index is rebuilt from the compacted store')
    ct = ctx.body('C02.R5', 'HnswBackend::compact_tombstones')
    co = flow.Origin(ct, stop_at_vars=True)
    some_edges = [(i, tg) for i, tg, p in edges_matching(ct, co, r'^variant\(var:ext\) = Some$')]
    if not some_edges:
        # `let Some(external_id) = ext else { continue }`
        some_edges = [(i, tg) for i, tg, p in edges_matching(ct, co, r'^variant\(.*\.1\) = Some$|^variant\(.*ext.*\) = Some$')]
    pushes = [c for c in ct.calls if c.callee and re.search(r'::push$|HashMap.*::insert$', c.callee) and c.args
              and re.search(r'DocumentStore\.(embeddings|metadata|versions|digests|internal_to_external|external_to_internal)$',
                            flow.render(flow.Origin(ct).of_operand(c.args[0])))]
    if not some_edges:
        ctx.inst('C02.R5', ct.short, 'live-only guard', False, 'anchor missing: no `Some(external_id)` test of the old internal_to_external entry')
    else:
        r = ct.reach([0], avoid_edges=some_edges)
        bad = [c for c in pushes if c.bb in r]
        ctx.inst('C02.R5', ct.short, 'pushes into the rebuilt store only for live entries', len(pushes) >= 6 and not bad,
                 '%d store pushes; reachable without the Some(external_id) edge: %s' % (len(pushes), [c.loc for c in bad]))
    fo = flow.Origin(ct)
    pib = ct.calls_to('HnswVectorIndex::parallel_insert_batch')
    if pib:
        r = flow.render(fo.of_operand(pib[0].args[1]))
        ctx.inst('C02.R5', ct.short, 'new index built from the compacted embeddings', 'DocumentStore.embeddings' in r and 'old_' not in r, 'batch source: %s' % r[:300])
    else:
        ctx.missing('C02.R5', 'compact_tombstones: parallel_insert_batch')
    rb = ct.calls_to('MetadataInvertedIndex::rebuild_from')
    if rb:
        a0 = flow.render(fo.of_operand(rb[0].args[0]))
        a1 = flow.render(fo.of_operand(rb[0].args[1]))
        ctx.inst('C02.R5', ct.short, 'metadata index rebuilt from the compacted store',
                 a0.endswith('DocumentStore.metadata') and a1.endswith('DocumentStore.internal_to_external'), 'rebuild_from(%s, %s)' % (a0[-60:], a1[-60:]))
        # and it is installed
        mi = [c for c in ct.calls if c.is_('re:RwLock::write$') and c.args and 'metadata_index' in flow.render(fo.of_operand(c.args[0]))]
        ctx.inst('C02.R5', ct.short, 'rebuilt metadata index installed', bool(mi), 'metadata_index.write() sites: %d' % len(mi))
    else:
        ctx.missing('C02.R5', 'compact_tombstones: MetadataInvertedIndex::rebuild_from')
    # completeness of the compaction rebuild: every live slot is copied — the only must-pass guards of the pushes into the rebuilt store are "there are
    # tombstones", the zip iteration and "this slot has an external id"; a further skip condition silently drops live documents at the next compaction
    ctb = ctx.body('C02.R5', 'HnswBackend::compact_tombstones')
    if ctb is not None:
        cv = flow.Origin(ctb, stop_at_vars=True)
        cpush = [c for c in ctb.calls if c.callee and c.callee.endswith('Vec::push') and not c.exp and re.search(r'DocumentStore\.(embeddings|metadata|versions|digests|internal_to_external)$', flow.render(cv.of_operand(c.args[0], 0, frozenset({-1}))))]
        allowed = [r'^!cmp\[\+ var:tombstones == 0\]$', r'^variant\(<zip::Zip<A, B> as iterator::Iterator>::next\(var:iter\)\) = Some$', r'^variant\(var:ext\) = Some$', r'^variant\(var:\w+\) = Some$']
        cpreds = [(i_, tg, p) for i_, blk in enumerate(ctb.blocks) if blk['t']['k'] == 'switch' and i_ in ctb.live_blocks() for tg, p in flow.switch_edge_predicates(ctb, i_, cv)]
        extra_all = set()
        for c in cpush:
            must = [p for i_, tg, p in cpreds if c.bb not in ctb.reach([0], avoid_edges=[(i_, tg)])]
            extra_all |= set(p for p in must if not any(re.match(a, p) for a in allowed))
        ctx.inst('C02.R5', ctb.short, 'every live slot is copied: the pushes into the rebuilt store have no skip condition besides the tombstone test', len(cpush) >= 5 and not extra_all,
                 ('additional skip condition(s): %s' % sorted(x[:90] for x in extra_all)) if extra_all else '%d pushes guarded only by tombstones ≠ 0, the iteration and Some(external id)' % len(cpush))

    # ------------------------------------------------------------------ R6 the log carries the post-image
    ctx.rule('C02.R6', 'post-image agreement: what a mutator writes into the log entry is what it installs in memory, because replay installs the logged value '
                       'as is — update_metadata logs the map it assigns to store.metadata[id] (the merged map, not the caller\'s delta; replay does a full '
                       'replacement); insert logs a copy of the vector taken after the last in-place change (normalisation) and pushes that same vector, and '
                       'logs / pushes the same metadata map')
    um = ctx.body('C02.R6', 'HnswBackend::update_metadata')
    if um is not None:
        uv = flow.Origin(um, stop_at_vars=True)
        uf = flow.Origin(um)
        ent = [(i_, st['rv']) for i_, blk in enumerate(um.blocks) for st in blk['s'] if st.get('rv', {}).get('k') == 'agg' and st['rv'].get('adt', '').endswith('persistence::WalEntry')]
        logged = [flow.render(uv.of_operand(rv['ops'][rv['fields'].index('metadata')], 0, frozenset({-1}))) for _, rv in ent]
        applied = []
        for i_, blk in enumerate(um.blocks):
            for st in blk['s']:
                if 'rv' in st and st['pl'].get('p') == ['*'] and 'DocumentStore.metadata' in flow.render(uf.of_local(st['pl']['l'])):
                    applied.append((i_, flow.render(uv.of_rvalue(st['rv'], 0, frozenset({-1})))))
        same = len(set(logged)) == 1 and bool(applied) and all(a == logged[0] for _, a in applied) and re.match(r'^var:\w+$', logged[0] or '') is not None
        dom = False
        if same:
            ls = um.var_local(logged[0].split(':')[1])
            defs = [d for l_ in ls for d in um.defs.get(l_, [])]
            # the merge is an if/else: the entry is built only after one of the definitions ran
            r_nodef = um.reach([0], avoid_blocks=sorted(set(d[0] for d in defs)))
            dom = bool(defs) and all(e_[0] not in r_nodef for e_ in ent)
        ctx.inst('C02.R6', um.short, 'logged metadata = the map assigned to store.metadata[id], computed before the entry is built', same and dom,
                 'WalEntry.metadata = %s; store.metadata[id] := %s; defined before the entry: %s' % (logged, sorted(set(a for _, a in applied)), dom))
    ib = ctx.body('C02.R6', 'HnswBackend::insert')
    if ib is not None:
        iv = flow.Origin(ib, stop_at_vars=True)
        iff = flow.Origin(ib)
        ent = [(i_, st['rv']) for i_, blk in enumerate(ib.blocks) for st in blk['s'] if st.get('rv', {}).get('k') == 'agg' and st['rv'].get('adt', '').endswith('persistence::WalEntry')
               and 'WalOp::Insert' in flow.render(iv.of_operand(st['rv']['ops'][st['rv']['fields'].index('op')], 0, frozenset({-1})))]
        if len(ent) != 1:
            ctx.missing('C02.R6', 'HnswBackend::insert: the Insert log entry (found %d)' % len(ent))
        else:
            eb, rv = ent[0]
            for fld, store_field in (('embedding', 'DocumentStore.embeddings'), ('metadata', 'DocumentStore.metadata')):
                lv = flow.render(iv.of_operand(rv['ops'][rv['fields'].index(fld)], 0, frozenset({-1})))
                m_ = re.match(r'^var:(\w+)$', lv)
                src = None
                clone_bb = None
                if m_:
                    for l_ in ib.var_local(m_.group(1)):
                        for d in ib.defs.get(l_, []):
                            if d[2] == 'call' and d[3].callee and d[3].callee.endswith('Clone>::clone'):
                                src = flow.render(iv.of_operand(d[3].args[0], 0, frozenset({-1})))
                                clone_bb = d[0]
                pushes = [c for c in ib.calls if c.callee and c.callee.endswith('Vec::push') and flow.render(iff.of_operand(c.args[0])).endswith(store_field)]
                pv = [flow.render(iv.of_operand(c.args[1], 0, frozenset({-1}))) for c in pushes]
                pv_n = [re.sub(r'^mem::take\((.*)\)$', r'\1', x) for x in pv]
                # in-place changes of the source variable (calls that take it by &mut) all happen before the copy
                muts = [c for c in ib.calls if c.callee and not c.exp and src and any(flow.render(iv.of_operand(a, 0, frozenset({-1}))) == src and ib.locals[a['pl']['l']].startswith('&mut') for a in c.args if a.get('k') in ('cp', 'mv') and not a['pl'].get('p'))
                        and not c.callee.endswith('Clone>::clone')]
                late = [c for c in muts if clone_bb is not None and c.bb in ib.reach([clone_bb]) and c not in pushes and 'mem::take' not in c.callee]
                ok = src is not None and len(pushes) == 1 and pv_n == [src] and not late and clone_bb is not None and ib.dominates(clone_bb, eb)
                ctx.inst('C02.R6', ib.short, 'logged %s is a copy of the %s that is pushed, taken after its last in-place change' % (fld, fld), ok,
                         'WalEntry.%s = %s = clone(%s); pushed: %s; in-place changes after the copy: %s' % (fld, lv, src, pv, [flow.short(c.callee) for c in late]))
    if rec is not None:
        rv_ = flow.Origin(rec, stop_at_vars=True)
        rf_ = flow.Origin(rec)
        asg = []
        for i_, blk in enumerate(rec.blocks):
            for st in blk['s']:
                if 'rv' in st and st['pl'].get('p') == ['*'] and 'HashMap<alloc::string::String, alloc::string::String' in rec.locals[st['pl']['l']] and rec.locals[st['pl']['l']].startswith('&mut'):
                    asg.append((i_, flow.render(rv_.of_rvalue(st['rv'], 0, frozenset({-1})))))
        um_edges = [(i_, tg) for i_, blk in enumerate(rec.blocks) if blk['t']['k'] == 'switch' and i_ in rec.live_blocks() for tg, p in flow.switch_edge_predicates(rec, i_, rv_)
                    if re.match(r'^variant\(var:entry→WalEntry\.op\) = UpdateMetadata$', p)]
        arm = set()
        for i_, tg in um_edges:
            arm |= {x for x in (rec.reach([tg]) | {tg}) if rec.dominates(tg, x)}
        asg = [(i_, a) for i_, a in asg if i_ in arm]
        ctx.inst('C02.R6', rec.short, 'replay of UpdateMetadata installs the logged map as is (full replacement)', bool(um_edges) and bool(asg) and all(a == 'var:entry→WalEntry.metadata' for _, a in asg),
                 'assignments to the document\'s metadata during replay: %s' % sorted(set(a for _, a in asg)))
    # ------------------------------------------------------------------ R7 re-normalising a stored vector is the identity
    ctx.rule('C02.R7', 'the vector normaliser is applied once on insert (its output is logged and stored) and AGAIN to every recovered vector: bit-identity after restart '
                       'needs it to leave its own output alone — the in-range test of the squared norm must send EVERY normalising metric to the untouched return, so the '
                       'component writes are reachable only through the out-of-range edge (whether a scaled vector lands in range is arithmetic, not decided)')
    nz = ctx.body('C02.R7', 'hnsw_backend::normalize_in_place_if_needed')
    if nz is not None:
        on = flow.Origin(nz)
        callers7 = sorted(set(c.body.name for c in prog.callers_of('hnsw_backend::normalize_in_place_if_needed')))
        ctx.inst('C02.R7', nz.short, 'applied on the write path and again on recovery', 'insert' in callers7 and any('recover' in x for x in callers7), 'callers: %s' % callers7)
        out_edges = [(i_, tg) for i_, blk in enumerate(nz.blocks) if blk['t']['k'] == 'switch' and i_ in nz.live_blocks() for tg, p_ in flow.switch_edge_predicates(nz, i_, on)
                     if re.match(r'^!bool\[RangeInclusive::contains\(RangeInclusive::new\(.*NORMALIZATION_NORM_SQ_MIN, .*NORMALIZATION_NORM_SQ_MAX\), simd::sum_squares_f32\(arg:embedding\)\)\]$', p_)]
        writes = [i_ for i_, blk in enumerate(nz.blocks) if i_ in nz.live_blocks() for st in blk['s'] if 'rv' in st and st['pl'].get('p') == ['*'] and 'f32' in nz.locals[st['pl']['l']]]
        r7 = nz.reach([0], avoid_edges=out_edges) | {0}
        leak = [w for w in writes if w in r7]
        ctx.inst('C02.R7', nz.short, 'components are rewritten only when the squared norm is out of range', bool(out_edges) and bool(writes) and not leak,
                 ('the write at %s is reachable with the norm in range: a stored (already normalised) vector is rescaled again on recovery and comes back with different bits'
                  % nz.loc_of(leak[0])) if leak else '%d component write(s), all behind the out-of-range edge' % len(writes))
        # the range constants used by the normaliser and by the index's acceptance test are the same items (an accepted vector is one the normaliser leaves alone)
        rng = sorted(set(re.findall(r'(\w+::NORMALIZATION_NORM_SQ_M(?:IN|AX))', ' '.join(p_ for i_, blk in enumerate(nz.blocks) if blk['t']['k'] == 'switch'
                                                                                              for tg, p_ in flow.switch_edge_predicates(nz, i_, on)))))
        ctx.inst('C02.R7', nz.short, 'range bounds are the named constants', len(rng) == 2, 'bounds: %s' % rng)
    # ------------------------------------------------------------------ R8 nothing is logged that the index then refuses
    # replay applies Insert(new) and then the compensating Delete: for an overwrite that is NOT the live state (the previous version is still live, but gone after
    # the restart). So every rejection class of the index must be refused before the log append — the C03.R1 table, shared
    from rules import C03 as _C03
    from kvstatic.effects import Effects as _Eff8
    eff8 = _Eff8(prog)
    eff8.define('wal_append', 'WalWriter::append', 'WalWriter::append_batch')
    _C03.rejection_classes(ctx, prog, 'C02.R8', eff8)
    ctx.stat('functions_analysed', len(set(i['key'].split(' | ')[1] for i in ctx.instances)))
