"""C03 — a write that reports failure changes nothing, now or after restart.

Decided statically: every rejection class of the index is checked BEFORE the log append (table agreement between
HnswVectorIndex::add_vector and the pre-append region of HnswBackend::insert); a failed append cannot reach the
in-memory apply; compensation after a post-log failure; truncate-on-failure in the log writer; the single durable
write funnel.  Necessary conditions of the behaviour; errno-sequence behaviour of the retry loop is not decided.
"""
import re

from kvstatic import flow, rt, util
from kvstatic.effects import Effects

MANIFEST = {
    'text': 'Decides the structural clauses that make a reported failure side-effect free: the index\'s rejection '
            'classes (dimension, non-finite, full, norm, id cast) are enumerated from its MIR and each must have a guard '
            'of the same class before the WAL append whose failing edge cannot reach the append; failed appends are '
            'inert; post-log failures are compensated; the log writer truncates on failure; one write funnel. '
            'Clauses are necessary conditions; behaviour under injected errno sequences is not decided.',
    'design_ref': 'DESIGN.md §4.3',
    'note': 'Trusted base: rustc MIR, the guard normal forms used to classify rejection exits, success/failure edge '
            'extraction. Numeric agreement of the normalisation constants between the two modules is compared by '
            'constant name and value where the driver can evaluate it.',
    'technique': 'table agreement between sibling implementations + CFG dominance / failure-edge isolation on MIR',
}

EXPLANATION = (
    'TABLE rule C03.R1: each Err exit of HnswVectorIndex::add_vector is classified by the normal form of its '
    'controlling guard (DIM, FINITE, FULL, NORM, IDCAST); an unclassified exit fails. For every class, '
    'HnswBackend::insert must contain, before WalWriter::append, a guard of the same class whose failing edge cannot '
    'reach the append and whose passing edge every path to the append crosses (DIM exempt when the backend dimension '
    'is 0; NORM = propagated normalize_in_place_if_needed with its own non-finite-norm and zero-norm refusals, accepted '
    'only together with FINITE). Equivalent shapes of a guard are classified by what they decide, not by their text: FINITE also as '
    'an explicit loop over the whole embedding that sets a flag tested after it (finite_flag_guards: every element is_finite-tested, '
    'the flag untouched only when the iterator is exhausted), FULL also through HnswVectorIndex::is_full when its body is that '
    'comparison, IDCAST as any test of the Err-ness of try_from(doc_id). R2–R5: DOM/ORD/WMC rules of DESIGN §4.3.')

CLASSES = [
    ('DIM', r'^!cmp\[\+ .*(HnswVectorIndex\.dimension - slice::len\(arg:embedding\)|slice::len\(arg:embedding\) - .*HnswVectorIndex\.dimension) == 0\]$'),
    ('FINITE', r'^bool\[.*Iterator>::any\(slice::iter\(arg:embedding\), closure:.*\)\]$'),
    ('FULL', r'^cmp\[\+ .*HnswVectorIndex\.current_count - .*HnswVectorIndex\.max_elements >= 0\]$'),
    # the same refusal through the struct's own accessor: accepted only when the accessor's body IS that comparison on its receiver (accessor_is_capacity_test)
    ('FULL', r'^bool\[HnswVectorIndex::is_full\(arg:self\)\]$'),
    ('NORM', r'^!bool\[RangeInclusive::contains\(RangeInclusive::new\(.*NORMALIZATION_NORM_SQ_MIN, .*NORMALIZATION_NORM_SQ_MAX\), simd::sum_squares_f32\(arg:embedding\)\)\]$'),
    # the id-width refusal is the Err-ness of usize::try_from(doc_id), whatever form tests it: `.map_err(..)?` (= Break; map_err and Try::branch are transparent for
    # origins), `match .. { Err(_) => bail!(..) }` (= Err), `let Ok(..) = .. else { bail!(..) }` (otherwise edge: ∉ {Ok})
    ('IDCAST', r'^variant\((?:[\w:<> ]*::)?try_from\(arg:doc_id\)\) (?:= (?:Break|Err)|∉ \{(?:Ok|Continue)\})$'),
]


def accessor_is_capacity_test(prog):
    """HnswVectorIndex::is_full is literally `self.current_count >= self.max_elements`: one straight-line body without calls whose return value is that comparison
    of the two fields of its own receiver.  Only then does `if self.is_full() { refuse }` in add_vector stand for the inline comparison (class FULL)."""
    isf = prog.body('HnswVectorIndex::is_full')
    if isf is None or isf.argc != 1 or isf.calls or any(b['t']['k'] == 'switch' for b in isf.blocks):
        return False
    r = flow.render(flow.Origin(isf).of_local(0))
    return r == '(arg:self→HnswVectorIndex.current_count Ge arg:self→HnswVectorIndex.max_elements)'


def controlling_edge(body, bb, origin):
    """Nearest switch edge (sw, target, predicate) that every path into bb crosses (walk up unique predecessors)."""
    cur = bb
    for _ in range(40):
        ps = [p for p in body.pred(cur) if p in body.live_blocks()]
        if len(ps) != 1:
            return None
        p = ps[0]
        if body.blocks[p]['t']['k'] == 'switch':
            for tg, pred in flow.switch_edge_predicates(body, p, origin):
                if tg == cur:
                    return (p, tg, pred)
            return None
        cur = p
    return None


def closure_calls(prog, pred_text, *patterns):
    m = re.search(r'closure:([\w:<> ]*?\{closure#\d+\})', pred_text)
    if not m:
        return False
    short_id = m.group(1)
    for b in prog.bodies.values():
        if b.kind == 'Closure' and b.id.endswith(short_id):
            if b.calls_to(*patterns):
                return True
    return False


def _call_local(call):
    """local of the first argument of a call when it is a plain move / copy of a whole local"""
    if not call.args:
        return None
    a = call.args[0]
    if a.get('k') in ('mv', 'cp') and not a['pl'].get('p'):
        return a['pl']['l']
    return None


def _mentions(body, l):
    """(bb, kind) of every read / borrow of local l in the live part of the body (kind: 'ref' = borrowed or assigned through, 'use', 'arg', 'switch')."""
    out = []
    for i in sorted(body.live_blocks()):
        blk = body.blocks[i]
        for s in blk['s']:
            rv = s.get('rv')
            if not rv:
                continue
            if rv['k'] in ('ref', 'rawptr') and rv['pl']['l'] == l:
                out.append((i, 'ref'))
            elif flow._rv_mentions(rv, l):
                out.append((i, 'use'))
            if s['pl']['l'] == l and s['pl'].get('p'):
                out.append((i, 'ref'))      # assignment through a projection of l
        t = blk['t']
        if t['k'] == 'call' and any(a.get('k') in ('mv', 'cp') and a['pl']['l'] == l for a in t.get('args', [])):
            out.append((i, 'arg'))
        elif t['k'] == 'switch' and flow._op_local(t['on']) == l:
            out.append((i, 'switch'))
    return out


def finite_flag_guards(body, param='embedding'):
    """The explicit-loop form of `if <param>.iter().any(|v| !v.is_finite()) { refuse }`:

        let mut flag = C;  for v in <param>.iter() { if !v.is_finite() { flag = !C; break; } }  if flag == !C { refuse }

    Returns {switch block S: ([failing targets], [passing targets], text)} for every bool switch S on such a flag.  The failing edge of S is the one taken when the
    flag was moved off its initial value; what makes the PASSING edge mean "every element of <param> is finite" is decided here, on the CFG — not by the look of the loop:
      (a) the flag is a bool local that is never borrowed and only ever assigned constants: its initial value C in ONE block I, the opposite value in the blocks SET;
          S tests the flag itself (copies / negations inside S's own block only);
      (b) the loop head H is a `slice::Iter::next` call on an iterator that is the whole of <param> (`<param>.iter()` / `&<param>`: origin is the parameter itself, no
          slicing, no adapter), created once, moved from temporary to temporary into the loop and borrowed nowhere but at H (nothing else advances it);
      (c) every element is looked at: from the Some edge of H the next call of H is unreachable once the SET blocks and the edges "is_finite(this element) is true"
          are deleted — no `continue` before the test, no test of something else;
      (d) the loop is left with the flag untouched only when the iterator is exhausted: from I, with the SET blocks and the None edge of H deleted, S is unreachable
          (no `break` after a finite element, no way round the loop); I and the iterator are not inside an enclosing cycle with H.
    Setting the flag more often than necessary only refuses more; that is not what this guard class decides."""
    out = {}
    o = flow.Origin(body)
    live = body.live_blocks()
    heads = [c for c in body.calls if c.bb in live and c.callee and re.search(r'^<core::slice::iter::Iter<.*> as core::iter::traits::iterator::Iterator>::next$', c.callee)
             and c.dest and not c.dest.get('p') and c.to is not None]
    loops = []
    for H in heads:
        # (b) the iterator: H's receiver is `&mut *(&mut it)`; `it` is defined once, by a move chain that starts at slice::iter / into_iter of the whole parameter
        l = _call_local(H)
        it = None
        for _ in range(4):
            ds = body.defs.get(l, [])
            if len(ds) != 1 or ds[0][2] != 'assign' or ds[0][0] != H.bb or ds[0][3]['rv']['k'] != 'ref':
                break
            pl = ds[0][3]['rv']['pl']
            if [x for x in (pl.get('p') or []) if x != '*']:
                break
            l = pl['l']
            if 'core::slice::iter::Iter<' in body.locals[l] and not body.locals[l].startswith('&'):
                it = l
                break
        if it is None:
            continue
        chain, cur, src, okc = [it], it, None, True
        for _ in range(6):
            ds = body.defs.get(cur, [])
            if len(ds) != 1:
                okc = False
                break
            bb_, _i, kind, payload = ds[0]
            if kind == 'assign' and payload['rv']['k'] == 'use' and payload['rv']['a'].get('k') == 'mv' and not payload['rv']['a']['pl'].get('p'):
                cur = payload['rv']['a']['pl']['l']
                chain.append(cur)
                continue
            if kind == 'call' and payload.is_('core::iter::traits::collect::IntoIterator::into_iter') and 'core::slice::iter::Iter<' in body.locals[cur]:
                nxt = _call_local(payload)
                if nxt is not None and body.locals[nxt].startswith('core::slice::iter::Iter<') and payload.args[0]['k'] == 'mv':
                    cur = nxt
                    chain.append(cur)
                    continue
                src = payload      # `for v in &param`: into_iter of a reference to the whole vector
                break
            if kind == 'call' and payload.callee == 'core::slice::iter' and body.locals[cur].startswith('core::slice::iter::Iter<'):   # <[T]>::iter (generics stripped)
                src = payload
                break
            okc = False
            break
        if not okc or src is None or not src.args or flow.render(o.of_operand(src.args[0])) != 'arg:%s' % param:
            continue
        # every local of the chain is read exactly once (moved on), the loop iterator is borrowed at H only
        for x in chain:
            ms = _mentions(body, x)
            if x == it:
                if any(m[0] != H.bb or m[1] != 'ref' for m in ms):
                    okc = False
            elif len(ms) != 1 or ms[0][1] == 'ref':
                okc = False
        it_def = body.defs[it][0][0]
        after_h = body.reach(body.succ(H.bb))
        if not okc or it_def in after_h or src.bb in after_h or not body.dominates(it_def, H.bb):
            continue
        # the Some / None edges of H
        blk = body.blocks[H.to]
        dl = [s['pl']['l'] for s in blk['s'] if s.get('rv') and s['rv']['k'] == 'discr' and s['rv']['pl']['l'] == H.dest['l'] and not s['rv']['pl'].get('p') and not s['pl'].get('p')]
        t = blk['t']
        if len(dl) != 1 or t['k'] != 'switch' or flow._op_local(t['on']) != dl[0]:
            continue
        tmap = dict((v, tg) for v, tg in t['tg'])
        if 0 not in tmap or 1 not in tmap or tmap[0] == tmap[1]:
            continue
        none_edge, some_tg = (H.to, tmap[0]), tmap[1]
        # edges "is_finite(the element H just produced) is true"
        ft = []
        for i in sorted(live):
            ti = body.blocks[i]['t']
            if ti['k'] != 'switch' or ti.get('onty') != 'bool':
                continue
            e, neg = o.of_operand(ti['on']), False
            while e[0] == 'un' and e[1] == 'Not':
                e, neg = e[2], not neg
            if not (e[0] == 'call' and e[1] == 'core::f32::is_finite' and len(e[2]) == 1):    # core::f32::<impl f32>::is_finite, generics stripped
                continue
            a = e[2][0]
            if not (a[0] == 'field' and a[2].endswith('Option::Some.0') and a[1][0] == 'downcast' and a[1][2] == 'Some' and a[1][1][0] == 'call'
                    and len(a[1][1]) > 3 and a[1][1][3] is H):
                continue
            vm = dict((v, tg) for v, tg in ti['tg'])
            true_tg = vm.get(0 if neg else 1, ti['else'])
            false_tg = vm.get(1 if neg else 0, ti['else'])
            if true_tg != false_tg:
                ft.append((i, true_tg))
        if ft:
            loops.append((H, none_edge, some_tg, ft))
    if not loops:
        return out
    for S in sorted(live):
        t = body.blocks[S]['t']
        if t['k'] != 'switch' or t.get('onty') != 'bool' or t['on'].get('k') not in ('mv', 'cp') or t['on']['pl'].get('p'):
            continue
        # (a) the flag behind S
        F, neg = t['on']['pl']['l'], False
        for _ in range(4):
            ds = body.defs.get(F, [])
            if len(ds) != 1 or ds[0][2] != 'assign' or ds[0][0] != S:
                break
            rv = ds[0][3]['rv']
            if rv['k'] == 'use' and rv['a'].get('k') in ('mv', 'cp') and not rv['a']['pl'].get('p'):
                F = rv['a']['pl']['l']
            elif rv['k'] == 'un' and rv['op'] == 'Not' and rv['a'].get('k') in ('mv', 'cp') and not rv['a']['pl'].get('p'):
                F, neg = rv['a']['pl']['l'], not neg
            else:
                break
        if body.locals[F] != 'bool' or 1 <= F <= body.argc:
            continue
        vals = {0: [], 1: []}
        okf = True
        for (bb_, _i, kind, payload) in body.defs.get(F, []):
            a = payload['rv']['a'] if kind == 'assign' and payload['rv']['k'] == 'use' else None
            if a is None or a.get('k') != 'c' or a.get('ty') != 'bool' or a.get('int') not in (0, 1):
                okf = False
                break
            vals[a['int']].append(bb_)
        if not okf or any(m[1] == 'ref' for m in _mentions(body, F)):
            continue
        for init in (0, 1):
            if len(vals[init]) != 1 or not vals[1 - init]:
                continue
            I, SET = vals[init][0], set(vals[1 - init])
            tmap = dict((v, tg) for v, tg in t['tg'])
            fail_tg = tmap.get((1 - init) ^ (1 if neg else 0), t['else'])
            pass_tg = tmap.get(init ^ (1 if neg else 0), t['else'])
            if fail_tg == pass_tg:
                continue
            for H, none_edge, some_tg, ft in loops:
                if not body.dominates(I, H.bb) or not body.dominates(H.bb, S) or I in body.reach(body.succ(H.bb)) or I in SET or S in SET:
                    continue
                # (c) no next element without this one found finite (or the flag set)
                if H.bb in body.reach([some_tg], avoid_blocks=SET, avoid_edges=set(ft)):
                    continue
                # (d) S with the flag untouched only across the None edge of H, and the loop is not re-entered from there
                if S in body.reach([I], avoid_blocks=SET, avoid_edges={none_edge}):
                    continue
                if H.bb in body.reach([none_edge[1]]):
                    continue
                out[S] = ([fail_tg], [pass_tg], 'flag-loop[f32::is_finite of every element of %s, loop at %s; flag `%s` set at %s]' % (
                    flow.render(o.of_operand(H.args[0])), H.loc, body.local_name(F),
                    sorted(set(d[3].get('loc', '?') for d in body.defs.get(F, []) if d[0] in SET))[:2]))
    return out


def find_guard(body, targets, fail_rx, exempt_rx=None, extra=None, structural=None):
    """A switch of `body` with an edge whose predicate matches fail_rx such that
       (2) from that failing edge no target is reachable without crossing a passing edge of the same switch, and
       (3) no target is reachable from entry once the passing edges (and exempt edges) are deleted.
    structural: {switch bb: ([failing targets], [passing targets], text)} — switches recognised as a guard of this class by their structure (finite_flag_guards)
    rather than by the text of their predicate; they are held to the same two conditions.
    Returns (switch bb, predicate, None) or (None, None, reason)."""
    o = flow.Origin(body)
    rx = re.compile(fail_rx)
    ex = re.compile(exempt_rx) if exempt_rx else None
    exempt_edges = set()
    if ex:
        for i, blk in enumerate(body.blocks):
            if blk['t']['k'] == 'switch':
                for tg, p in flow.switch_edge_predicates(body, i, o):
                    if ex.search(p):
                        exempt_edges.add((i, tg))
    reasons = []
    for i, blk in enumerate(body.blocks):
        if blk['t']['k'] != 'switch' or i not in body.live_blocks():
            continue
        preds = flow.switch_edge_predicates(body, i, o)
        fail = [(tg, p) for tg, p in preds if rx.search(p) and (extra is None or extra(p))]
        if not fail and structural and i in structural:
            fail = [(tg, p) for tg, p in preds if tg in structural[i][0] and tg not in structural[i][1]]
            fail = [(tg, structural[i][2]) for tg, _ in fail]
            preds = [(tg, structural[i][2] if tg in structural[i][0] else p) for tg, p in preds]
        if not fail:
            continue
        passing = [(i, tg) for tg, p in preds if (tg, p) not in fail]
        fail_t = [tg for tg, _ in fail]
        r2 = body.reach(fail_t, avoid_edges=passing) | set(fail_t)
        if any(t in r2 for t in targets):
            reasons.append('guard at %s: its failing edge still reaches the target' % body.loc_of(i))
            continue
        r3 = body.reach([0], avoid_edges=set(passing) | exempt_edges)
        if any(t in r3 for t in targets):
            reasons.append('guard at %s does not cover every path to the target' % body.loc_of(i))
            continue
        return i, fail[0][1], None
    return None, None, '; '.join(reasons) or 'no switch with a predicate of this class'


def no_failure_after_canonical(ctx, prog, rid, names):
    """After the canonical (cold-tier) mutation of a request succeeded, no Err return is reachable (shared: C03.R7 for the four engine mutators, C14.R5 for
    bulk_load_cold_tier, whose caller releases the WHOLE quota reservation on Err). Returns the number of canonical calls seen."""
    CANON7 = r'HnswBackend::(insert|delete|batch_delete|update_metadata)$'
    n7 = 0
    for name in names:
        f = ctx.body(rid, name)
        if f is None:
            continue
        o7 = flow.Origin(f)
        errs7 = flow.err_blocks(f)
        cs7 = [c for c in f.calls if c.callee and re.search(CANON7, c.callee)]
        if not cs7:
            ctx.missing(rid, '%s: canonical cold-tier mutation' % name)
            continue
        for k7, c in enumerate(cs7):
            n7 += 1
            se = flow.success_edges(f, c)
            r7 = (f.reach([e[1] for e in se]) | set(e[1] for e in se)) if se else set()
            bad7 = []
            for e_ in sorted(r7 & errs7):
                ce = controlling_edge(f, e_, o7)
                # the exit is recognised by what controls it — the None-ness of current_coherence_token's result — whatever form tests it: `.ok_or_else(..)?`
                # (= Break), `match … { None => … }` (= None), `let Some(..) = … else { return Err(..) }` (otherwise edge: ∉ {Some})
                if name == 'TieredEngine::insert' and ce and re.match(r'^variant\(HnswBackend::current_coherence_token\(.*\)\) (= (None|Break)|∉ \{(Some|Continue)\})$', ce[2]):
                    ctx.exception(rid, 'TieredEngine::insert: no canonical token after a successful insert',
                                  'only a concurrent delete of the same id can remove the token between the two calls; the final state then equals "insert failed, delete succeeded"')
                    continue
                bad7.append(e_)
            again = [x for x in cs7 if x.bb in r7]
            ctx.inst(rid, f.short, 'no failure after the canonical mutation #%d succeeded' % k7, bool(se) and not bad7,
                     ('Err return at %s is reachable after %s succeeded%s' % (f.loc_of(bad7[0]), flow.short(c.callee),
                      ' — the canonical call is executed again for the same request (a later slice can fail after earlier slices are durable)' if again else '')) if bad7
                     else '%s: every return after its success edge is Ok' % flow.short(c.callee))
    return n7


def rejection_classes(ctx, prog, rid, eff):
    """every rejection class of the index is refused before the log append (C03.R1; shared with C15.R2: an item refused after the
    append is answered with an error but leaves a compensating Delete that erases the previous version on replay)."""
    # ------------------------------------------------------------------ R1 validate before append
    ctx.rule(rid, 'every rejection class of HnswVectorIndex::add_vector has a guard of the same class before '
                       'WalWriter::append in HnswBackend::insert (failing edge cannot reach the append; every path to the '
                       'append crosses its passing edge); unclassified rejection exits fail')
    av = ctx.body(rid, 'HnswVectorIndex::add_vector')
    o = flow.Origin(av)
    found = {}
    av_flag = finite_flag_guards(av)
    for e in sorted(flow.err_blocks(av)):
        ce = controlling_edge(av, e, o)
        cls = None
        if ce:
            for name, rx in CLASSES:
                if re.search(rx, ce[2]):
                    if name == 'FINITE' and not util.finite_closure(prog, ce[2]):
                        continue
                    if name == 'FULL' and 'is_full(' in ce[2] and not accessor_is_capacity_test(prog):
                        continue
                    cls = name
            # the explicit-loop form of the non-finite refusal (flag set in a loop over the whole embedding, tested after it)
            if cls is None and ce[0] in av_flag and ce[1] in av_flag[ce[0]][0] and ce[1] not in av_flag[ce[0]][1]:
                cls = 'FINITE'
        if cls is None:
            ctx.inst(rid, av.short, 'unclassified rejection exit (%s)' % (ce[2][:80] if ce else 'no controlling guard'), False,
                     'add_vector has an Err exit at %s whose guard matches no known rejection class: %s — a new rejection reason '
                     'must get a pre-log check in HnswBackend::insert and a table entry' % (av.loc_of(e), ce[2] if ce else '?'))
        else:
            found[cls] = (e, ce)
    ctx.floor(rid, 'classified rejection exits of add_vector', len(found), 5, 'DIM, FINITE, FULL, NORM, IDCAST')
    ins = ctx.body(rid, 'HnswBackend::insert')
    app = eff.blocks(ins, 'wal_append')
    if not app:
        ctx.missing(rid, 'HnswBackend::insert: WAL append')
        return
    first_app = [util.first_in_flow(ins, app)]
    oi = flow.Origin(ins)
    have_finite = False
    for cls in [c for c, _ in CLASSES]:
        if cls not in found:
            continue
        if cls == 'DIM':
            g, p, why = find_guard(ins, first_app,
                                   r'^!cmp\[\+ .*(HnswBackend::dimension\(arg:self\) - (?:Vec|slice)[\w:<>, ]*::len\(arg:embedding\)|len\(arg:embedding\) - HnswBackend::dimension\(arg:self\)) == 0\]$',
                                   exempt_rx=r'^cmp\[\+ HnswBackend::dimension\(arg:self\) == 0\]$')
            ctx.inst(rid, ins.short, 'class DIM checked before the log', g is not None,
                     ('guard %s at %s' % (p, ins.loc_of(g))) if g is not None else 'no pre-append dimension guard: ' + why)
        elif cls == 'FINITE':
            g, p, why = find_guard(ins, first_app, r'^bool\[.*Iterator>::any\((?:slice::iter|.*iter)\(arg:embedding\), closure:.*\)\]$',
                                   extra=lambda p_: util.finite_closure(prog, p_), structural=finite_flag_guards(ins))
            have_finite = g is not None
            ctx.inst(rid, ins.short, 'class FINITE checked before the log', g is not None,
                     ('guard %s at %s' % (p[:120], ins.loc_of(g))) if g is not None else
                     'HnswBackend::insert appends to the WAL before any non-finite check; the index rejects such a vector '
                     'after the append and the compensating Delete erases the previous version on replay: ' + why)
        elif cls == 'FULL':
            g, p, why = find_guard(ins, first_app, r'^bool\[HnswVectorIndex::is_full\(RwLock::read\(arg:self→HnswBackend\.index\)\)\]$')
            ctx.inst(rid, ins.short, 'class FULL checked before the log', g is not None,
                     ('guard %s at %s' % (p, ins.loc_of(g))) if g is not None else 'no pre-append capacity guard: ' + why)
            isf = ctx.body(rid, 'HnswVectorIndex::is_full')
            r = flow.render(flow.Origin(isf).of_local(0))
            agree = bool(re.search(r'current_count Ge .*max_elements', r))
            ctx.inst(rid, isf.short, 'is_full ≡ the index\'s own capacity refusal', agree, 'is_full returns %s' % r)
        elif cls == 'NORM':
            calls = ins.calls_to('hnsw_backend::normalize_in_place_if_needed')
            okc = False
            for c in calls:
                use = util.result_use(ins, c)
                s_e = flow.success_edges(ins, c)
                dom = first_app[0] not in ins.reach([0], avoid_edges=s_e)
                if use == 'propagated' and dom:
                    okc = True
            nz = ctx.body(rid, 'hnsw_backend::normalize_in_place_if_needed')
            rets = nz.return_blocks()
            # inside the normaliser: non-finite norm and zero norm are refused on the normalising metrics
            g1, p1, w1 = find_guard_ok(nz, r'^!bool\[f32::is_finite\(simd::sum_squares_f32\(arg:embedding\)\)\]$')
            g2, p2, w2 = find_guard_ok(nz, r'^cmp\[\+ .*EPSILON - simd::sum_squares_f32\(arg:embedding\) >= 0\]$')
            ctx.inst(rid, ins.short, 'class NORM established before the log', okc and g1 and g2 and have_finite,
                     'normalize_in_place_if_needed propagated and dominating the append: %s; refuses non-finite norm: %s; '
                     'refuses zero norm: %s; FINITE guard present: %s' % (okc, bool(g1), bool(g2), have_finite))
            # what the normaliser leaves untouched must be what the index accepts: its in-range interval lies inside the index's acceptance interval
            # (values of the named constants, read from the MIR operands)
            nc = prog.named_constants()
            b_lo, b_hi = nc.get('kyrodb_engine::hnsw_backend::NORMALIZATION_NORM_SQ_MIN'), nc.get('kyrodb_engine::hnsw_backend::NORMALIZATION_NORM_SQ_MAX')
            i_lo, i_hi = nc.get('kyrodb_engine::hnsw_index::NORMALIZATION_NORM_SQ_MIN'), nc.get('kyrodb_engine::hnsw_index::NORMALIZATION_NORM_SQ_MAX')
            okr = None not in (b_lo, b_hi, i_lo, i_hi) and i_lo <= b_lo <= 1.0 <= b_hi <= i_hi
            ctx.inst(rid, nz.short, 'class NORM: the interval the normaliser leaves untouched lies inside the interval the index accepts', okr,
                     'normaliser leaves [%s, %s] untouched; index accepts [%s, %s]%s' % (b_lo, b_hi, i_lo, i_hi, '' if okr else
                      ' — a vector the normaliser passes as it is can be refused by the index AFTER the log append (compensating Delete erases the previous version on replay)'))
        elif cls == 'IDCAST':
            ctx.exception(rid, 'IDCAST', 'internal ids are store.embeddings.len() (usize) cast to u64; usize::try_from cannot fail on a 64-bit target')
            e = oi
            c = ins.calls_to('HnswVectorIndex::add_vector')
            r = flow.render(oi.of_operand(c[0].args[1])) if c else '?'
            ctx.inst(rid, ins.short, 'class IDCAST vacuous: id is a length', 'Vec' in r and 'len' in r, 'add_vector id argument: %s' % r)



def writer_handlers(ctx, prog, rid):
    """Provenance of WalWriter.error_handler (C03.R9): the field is set where the struct is built; a value that is a parameter of the building function is followed to
    every caller's argument (constructors that pass it on). Each site where the value is decided must decide `Some(..)`; a function that decides anything else and
    returns the writer is a handler-less constructor, which is tolerated only while nobody calls it."""
    from kvstatic.facts import strip_generics
    FIELD = 'persistence::WalWriter.error_handler'

    def on_field(pl):
        return any(isinstance(x, str) and x.endswith(FIELD) for x in (pl.get('p') or []))

    aggs, late = [], []
    for b in prog.bodies.values():
        for i, blk in enumerate(b.blocks):
            for st in blk['s']:
                rv = st.get('rv')
                if not rv:
                    continue
                if rv['k'] == 'agg' and rv.get('ak') == 'adt' and rv.get('adt', '').endswith('persistence::WalWriter') and 'error_handler' in (rv.get('fields') or []):
                    aggs.append((b, i, rv['ops'][rv['fields'].index('error_handler')]))
                if on_field(st['pl']):
                    late.append('%s assigns it at %s' % (b.short, st.get('loc', '?')))
                if rv['k'] in ('ref', 'rawptr') and rv.get('mut') is not False and on_field(rv['pl']):
                    late.append('%s borrows it mutably at %s' % (b.short, st.get('loc', '?')))
            t = blk['t']
            if t['k'] == 'call' and t.get('dest') and on_field(t['dest']):
                late.append('%s assigns it at %s' % (b.short, t.get('loc', '?')))
    if not aggs:
        ctx.missing(rid, 'construction of persistence::WalWriter with an error_handler field')
        return
    ctx.inst(rid, 'persistence::WalWriter', 'error_handler is set at construction only', not late,
             '; '.join(late[:3]) if late else 'built in %s; no later assignment or mutable borrow of the field' % sorted(set(b.short for b, _, _ in aggs)))

    def callers_of_body(b):
        sid = strip_generics(b.id)
        return [c for c in prog.all_calls() if c.callee == sid]

    decided = []          # (body, ok, text, via)
    followed = set()

    def follow(b, op, via):
        of = flow.Origin(b, max_depth=24)
        for alt in flow.top_alternatives(of.of_operand(op)):
            if alt[0] == 'agg' and alt[1].endswith('Option::Some'):
                decided.append((b, True, flow.render(alt)[:110], via))
            elif alt[0] == 'arg' and b.kind in ('Fn', 'AssocFn'):
                if (b.id, alt[1]) in followed:
                    continue
                followed.add((b.id, alt[1]))
                for c in callers_of_body(b):
                    if alt[1] - 1 < len(c.args):
                        follow(c.body, c.args[alt[1] - 1], [b.short] + via)
            else:
                decided.append((b, False, flow.render(alt)[:110], via))

    for b, i, op in aggs:
        follow(b, op, [])
    n_some = 0
    per_fn = {}
    for b, ok, text, via in decided:
        fn = b.short.split('::{')[0]
        k = per_fn[fn] = per_fn.get(fn, 0) + 1
        if ok:
            n_some += 1
            ctx.inst(rid, fn, 'log writer #%d is created with an error handler' % (k - 1), True, 'error_handler = %s%s' % (text, (' (through %s)' % ' ← '.join(via)) if via else ''))
            continue
        # the function decides "no handler": tolerated for a constructor nobody calls; otherwise the functions that obtain their writer from it are named
        users, work, seen_b = [], [b], set()
        returns_writer = lambda x: 'persistence::WalWriter' in x.locals[0]
        while work:
            x = work.pop()
            if x.id in seen_b:
                continue
            seen_b.add(x.id)
            if not returns_writer(x):
                users.append(x)
                continue
            for c in callers_of_body(x):
                work.append(c.body)
        if not users:
            ctx.inst(rid, fn, 'handler-less constructor has no caller in the shipped crates', True, 'passes %s as error_handler; callers: none' % text)
        for u in users:
            ctx.inst(rid, u.short.split('::{')[0], 'log writer is created with an error handler', False,
                     '%s %s error_handler = %s: append / append_batch of that writer take the plain append_internal arm — no truncate back to the stable offset when a '
                     'write or fsync fails, no retry, no breaker (a torn frame swallows the next acknowledged entry on replay; a complete frame whose fsync failed is replayed)'
                     % (u.short.split('::{')[0], ('obtains its WalWriter from %s, which sets' % b.short) if u is not b else 'creates its WalWriter with', text))
    ctx.floor(rid, 'construction sites that install Some(handler)', n_some, 3, 'with_persistence, recovery, rotation')


def run(ctx, prog):
    ctx.not_decided = ['behaviour under injected errno sequences (retry arithmetic, partial-write lengths)',
                       'bit-level idempotence of normalisation']
    eff = Effects(prog)
    eff.define('wal_append', 'WalWriter::append', 'WalWriter::append_batch')

    rejection_classes(ctx, prog, 'C03.R1', eff)
    ins = ctx.body('C03.R3', 'HnswBackend::insert')
    app = eff.blocks(ins, 'wal_append')
    oi = flow.Origin(ins)

    # ------------------------------------------------------------------ R2 failed cold write is inert in the engine
    ctx.rule('C03.R2', 'in TieredEngine::insert no path from the Err edge of cold_tier.insert reaches the hot tier or the '
                       'query cache (and by C01.R1 a failed append never reaches the in-memory apply)')
    ti = ctx.body('C03.R2', 'TieredEngine::insert')
    ci = ti.calls_to('HnswBackend::insert')
    if not ci:
        ctx.missing('C03.R2', 'TieredEngine::insert: call of HnswBackend::insert')
    else:
        s_e, f_e = flow.outcome_edges(ti, ci[0])
        if not f_e:
            ctx.inst('C03.R2', ti.short, 'cold insert result tested', False, 'the result of cold_tier.insert is not tested')
        else:
            r = ti.reach([e[1] for e in f_e]) | set(e[1] for e in f_e)
            bad = [c for c in ti.calls if c.bb in r and c.callee and c.is_('re:HotTier::insert', 're:QueryHashCache::', 're:HotTier::reinsert')]
            ctx.inst('C03.R2', ti.short, 'Err edge of cold insert reaches no tier/cache mutation', not bad,
                     'reaches %s' % [str(c) for c in bad[:3]] if bad else 'failure edge leads to return only')
            # and the hot-tier insert is dominated by the success edge
            hot = ti.calls_to('HotTier::insert_with_coherence')
            rr = ti.reach([0], avoid_edges=s_e)
            ctx.inst('C03.R2', ti.short, 'hot-tier mirror only after cold success', bool(hot) and all(h.bb not in rr for h in hot),
                     '%d insert_with_coherence sites' % len(hot))

    # ------------------------------------------------------------------ R3 compensation
    ctx.rule('C03.R3', 'from the Err edge of add_vector in HnswBackend::insert every path to a return passes the success edge '
                       'of the rollback append or sets wal_inconsistent, and reaches no push/insert on the document store')
    adds = ins.calls_to('HnswVectorIndex::add_vector')
    if not adds:
        ctx.missing('C03.R3', 'HnswBackend::insert: add_vector call')
    else:
        s_e, f_e = flow.outcome_edges(ins, adds[0])
        if not f_e:
            ctx.inst('C03.R3', ins.short, 'add_vector result tested', False, 'result of add_vector is not tested')
        else:
            starts = [e[1] for e in f_e]
            region = ins.reach(starts) | set(starts)
            rb = [c for c in ins.calls_to('WalWriter::append') if c.bb in region]
            rb_succ = []
            untested = []
            for c in rb:
                s2, f2 = flow.outcome_edges(ins, c)
                if s2 is None:
                    untested.append(c)
                else:
                    rb_succ += s2
            if untested:
                ctx.inst('C03.R3', ins.short, 'rollback append result tested', False,
                         'the result of the rollback append at %s is not tested directly (converted / discarded)' % untested[0].loc)
            flag = [c for c in ins.calls if c.bb in region and c.is_('re:Atomic.*::store') and c.args
                    and 'wal_inconsistent' in flow.render(oi.of_operand(c.args[0]))]
            N = util.option_edges(ins, r'HnswBackend\.persistence$', 'None')
            r = ins.reach(starts, avoid_blocks=[c.bb for c in flag], avoid_edges=set(rb_succ) | set(N)) | set(starts)
            bad = [x for x in ins.return_blocks() if x in r]
            ctx.inst('C03.R3', ins.short, 'failed index insert is compensated or flagged', bool(rb) and bool(flag) and not bad,
                     'rollback appends in the failure region: %d, wal_inconsistent stores: %d, uncompensated return reachable: %s' % (len(rb), len(flag), bool(bad)))
            pushes = [c for c in ins.calls if c.bb in region and c.callee and re.search(r'(Vec<.*>|Vec)::push$|HashMap.*::insert$', c.callee)
                      and c.args and 'DocumentStore' in flow.render(oi.of_operand(c.args[0]))]
            ctx.inst('C03.R3', ins.short, 'failure region does not touch the document store', not pushes,
                     'store mutations reachable after a failed add_vector: %s' % [str(c) for c in pushes[:3]] if pushes else 'none')
            # rollback entry is a Delete of the same id
    # ------------------------------------------------------------------ R4 truncate on failure
    ctx.rule('C03.R4', 'append_internal_with_rollback (and the batch twin): Err edge of append_internal → rollback_to_stable_state '
                       '≺ return Err; rollback_to_offset: set_len ≺ seek ≺ sync_data ≺ Ok; the stable offset passed by append/append_batch '
                       'is read from self.bytes_written before write_with_retry')
    eff.define('set_len', 'std::fs::File::set_len')
    eff.define('seek', 're:std::io::Seek>::seek$', 'std::io::Seek::seek')
    eff.define('sync_data', 'std::fs::File::sync_data', 'std::fs::File::sync_all')
    eff.define('rollback_state', 'WalWriter::rollback_to_stable_state')
    for name, inner in (('WalWriter::append_internal_with_rollback', 'WalWriter::append_internal'),
                        ('WalWriter::append_batch_internal_with_rollback', 'WalWriter::append_batch_internal')):
        f = ctx.body('C03.R4', name)
        ic = f.calls_to(inner)
        if not ic:
            ctx.missing('C03.R4', '%s: call of %s' % (name, inner))
            continue
        s_e, f_e = flow.outcome_edges(f, ic[0])
        rbk = eff.blocks(f, 'rollback_state')
        rb_succ = eff.success_edges(f, rbk)
        if not f_e or not rbk:
            ctx.inst('C03.R4', f.short, 'failure edge → rollback', False, 'no tested failure edge / no rollback call')
            continue
        starts = [e[1] for e in f_e]
        errs = flow.err_blocks(f)
        # every return reachable from the failure edge crosses the rollback's success edge, or is the rollback's own failure exit
        rb_fail = []
        for bb_ in rbk:
            s2, f2 = flow.outcome_edges(f, f.call_at(bb_))
            rb_fail += f2 or []
        reach_wo = f.reach(starts, avoid_edges=set(rb_succ) | set(rb_fail)) | set(starts)
        bad = [x for x in f.return_blocks() if x in reach_wo]
        # and after a successful rollback the function still returns Err (never Ok)
        after = f.reach([e[1] for e in rb_succ], avoid_blocks=errs) | set(e[1] for e in rb_succ if e[1] not in errs)
        ok_after = [x for x in f.return_blocks() if x in after]
        ctx.inst('C03.R4', f.short, 'Err(append) ⇒ rollback_to_stable_state ≺ return Err', not bad and not ok_after,
                 'return without rollback: %s; Ok after rollback: %s' % (bool(bad), bool(ok_after)))
        # rollback arguments are the function's stable_offset / stable_entry_count parameters
        rc = f.call_at(rbk[0])
        of = flow.Origin(f)
        args = [flow.render(of.of_operand(a)) for a in rc.args[1:]]
        ctx.inst('C03.R4', f.short, 'rollback target = the stable offset/count parameters', args == ['arg:stable_offset', 'arg:stable_entry_count'],
                 'rollback_to_stable_state(%s)' % ', '.join(args))
    ro = ctx.body('C03.R4', 'WalWriter::rollback_to_offset')
    util.check_chain(ctx, 'C03.R4', ro, [util.Step('set_len', ro, eff.blocks(ro, 'set_len')),
                                         util.Step('seek', ro, eff.blocks(ro, 'seek')),
                                         util.Step('sync_data', ro, eff.blocks(ro, 'sync_data'))])
    oro = flow.Origin(ro)
    sl = ro.calls_to('std::fs::File::set_len')
    if sl:
        ctx.inst('C03.R4', ro.short, 'truncates to its offset argument', flow.render(oro.of_operand(sl[0].args[1])) == 'arg:offset',
                 'set_len(%s)' % flow.render(oro.of_operand(sl[0].args[1])))
    rs = ctx.body('C03.R4', 'WalWriter::rollback_to_stable_state')
    w1 = util.assign_blocks(rs, r'WalWriter\.bytes_written$')
    w2 = util.assign_blocks(rs, r'WalWriter\.entry_count$')
    rso = eff.success_edges(rs, [c.bb for c in rs.calls_to('WalWriter::rollback_to_offset')])
    rr = rs.reach([0], avoid_edges=rso)
    ctx.inst('C03.R4', rs.short, 'counters restored only after the truncate succeeded',
             bool(w1) and bool(w2) and all(b not in rr for b in w1 + w2), 'bytes_written/entry_count assignments: %s %s' % (w1, w2))
    # a successful return means the file really was truncated: no path to a non-Err return avoids the truncate's success edge
    errs_rs = flow.err_blocks(rs)
    ok_wo = [x for x in rs.reach([0], avoid_edges=rso, avoid_blocks=errs_rs) | {0} if x in rs.return_blocks() and x not in errs_rs]
    thr = flow.ThreadedView(rs)
    ok_wo = [x for x in ok_wo if x in thr.reach([0], avoid_edges=rso, avoid_blocks=errs_rs)]
    ctx.inst('C03.R4', rs.short, 'returns Ok only after rollback_to_offset succeeded (no early exit that keeps torn bytes)', bool(rso) and not ok_wo,
             'Ok return reachable without the truncate: %s' % (rt.path_witness(rs, rt.find_path(rs, [0], ok_wo, avoid_blocks=errs_rs, avoid_edges=rso)) if ok_wo else 'no'))
    for name, inner in (('WalWriter::append', 'append_internal_with_rollback'), ('WalWriter::append_batch', 'append_batch_internal_with_rollback')):
        f = ctx.body('C03.R4', name)
        wr = f.calls_to('WalErrorHandler::write_with_retry')
        cl = [b for b in prog.family(f) if b.kind == 'Closure' and b.calls_to('re:' + inner)]
        if not wr or not cl:
            ctx.missing('C03.R4', '%s: write_with_retry with a closure calling %s' % (name, inner))
            continue
        # the closure captures stable_offset; in the parent it originates from self.bytes_written read before write_with_retry
        of = flow.Origin(f)
        so = f.var_local('stable_offset')
        r = flow.render(of.of_local(so[0])) if so else '?'
        dom_ok = False
        if so:
            defs = [d for d in f.defs.get(so[0], []) if d[2] == 'assign']
            dom_ok = bool(defs) and all(f.dominates(d[0], wr[0].bb) for d in defs)
        ctx.inst('C03.R4', f.short, 'stable offset = self.bytes_written read before the write', r.endswith('WalWriter.bytes_written') and dom_ok,
                 'stable_offset = %s; dominates write_with_retry: %s' % (r, dom_ok))

    # ------------------------------------------------------------------ R6 nothing fails between the durable append and the apply
    ctx.rule('C03.R6', 'after the log append of a mutator succeeded, every path to a return passes the in-memory apply (exclusive doc_store acquisition), or — for '
                       'insert — the compensating append / the write-degraded flag: no fallible step in between (rotation, bookkeeping) may turn the call into an '
                       'Err, because the entry is already durable and would be replayed although the caller was told it failed')
    from kvstatic.locks import LockModel as _LM
    lm6 = _LM(prog)
    for name in ('HnswBackend::insert', 'HnswBackend::delete', 'HnswBackend::update_metadata', 'HnswBackend::batch_delete'):
        f = ctx.body('C03.R6', name)
        if f is None:
            continue
        apps = sorted(eff.blocks(f, 'wal_append'))
        if not apps:
            ctx.missing('C03.R6', '%s: WAL append' % name)
            continue
        first = util.first_in_flow(f, apps)
        a_succ = eff.success_edges(f, [first])
        applies = [bb for bb, a in lm6.body_acqs.get(f.id, {}).items() if a.cls == 'HnswBackend.doc_store' and a.mode in ('W', 'U') and bb in f.reach([e[1] for e in a_succ])]
        comp_succ = eff.success_edges(f, [x for x in apps if x != first])
        flags = [c.bb for c in f.calls if c.is_('re:Atomic.*::store') and c.args and 'wal_inconsistent' in flow.render(flow.Origin(f).of_operand(c.args[0]))]
        starts = [e[1] for e in a_succ]
        r_ = (f.reach(starts, avoid_blocks=applies + flags, avoid_edges=comp_succ) | set(starts)) - set(applies) - set(flags)
        leak = [x for x in f.return_blocks() if x in r_]
        ctx.inst('C03.R6', f.short, 'after a successful append every return is behind the apply (or the compensation)', bool(a_succ) and bool(applies) and not leak,
                 ('a return is reachable after the append without the apply: %s' % rt.path_witness(f, rt.find_path(f, starts, leak, avoid_blocks=applies + flags, avoid_edges=comp_succ))[:7]) if leak else
                 'apply blocks %s; compensation edges %d; flag stores %d' % (applies[:3], len(comp_succ), len(flags)))

    # ------------------------------------------------------------------ R7 one request = one canonical mutation
    ctx.rule('C03.R7', 'all-or-nothing at the engine: in TieredEngine::{insert, delete, batch_delete, update_metadata}, once the canonical (cold-tier) mutation of '
                       'the request has succeeded, no path reaches an Err return — in particular the canonical call is not repeated for a further slice of the same '
                       'request, whose failure would report "failed" for a request that is partly durable')
    n7 = no_failure_after_canonical(ctx, prog, 'C03.R7', ('TieredEngine::insert', 'TieredEngine::delete', 'TieredEngine::batch_delete', 'TieredEngine::update_metadata'))
    ctx.floor('C03.R7', 'canonical mutation calls in the four engine mutators', n7, 4, 'one per mutator')

    # ------------------------------------------------------------------ R8 a failed rotation leaves a listed writer active
    ctx.rule('C03.R8', 'every mutator logs a rotation error and continues "with the current WAL": the operations acknowledged after such a failure are durable only if the '
                       'active writer is still a segment the MANIFEST lists. In rotate_wal_if_needed the writer is switched only after the new segment was created and '
                       'listed (Manifest::save succeeded), and nothing can fail after the switch (same analysis as C01.R5)')
    from rules import C01 as _C01
    eff8 = Effects(prog)
    eff8.define('manifest_save', 'Manifest::save')
    eff8.define('wal_create', 'WalWriter::create_with_error_handler', 'WalWriter::create')
    _C01.rotation_publish_order(ctx, prog, eff8, 'C03.R8')

    # ------------------------------------------------------------------ R9 the writer in use is the one that truncates on failure
    ctx.rule('C03.R9', 'R4 decides the shape of the Some(handler) arm of WalWriter::append / append_batch (truncate back to the stable offset, then Err). The None arm is a plain '
                       'append_internal: when it fails, a torn frame (or a complete frame whose fsync failed) stays in the log — the next acknowledged entry is swallowed by it on replay, or the '
                       'failed mutation is replayed. So that arm must not be the one the backend runs: WalWriter.error_handler is given at construction only, and at every construction '
                       'site in the shipped crates its value originates from Option::Some(..) (followed through constructor parameters to the callers); a handler-less constructor has no caller')
    writer_handlers(ctx, prog, 'C03.R9')

    # ------------------------------------------------------------------ R10 nothing fails after the apply
    ctx.rule('C03.R10', 'committed means acknowledged: once a backend mutator has begun its in-memory apply (exclusive doc_store acquisition; by R6 the log entry is durable then) no Err return is '
                        'reachable, except across the failing edge of add_vector in insert, whose region R3 decides (compensated or flagged, store untouched). What runs after the apply (snapshot '
                        'trigger, rotation, bookkeeping) is best effort: its failure must not be reported as the failure of a mutation that is live now and replayed after restart')
    for name in ('HnswBackend::insert', 'HnswBackend::delete', 'HnswBackend::update_metadata', 'HnswBackend::batch_delete'):
        f = ctx.body('C03.R10', name)
        if f is None:
            continue
        applies = sorted(bb for bb, a in lm6.body_acqs.get(f.id, {}).items() if a.cls == 'HnswBackend.doc_store' and a.mode in ('W', 'U'))
        if not applies:
            ctx.missing('C03.R10', '%s: exclusive doc_store acquisition (the in-memory apply)' % name)
            continue
        index_fail = []
        for c in f.calls_to('HnswVectorIndex::add_vector'):
            index_fail += flow.outcome_edges(f, c)[1] or []
        errs10 = flow.err_blocks(f)
        after = f.reach(applies, avoid_edges=index_fail)
        bad10 = sorted(after & errs10)
        what10 = ''
        if bad10:
            c10 = f.call_at(bad10[0])
            src10 = flow.render(flow.Origin(f).of_operand(c10.args[0]))[:140] if c10 is not None and c10.args else 'an explicit Err value'
            what10 = 'Err return at %s is reachable after the in-memory apply at %s: it propagates %s — the mutation is applied and logged, yet the caller is told it failed' % (
                f.loc_of(bad10[0]), f.loc_of(applies[0]), src10)
        ctx.inst('C03.R10', f.short, 'no failure is reported once the in-memory apply has begun', not bad10,
                 what10 or 'apply at %s; %d blocks behind it, none puts an Err into the return place%s' % (
                     [f.loc_of(a_) for a_ in applies][:2], len(after), ' (failing edge of add_vector excluded: R3)' if index_fail else ''))

    # ------------------------------------------------------------------ R5 single funnel
    ctx.rule('C03.R5', 'who-may-write: only HnswBackend::insert pushes to the document store vectors outside constructors / '
                       'compaction / recovery; only TieredEngine::{insert, bulk_load_cold_tier, reconcile_drained_hot_tier_documents} '
                       'call HnswBackend::insert; WalWriter::append* is called only by the four mutators')
    pushers = set()
    for b in prog.bodies.values():
        if 'hnsw_backend' not in b.id and 'tiered_engine' not in b.id and 'kyrodb_server' not in b.id:
            continue
        og = None
        for c in b.calls:
            if c.callee and re.search(r'::push$', c.callee) and c.args:
                og = og or flow.Origin(b)
                r = flow.render(og.of_operand(c.args[0]))
                if re.search(r'DocumentStore\.(embeddings|metadata|versions|digests|internal_to_external)$', r):
                    pushers.add(b.short.split('::{')[0])
    allowed = {'hnsw_backend::HnswBackend::insert', 'hnsw_backend::HnswBackend::compact_tombstones'}
    for cons in ('new_with_hnsw_params', 'recover_with_hnsw_params_and_mode', 'with_persistence_with_hnsw_params'):
        allowed.add('hnsw_backend::HnswBackend::' + cons)
        ctx.exception('C03.R5', 'HnswBackend::' + cons, 'constructor / recovery: fills a local DocumentStore before the backend exists')
    extra_p = sorted(p_ for p_ in pushers if p_ not in allowed)
    ctx.inst('C03.R5', 'DocumentStore', 'pushers ⊆ {insert, compact_tombstones, constructors}', not extra_p and 'hnsw_backend::HnswBackend::insert' in pushers,
             'functions pushing to DocumentStore vectors through a shared store: %s' % sorted(pushers))
    callers = sorted(set(c.body.short.split('::{')[0] for c in prog.callers_of('HnswBackend::insert')))
    want = ['tiered_engine::TieredEngine::bulk_load_cold_tier', 'tiered_engine::TieredEngine::insert',
            'tiered_engine::TieredEngine::reconcile_drained_hot_tier_documents']
    ctx.inst('C03.R5', 'HnswBackend::insert', 'callers = the three engine paths', callers == want, 'callers: %s' % callers)
    ac = sorted(set(c.body.short.split('::{')[0] for c in prog.callers_of('WalWriter::append', 'WalWriter::append_batch')))
    want_a = sorted('hnsw_backend::' + x for x in ['HnswBackend::insert', 'HnswBackend::delete', 'HnswBackend::update_metadata', 'HnswBackend::batch_delete'])
    ctx.inst('C03.R5', 'WalWriter::append*', 'callers = the four mutators', ac == want_a, 'callers: %s' % ac)
    ctx.stat('functions_analysed', len(set(i['key'].split(' | ')[1] for i in ctx.instances)))


def find_guard_ok(body, fail_rx):
    """A switch whose edge matching fail_rx reaches no Ok return (only Err exits)."""
    o = flow.Origin(body)
    rx = re.compile(fail_rx)
    errs = flow.err_blocks(body)
    for i, blk in enumerate(body.blocks):
        if blk['t']['k'] != 'switch' or i not in body.live_blocks():
            continue
        for tg, p in flow.switch_edge_predicates(body, i, o):
            if rx.search(p):
                r = body.reach([tg], avoid_blocks=errs) | ({tg} - errs)
                if not any(x in r for x in body.return_blocks()):
                    return i, p, None
                return None, None, 'edge reaches an Ok return'
    return None, None, 'no such guard'
