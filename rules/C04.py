"""C04 — lookups by id return the canonical latest version whatever the caches hold.

Decided statically: the gating structure — every cache / recent-write-tier value that can reach a return (or be admitted
to the document cache) does so only past the Match edge of the canonical token check made on that very value; metadata
and existence are answered from the canonical store only; the validator yields Match only past its three tests; the
write path orders invalidate → durable write → fresh token → mirror; the drain repairs only missing canonical records.
The digest function's collision behaviour and histories are not decided.
"""
import re

from kvstatic import flow, rt, util
from kvstatic.effects import Effects
from kvstatic.facts import strip_generics

MANIFEST = {
    'text': 'Decides the gating structure on every CFG path of the read and write paths of the tiered engine: source→sink checks with '
            'call-site identity (each cache / mirror hit is validated by canonical_vector_state called on that same hit, and flows to a '
            'return, a result slot or L1a admission only past its Match edge), canonical-only origins for metadata / existence answers, '
            'the validator\'s own three guards, write-path ordering with the token taken after the durable write, and repair-only drains. '
            'Necessary conditions of the behaviour; digest collisions and operation histories are not decided.',
    'design_ref': 'DESIGN.md §4.4',
    'note': 'Trusted base: rustc MIR, origin trees with call-site identity, success/Match edge extraction (both `match` and `== Match` idioms).',
    'technique': 'source→sink gating by dominance with call-site identity, origin whitelists, ordered chains on MIR',
}

EXPLANATION = 'FLOW/DOM/ORD/GUARD rules of DESIGN §4.4 on tiered_engine.rs, coherence.rs and hnsw_backend.rs.'

SOURCES = ['CacheStrategy::get_cached', 'CacheStrategy::peek_cached', 'HotTier::get_with_coherence', 'HotTier::peek_with_coherence',
           'HotTier::bulk_fetch_with_coherence', 'HotTier::get', 'HotTier::get_metadata', 'HotTier::bulk_fetch']


def contains_call(tree, call):
    for x in flow.walk(tree):
        if x[0] == 'call' and len(x) > 3 and x[3] is call:
            return True
    return False


def match_edges(body, vcall, of):
    """Edges on which canonical_vector_state(..) is known to be Match: `match` arm or the true edge of `== Match`."""
    out = []
    for i, blk in enumerate(body.blocks):
        if blk['t']['k'] != 'switch' or i not in body.live_blocks():
            continue
        e = of.of_operand(blk['t']['on'])
        if not contains_call(e, vcall):
            continue
        for tg, p in flow.switch_edge_predicates(body, i, of):
            if re.search(r'^variant\(.*canonical_vector_state\(.*\)\) = Match$', p):
                out.append((i, tg))
            elif re.match(r'^eq\[.*CanonicalVectorState::Match.*\]$', p) and 'canonical_vector_state' in p:
                out.append((i, tg))
    return out


# ---------------------------------------------------------------------- equivalent shapes of "the hot operand is a validated candidate list" (R1, C06.R3)
_SUCCESS = ('Ok', 'Some', 'Continue')
_FAMILY = {'Some': 'Option', 'None': 'Option', 'Ok': 'Result', 'Err': 'Result', 'Continue': 'ControlFlow', 'Break': 'ControlFlow'}


def _variant_of(a):
    """(enum, variant) a value is known to be: an Option / Result / ControlFlow aggregate names it; `FromResidual::from_residual` only ever builds the failure
    variant of its enum (Err / None / Break)."""
    if a[0] == 'agg':
        m = re.search(r'(^|::)(Option|Result|ControlFlow)::(Some|None|Ok|Err|Continue|Break)$', a[1])
        if m and _FAMILY[m.group(3)] == m.group(2):
            return (m.group(2), m.group(3))
    if a[0] == 'call' and len(a) > 3 and a[3] is not None and a[3].is_('core::ops::try_trait::FromResidual::from_residual'):
        return ('*', 'Err')
    return None


def _infeasible(want, known):
    """A value known to be `known` is never read through a downcast to variant `want`.  The origin walk elides `?` (Try::branch: Ok / Some ≙ Continue, Err / None ≙
    Break), ok_or, map_err, unwrap … — all of which keep the success / failure side; a variant of an unrelated enum says nothing."""
    fam, have = known
    if want not in _FAMILY:
        return False
    if fam != '*' and _FAMILY[want] != fam and _FAMILY[want] != 'ControlFlow':
        return False
    return (want in _SUCCESS) != (have in _SUCCESS)


def value_alternatives(e):
    """flow.top_alternatives with the two things a flow-insensitive phi loses put back: an alternative that is known to be ANOTHER variant than the one a downcast reads
    (the Err / from_residual exit of an inlined fallible helper under the caller's `?`: that value only ever takes the Break edge) is not a value of the expression,
    and the payload / tuple component a projection reads from an aggregate alternative is that operand itself.  May return [] (no feasible value)."""
    t = e[0]
    if t == 'phi':
        return [x for a in e[1] for x in value_alternatives(a)]
    if t == 'downcast':
        out = []
        for a in value_alternatives(e[1]):
            v = _variant_of(a)
            if v is not None and _infeasible(e[2], v):
                continue
            out.append(('downcast', a, e[2]))
        return out
    if t == 'field':
        out = []
        m = re.search(r'\.(\d+)$', e[2])
        for a in value_alternatives(e[1]):
            inner = a[1] if a[0] == 'downcast' else a
            proj = m is not None and inner[0] == 'agg' and int(m.group(1)) < len(inner[2]) and (
                (a[0] == 'downcast' and _variant_of(inner) is not None and len(inner[2]) == 1 and int(m.group(1)) == 0) or
                (a[0] != 'downcast' and inner[1] == 'tuple' and re.match(r'^\.\d+$', e[2])))
            if proj:
                out += value_alternatives(inner[2][int(m.group(1))])
            else:
                out.append(('field', a, e[2]))
        return out
    if t in ('cast', 'index'):
        return [(t, a) + tuple(e[2:]) for a in value_alternatives(e[1])]
    return [e]


_VEC_CTOR = r'(^|::)Vec(<.*>)?::(new|with_capacity)$'
_MUT_PTR = re.compile(r"^(&('\w+ )?mut |\*mut )")


def is_vec_ctor(a):
    return a[0] == 'call' and len(a) > 3 and a[3] is not None and bool(a[3].callee) and bool(re.search(_VEC_CTOR, a[3].callee))


def vec_pushes(body, ctor, harmless=()):
    """The vector built by `ctor` (a Vec::new / Vec::with_capacity call of `body`) receives elements only through Vec::push: returns the push calls, or None when a
    mutable borrow of it (any `&mut` / `*mut` local whose origin is the constructor call — re-borrows, copies, the IntoIter it is turned into) is used in any other
    way: passed to another callee (extend, insert, append, index_mut, swap, a helper …), captured by a closure, stored.  `Iterator::next` on it and the callees in
    `harmless` (regexes; they can neither add nor replace an element) are allowed."""
    of = flow.Origin(body)
    is_v = lambda tr: any(a[0] == 'call' and len(a) > 3 and a[3] is ctor for a in flow.top_alternatives(tr))
    M = set(l for l, ty in enumerate(body.locals) if _MUT_PTR.match(ty) and is_v(of.of_local(l)))
    opl = lambda o: o['pl']['l'] if isinstance(o, dict) and o.get('k') in ('cp', 'mv') else None
    live = body.live_blocks()
    pushes = []
    for i, blk in enumerate(body.blocks):
        if i not in live:
            continue
        for st in blk['s']:
            rv = st.get('rv')
            if not rv:
                continue
            k = rv['k']
            if k == 'agg':
                if any(opl(o) in M for o in rv['ops']):
                    return None       # captured by a closure / stored in a value
                continue
            src = rv['pl']['l'] if k in ('ref', 'rawptr') else opl(rv['a']) if k in ('use', 'cast', 'repeat') else None
            if src in M and (st['pl'].get('p') or st['pl']['l'] not in M):
                return None           # the borrow leaves the locals this census follows
        t = blk['t']
        if t['k'] in ('call', 'tailcall'):
            c = body.call_at(i)
            idx = [j for j, a in enumerate(c.args) if opl(a) in M]
            if not idx:
                continue
            if c.callee and re.search(r'(^|::)Vec(<.*>)?::push$', c.callee) and idx == [0] and len(c.args) == 2:
                pushes.append(c)
            elif c.callee and idx == [0] and (c.is_('re:Iterator>::next$') or any(re.search(h, c.callee) for h in harmless)):
                continue
            else:
                return None
    return pushes


def _is_filter_call(a):
    return a[0] == 'call' and len(a) > 3 and a[3] is not None and bool(a[3].callee) and a[3].callee.endswith('TieredEngine::filter_hot_knn_results_to_canonical')


def _element_of(a):
    """`a` is the item an iterator hands out — `it.next()` read on its Some edge (`?` after ok_or / unwrap are elided by the origin walk): returns the tree of what is
    iterated, else None."""
    if a[0] == 'field' and a[1][0] == 'downcast' and a[1][2] in _SUCCESS and re.search(r'(^|::)%s\.0$' % a[1][2], a[2]):
        a = a[1][1]
    if a[0] == 'call' and len(a) > 3 and a[3] is not None and a[3].is_('re:Iterator>::next$') and len(a[2]) == 1:
        return a[2][0]
    return None


def hot_candidates_validated(prog, b, tree):
    """C04.R1 / C06.R3: the hot operand of a merge_knn_results call in body `b` (origin `tree`) is a list that passed filter_hot_knn_results_to_canonical."""
    def by_text(a):
        if re.search(r'filter_hot_knn_results_to_canonical\(|^Vec::new\(\)$|^vec::Vec<.*>::new\(\)$', a):
            return True
        # produced by mapping a closure over the queries: the closure must return the filtered candidates
        cids = re.findall(r'closure:([^{ ]*\{closure#\d+\}(?:::\{closure#\d+\})*)', a)
        for cid in cids:
            for fb in prog.family(b):
                if fb.id.endswith(cid) and fb.calls_to('TieredEngine::filter_hot_knn_results_to_canonical'):
                    if 'filter_hot_knn_results_to_canonical(' in flow.render(flow.Origin(fb).of_local(0)):
                        return True
        return False
    if all(by_text(flow.render(a)) for a in flow.top_alternatives(tree)):
        return True
    # The same guarantee in other clothes, decided on the trees (strictly: the value IS the filter's result, not merely mentions it):
    #  · every value the operand can really take (value_alternatives: the Err exit of an inlined fallible helper is not a value read on the Continue edge of the
    #    caller's `?`; the component read out of the helper's Ok((hot, cold)) is `hot`) is the result of filter_hot_knn_results_to_canonical or an empty Vec::new();
    #  · or it is an element of a vector that is built empty in this body and receives elements only by Vec::push (vec_pushes: no other use of a mutable borrow),
    #    every pushed value being validated in the same sense — the for-loop spelling of `queries.iter().map(|q| filter(search(q))).collect()`;
    #  · or an element of collect(map(.., closure)) whose closure returns such a value.
    def by_tree(body, a, depth=0):
        if depth > 3:
            return False
        if _is_filter_call(a) or (is_vec_ctor(a) and a[3].callee.endswith('::new') and not a[2]):
            return True
        src = _element_of(a)
        if src is None:
            return False
        xs = value_alternatives(src)
        if not xs:
            return False
        bo = flow.Origin(body)
        for x in xs:
            if is_vec_ctor(x) and x[3].body is body:
                ps = vec_pushes(body, x[3])
                if ps is None:
                    return False
                for p_ in ps:
                    es = value_alternatives(bo.of_operand(p_.args[1]))
                    if not es or not all(by_tree(body, e_, depth + 1) for e_ in es):
                        return False
            elif x[0] == 'call' and x[3] is not None and x[3].is_('re:Iterator::collect$') and len(x[2]) == 1 and x[2][0][0] == 'call' and \
                    x[2][0][3] is not None and x[2][0][3].is_('re:Iterator::map$') and len(x[2][0][2]) == 2 and x[2][0][2][1][0] == 'agg' and x[2][0][2][1][1].startswith('closure:'):
                cid = strip_generics(x[2][0][2][1][1].split(':', 1)[1])
                fbs = [fb for fb in prog.family(body) if strip_generics(fb.id) == cid]
                if len(fbs) != 1:
                    return False
                es = value_alternatives(flow.Origin(fbs[0]).of_local(0))
                if not es or not all(by_tree(fbs[0], e_, depth + 1) for e_ in es):
                    return False
            else:
                return False
        return True
    alts = value_alternatives(tree)
    return bool(alts) and all(by_tree(b, a) for a in alts)

_ELEMENTWISE = ('Iterator::copied', 'Iterator::cloned', 'slice::iter')


def _strip_adaptors(t):
    """Look through iterator adaptors that hand out every element of what they wrap, once, unchanged (`.iter()`, `.copied()`, `.cloned()`); nothing that can drop,
    repeat or replace elements (filter, take, skip, step_by, chain, map …) is looked through."""
    while t[0] == 'call' and len(t) > 3 and t[3] is not None and t[3].callee and len(t[2]) == 1 and flow.short(t[3].callee) in _ELEMENTWISE:
        t = t[2][0]
    return t


def invalidation_loop(f):
    """The `for` loop of `f` around its CacheStrategy::invalidate call (R4 "every id"): what it iterates (adaptors that keep every element looked through; `src` with
    user variables kept as names, `full` fully expanded), whether every iteration invalidates (`every`), whether the loop can be left other than by exhaustion
    (`escapes`), whether the invalidated id is the loop item (`item`), and the exhaustion edges of the head."""
    iv = [c for c in f.calls if (c.orig or '').endswith('CacheStrategy::invalidate')]
    if not iv:
        return None
    hs = [h for h in f.calls if h.callee and h.is_('re:Iterator>::next$') and f.dominates(h.bb, iv[0].bb) and h.bb in f.reach([iv[0].bb])]
    if not hs:
        return None
    inner = [h for h in hs if all(f.dominates(o.bb, h.bb) for o in hs)]
    h = inner[0] if inner else hs[-1]
    l = h.args[0]['pl']['l'] if h.args and h.args[0].get('pl') else None
    for _ in range(4):      # the argument is a temp `_t = &mut iter` (as util.loop_source)
        nxt = None
        for d in f.defs.get(l, []):
            if d[2] == 'assign' and d[3]['rv']['k'] == 'ref':
                nxt = d[3]['rv']['pl']['l']
        if nxt is None:
            break
        l = nxt
    if l is None:
        return None
    of = flow.Origin(f)
    s_e, f_e = flow.outcome_edges(f, h)
    starts = [e[1] for e in (s_e or [])]
    ivb = [c.bb for c in iv]
    inside = f.reach(starts, avoid_blocks=[h.bb])
    rets = set(f.return_blocks())
    return {'head': h, 'src': flow.render(_strip_adaptors(flow.Origin(f, stop_at_vars=True).of_local(l))), 'full': _strip_adaptors(of.of_local(l)),
            'every': bool(starts) and h.bb not in f.reach(starts, avoid_blocks=ivb),
            'escapes': sorted(x for x in inside if h.bb not in f.reach([x]) and rets & f.reach([x])),
            'item': all(len(c.args) > 1 and contains_call(of.of_operand(c.args[1]), h) for c in iv if c.bb in inside) and any(c.bb in inside for c in iv),
            'exhaust': list(f_e or [])}


def _ids_of_documents(prog, f, t):
    """`t` (origin of the list a bulk-load invalidation loop iterates) is  documents.iter().map(|d| d.0).collect()  over the `documents` parameter: the ids of exactly
    the documents handed to the bulk load."""
    if not (t[0] == 'call' and t[3] is not None and t[3].is_('re:Iterator::collect$') and len(t[2]) == 1):
        return False
    m = t[2][0]
    if not (m[0] == 'call' and m[3] is not None and m[3].is_('re:Iterator::map$') and len(m[2]) == 2):
        return False
    it, cl = _strip_adaptors(m[2][0]), m[2][1]
    if not (it[0] == 'arg' and it[2] == 'documents') or not (cl[0] == 'agg' and cl[1].startswith('closure:') and not cl[2]):
        return False
    cid = strip_generics(cl[1].split(':', 1)[1])
    fbs = [fb for fb in prog.family(f) if strip_generics(fb.id) == cid]
    if len(fbs) != 1:
        return False
    r = flow.Origin(fbs[0]).of_local(0)
    return r[0] == 'field' and r[2] == '.0' and r[1][0] == 'arg' and r[1][1] == 2


def validator_guards(ctx, prog, rid):
    """guards of canonical_vector_state (C04.R3; shared with C05.R3: the full-token comparison is the read's linearisation point)."""
    # ------------------------------------------------------------------ R3
    ctx.rule(rid, 'the validator: canonical_vector_state produces Match only past the Some edge of cold_tier.current_coherence_token, the equal '
                       'edge of canonical = mirrored token, and the true edge of embedding_matches_token(embedding, token)')
    cv = ctx.body(rid, 'TieredEngine::canonical_vector_state')
    cof = flow.Origin(cv)
    cvv = flow.Origin(cv, stop_at_vars=True)
    mblocks = [i for i, blk in enumerate(cv.blocks) for st in blk['s'] if st.get('rv', {}).get('k') == 'agg' and st['rv'].get('variant') == 'Match' and i in cv.live_blocks()]
    G = {'some': [], 'equal': [], 'digest': []}
    for i, blk in enumerate(cv.blocks):
        if blk['t']['k'] == 'switch' and i in cv.live_blocks():
            for tg, p in flow.switch_edge_predicates(cv, i, cvv):
                if re.match(r'^variant\(HnswBackend::current_coherence_token\(.*arg:doc_id\)\) = Some$', p):
                    G['some'].append((i, tg))
                if re.match(r'^eq\[.*(canonical_coherence|current_coherence_token).*arg:mirrored_coherence\]$|^eq\[arg:mirrored_coherence, .*(canonical_coherence|current_coherence_token).*\]$', p):
                    G['equal'].append((i, tg))
                if re.match(r'^bool\[coherence::embedding_matches_token\(arg:mirrored_embedding, arg:mirrored_coherence\)\]$', p):
                    G['digest'].append((i, tg))
    for nm, es in G.items():
        r0 = cv.reach([0], avoid_edges=es)
        ctx.inst(rid, cv.short, 'Match only past the %s guard' % nm, bool(es) and bool(mblocks) and not any(x in r0 for x in mblocks),
                 'guard edges %s; Match built at %s' % (es, mblocks))
    em = ctx.body(rid, 'coherence::embedding_matches_token')
    r = flow.render(flow.Origin(em, stop_at_vars=True).of_local(0))
    ctx.inst(rid, em.short, 'compares the digest of the payload with the token\'s digest', 'digest_embedding(arg:embedding)' in r and 'VectorCoherenceToken.digest' in r, 'returns %s' % r[:140])
    # Which bits are hashed at all (not the collision behaviour of the mixing, which stays undecided): the digest is the only thing that ties a payload to a token, so a
    # copy that differs from the stored vector in ANY bit must be able to change it. Every f32 lane read in digest_embedding is a lane of the payload itself (no rounding /
    # scaling before to_bits) and travels from f32::to_bits to the mixing call through lossless steps only: widening, `<< 32` into the upper half, `|` of two halves.
    # A mask, right shift, narrowing cast or arithmetic on that way makes payloads that differ in the dropped bits indistinguishable: Match for a poked / foreign copy.
    dg = ctx.body(rid, 'coherence::digest_embedding')
    dof = flow.Origin(dg, max_depth=24)
    lanes = [c for c in dg.calls if c.callee and flow.short(c.callee) == 'f32::to_bits']
    clean, lossy = set(), []

    def _down(tree, ops, consumer):
        t = tree[0]
        if t == 'call':
            c_ = tree[3] if len(tree) > 3 else None
            if c_ is not None and c_.callee and flow.short(c_.callee) == 'f32::to_bits':
                if ops:
                    lossy.append((c_, ops[0], consumer))
                else:
                    clean.add(id(c_))
            return   # any other call is a consumer of its own arguments
        if t == 'phi':
            for a in tree[1]:
                _down(a, ops, consumer)
        elif t == 'cast':
            _down(tree[1], ops if str(tree[2]) in ('u64', 'u128', 'usize') else ops + ['cast to %s' % tree[2]], consumer)
        elif t == 'bin':
            if tree[1] == 'BitOr':
                _down(tree[2], ops, consumer)
                _down(tree[3], ops, consumer)
            elif tree[1] in ('Shl', 'ShlUnchecked') and tree[3][0] == 'const' and tree[3][2] is not None and 0 <= tree[3][2] <= 32:
                _down(tree[2], ops, consumer)
            else:
                op_ = '%s %s' % (tree[1], flow.render(tree[3])[:24]) if tree[3][0] == 'const' else tree[1]
                _down(tree[2], ops + [op_], consumer)
                _down(tree[3], ops + [op_], consumer)
        elif t == 'un':
            _down(tree[2], ops + [tree[1]], consumer)
        elif t in ('field', 'index', 'downcast', 'set'):
            _down(tree[1], ops + ['projection'] if t == 'index' else ops, consumer)

    for c in dg.calls:
        if c in lanes or not c.callee:
            continue
        for a in c.args:
            _down(dof.of_operand(a), [], flow.short(c.callee))
    raw = []
    for c in lanes:
        tr = dof.of_operand(c.args[0]) if c.args else ('local', -1)
        txt = flow.render(tr)
        pure = 'arg:embedding' in txt and not any(x[0] in ('bin', 'un', 'cast') or (x[0] == 'call' and re.match(r'^(f32|f64|core::f32|std::f32)::', flow.short(x[1]) or '')) for x in flow.walk(tr))
        if not pure:
            raw.append((c, txt))
    unmixed = [c for c in lanes if id(c) not in clean and not any(l_[0] is c for l_ in lossy)]
    ctx.inst(rid, dg.short, 'every lane of the payload enters the digest with all 32 bits', bool(lanes) and not lossy and not raw and not unmixed,
             ('the lane read at %s reaches %s through `%s`: the bits it drops are not part of the digest, so payloads that differ only there pass embedding_matches_token' % (lossy[0][0].loc, lossy[0][2], lossy[0][1])) if lossy else
             ('f32::to_bits at %s is applied to %s, not to a lane of the payload as it is' % (raw[0][0].loc, raw[0][1][:100])) if raw else
             ('the lane read at %s does not reach a mixing call' % unmixed[0].loc) if unmixed else
             '%d lane reads (f32::to_bits of payload lanes), each reaches its mixing call through widening / << 32 / | only' % len(lanes))
    # Order of the chunks (seeded C05 round 6): a running hash that only ADDS / XORS a per-chunk term (a term that does not depend on the running value) is a commutative
    # sum — two payloads whose 4-lane chunks are permutations of each other get the same digest, and since versions restart at 1 after delete + reinsert the digest is
    # all that tells two epochs apart. Necessary for order sensitivity: inside the chunk loop every running hash is itself rotated or multiplied (an operation that
    # does not commute with the accumulation). What the mixing achieves beyond that (avalanche, collision resistance) stays undecided.
    heads = [c for c in dg.calls if c.callee and c.is_('re:Iterator>::next$') and c.bb in dg.reach(dg.succ(c.bb))]
    if not heads:
        ctx.missing(rid, 'digest_embedding: the loop over the 4-lane chunks')
    else:
        h_ = heads[0].bb
        loop = set(b_ for b_ in dg.reach([h_]) if h_ in dg.reach(dg.succ(b_))) | {h_}
        dv = flow.Origin(dg, stop_at_vars=True)
        accs = {}
        for l_, names in dg.varnames.items():
            if names and dg.locals[l_] == 'u64':
                dbs = set(d[0] for d in dg.defs.get(l_, []))
                if dbs & loop and dbs - loop:
                    accs[names[0]] = l_
        stirred = set()
        for c in dg.calls:
            if c.bb in loop and c.callee and re.search(r'::(rotate_left|rotate_right|wrapping_mul)$', c.callee) and c.args:
                for nm in accs:
                    if re.search(r'\bvar:%s\b' % re.escape(nm), flow.render(dv.of_operand(c.args[0]))):
                        stirred.add(nm)
        for i_ in loop:
            for st in dg.blocks[i_]['s']:
                rv = st.get('rv')
                if rv and rv['k'] == 'bin' and rv.get('op') in ('Mul', 'MulWithOverflow', 'MulUnchecked', 'Shl', 'Shr'):
                    for nm in accs:
                        if re.search(r'\bvar:%s\b' % re.escape(nm), flow.render(dv.of_operand(rv['a']))):
                            stirred.add(nm)
        flat = sorted(set(accs) - stirred)
        ctx.inst(rid, dg.short, 'the digest depends on the order of the chunks: each running hash is rotated / multiplied inside the chunk loop', bool(accs) and not flat,
                 ('running hash `%s` is only combined with per-chunk terms inside the loop (no rotation / multiplication of the running value): chunk-permuted payloads collide, '
                  'a stale copy from before a delete + reinsert passes embedding_matches_token' % flat[0]) if flat else
                 ('no running hash found' if not accs else 'running hashes %s are each rotated / multiplied in the loop' % sorted(accs)))




def hot_filter_validates(ctx, prog, rid):
    """C04.R1 / C06.R3: filter_hot_knn_results_to_canonical keeps a candidate only on the Match edge of canonical_vector_state applied to its own mirror entry
    (token equality AND payload digest) — not on token equality alone."""
    fh = ctx.body(rid, 'TieredEngine::filter_hot_knn_results_to_canonical')
    cl = [x for x in prog.family(fh) if x.kind == 'Closure' and x.calls_to('TieredEngine::canonical_vector_state')]
    okf = False
    if cl:
        c0 = cl[0]
        cof = flow.Origin(c0)
        v = c0.calls_to('TieredEngine::canonical_vector_state')[0]
        me = match_edges(c0, v, cof)
        somes = [i for i, blk in enumerate(c0.blocks) for st in blk['s'] if st.get('rv', {}).get('k') == 'agg' and st['rv'].get('variant') == 'Some' and st['pl']['l'] == 0]
        r0 = c0.reach([0], avoid_edges=me)
        src = flow.render(cof.of_operand(v.args[2]))
        okf = bool(me) and bool(somes) and not any(x in r0 for x in somes) and 'peek_with_coherence' in src
    ctx.inst(rid, fh.short, 'keeps a candidate only on the Match edge of its own mirror entry', okf, '')

def run(ctx, prog):
    ctx.not_decided = ['collision behaviour of the 128-bit integrity digest', 'operation histories / configurations (cache strategy × capacity × drains)']
    # ------------------------------------------------------------------ R1
    ctx.rule('C04.R1', 'validated hit: a value obtained from the document cache or the recent-write tier reaches a return value, a result slot or '
                       'L1a admission only in blocks dominated by the Match edge of canonical_vector_state called on that value; hot k-NN candidates '
                       'reach the merge only through filter_hot_knn_results_to_canonical; cached query results only through '
                       'filter_search_results_to_canonical on the ¬pruned edge')
    n_src = 0
    for b in prog.bodies.values():
        if 'tiered_engine::TieredEngine::' not in b.id or b.kind == 'Promoted':
            continue
        srcs = [c for c in b.calls if c.callee and c.is_(*SOURCES) or (c.orig and any(c.orig.endswith(s) for s in SOURCES))]
        if not srcs:
            continue
        of = flow.Origin(b)
        vcalls = b.calls_to('TieredEngine::canonical_vector_state')
        for s in srcs:
            n_src += 1
            nm = flow.short(s.orig or s.callee)
            # validators fed by this source
            vs = [v for v in vcalls if any(contains_call(of.of_operand(a), s) for a in v.args[2:4])]
            medges = []
            for v in vs:
                medges += match_edges(b, v, of)
            # sinks: statements / calls through which the source's payload leaves
            sinks = []
            for i, blk in enumerate(b.blocks):
                if i not in b.live_blocks():
                    continue
                for st in blk['s']:
                    rv = st.get('rv')
                    if not rv:
                        continue
                    ops = rv.get('ops') or ([rv['a']] if 'a' in rv else [])
                    if rv['k'] == 'agg' and any(o.get('k') in ('cp', 'mv') and contains_call(of.of_operand(o), s) for o in ops):
                        ak = rv.get('ak')
                        d = rv.get('adt', '')
                        if ak == 'tuple' or d.endswith('Option') or d.endswith('CachedVector') or d.endswith('Result'):
                            # only payload-carrying aggregates (embedding / metadata), not the (embedding, token) destructuring
                            tys = [b.locals[o['pl']['l']] for o in ops if o.get('k') in ('cp', 'mv') and not o['pl'].get('p')]
                            if any(t.startswith('alloc::vec::Vec<f32') or 'HashMap<' in t or 'CachedVector' in t or t.startswith('(alloc::vec::Vec<f32') for t in tys):
                                sinks.append((i, 'aggregate ' + (d.split('::')[-1] or ak)))
                    if st['pl']['l'] == 0 and not st['pl'].get('p') and rv['k'] == 'use' and contains_call(of.of_operand(rv['a']), s):
                        sinks.append((i, 'return'))
                c = b.call_at(i)
                if c is not None and c is not s and c not in vs and c.callee and not c.exp:
                    if c.is_('CacheStrategy::insert_cached', 'CacheStrategy::should_cache') or (c.orig or '').endswith('CacheStrategy::insert_cached'):
                        if any(contains_call(of.of_operand(a), s) for a in c.args):
                            sinks.append((i, 'call ' + flow.short(c.orig or c.callee)))
            if not sinks:
                # the hit is only inspected (e.g. audit / existence warning) — nothing leaves
                ctx.inst('C04.R1', b.short, '%s: payload never leaves unvalidated' % nm, True, 'no sink for the value obtained at %s' % s.loc)
                continue
            r0 = b.reach([0], avoid_edges=medges)
            bad = [(i, what) for i, what in sinks if i in r0]
            k = sum(1 for x in ctx.instances if x.get('config') == ctx.config and x['rule'] == 'C04.R1' and x['key'].startswith('C04.R1 | %s | %s' % (b.short, nm)))
            ctx.inst('C04.R1', b.short, '%s #%d served only past the canonical Match edge' % (nm, k), bool(vs) and bool(medges) and not bad,
                     ('value obtained at %s reaches %s at %s without the Match edge of its own canonical check' % (s.loc, bad[0][1], b.loc_of(bad[0][0]))) if bad else
                     ('no canonical_vector_state call on the value obtained at %s' % s.loc) if not vs else
                     '%d sinks (%s) behind %d Match edge(s)' % (len(sinks), ', '.join(sorted(set(w for _, w in sinks)))[:80], len(medges)))
    ctx.floor('C04.R1', 'cache / mirror source sites in the engine', n_src, 8, 'measured; ≈14 by hand incl. k-NN (checked from the sink side)')
    # hot k-NN: sink side
    n_merge = 0
    for c in prog.callers_of('TieredEngine::merge_knn_results'):
        b = c.body
        of = flow.Origin(b)
        n_merge += 1
        r = flow.render(of.of_operand(c.args[0]))
        ok = hot_candidates_validated(prog, b, of.of_operand(c.args[0]))
        k = sum(1 for x in ctx.instances if x.get('config') == ctx.config and x['rule'] == 'C04.R1' and x['key'].startswith('C04.R1 | %s | merge' % b.short.split('::{')[0]))
        ctx.inst('C04.R1', b.short.split('::{')[0], 'merge #%d gets validated hot candidates' % k, ok, 'hot operand: %s' % r[:160])
    ctx.floor('C04.R1', 'merge_knn_results call sites', n_merge, 3, 'single, batch, timed')
    # … and stay what the filter returned: no mutable borrow of a filter result is used at all (vec_pushes census over the filter call taken as the vector's producer:
    # a push, extend, insert, index_mut, helper, closure capture or stored borrow between the filter and the merge would add or replace candidates after validation).
    n_f = 0
    for c in prog.callers_of('TieredEngine::filter_hot_knn_results_to_canonical'):
        n_f += 1
        ps = vec_pushes(c.body, c, harmless=(r'(^|::)Vec(<.*>)?::(truncate|retain|retain_mut|clear|pop|shrink_to_fit|shrink_to|dedup|dedup_by|dedup_by_key)$',))   # can only drop candidates
        k = sum(1 for x in ctx.instances if x.get('config') == ctx.config and x['rule'] == 'C04.R1' and
                x['key'].startswith('C04.R1 | %s | validated hot candidates #' % c.body.short.split('::{')[0]))
        ctx.inst('C04.R1', c.body.short.split('::{')[0], 'validated hot candidates #%d are not modified after validation' % k, ps == [],
                 'filter call at %s: %s' % (c.loc, 'no mutable borrow of its result' if ps == [] else 'its result is pushed to' if ps else
                                            'a mutable borrow of its result is used (extend / insert / index_mut / helper / closure / stored)'))
    ctx.floor('C04.R1', 'filter_hot_knn_results_to_canonical call sites', n_f, 3, 'single, batch, timed')
    hk = sorted(set(c.body.short.split('::{')[0] for c in prog.callers_of('HotTier::knn_search', 'HotTier::knn_search_with_cancel') if 'hot_tier::' not in c.body.id))
    want = ['tiered_engine::TieredEngine::knn_search_batch_with_ef_detailed_scoped', 'tiered_engine::TieredEngine::knn_search_with_ef_detailed_scoped',
            'tiered_engine::TieredEngine::knn_search_with_timeouts_with_ef_scoped']
    ctx.inst('C04.R1', 'HotTier::knn_search*', 'called only from the three search entry points', hk == want, 'callers: %s' % hk)
    # who may read the unvalidated copies at all: the accessors in SOURCES hand out cache / mirror payloads as they are. Inside TieredEngine every such read is gated
    # (instances above); anywhere else — the RPC layer reaches the tiers through the public TieredEngine::hot_tier() / cache_strategy() accessors — nothing is, so a
    # payload read there is served whatever the canonical store says (stale after a bulk load that bypasses the mirror, or after a poke). The accessors' own modules
    # delegate among themselves (get → get_with_coherence, the strategy wrappers).
    from kvstatic.facts import strip_generics as _sg
    def _is_source(c_):
        return bool(c_.callee) and (c_.is_(*SOURCES) or bool(c_.orig and any(c_.orig.endswith(s_) for s_ in SOURCES)))
    home = set(b.file for b in prog.bodies.values() if any(_sg(b.id).endswith('::' + s_) or _sg(b.id).endswith(s_.replace('::', '>::')) for s_ in SOURCES))
    foreign = [c for c in prog.all_calls() if _is_source(c) and 'tiered_engine::TieredEngine::' not in c.body.id and c.body.file not in home]
    ctx.floor('C04.R1', 'modules defining the cache / mirror accessors', len(home), 2, 'hot_tier.rs, cache_strategy.rs')
    if not foreign:
        ctx.inst('C04.R1', 'cache / mirror accessors', 'read only inside TieredEngine (gated above) and by their own modules', True,
                 'no call of %s outside tiered_engine::TieredEngine and %s' % (', '.join(s_.split('::')[-1] for s_ in SOURCES), sorted(home)))
    for c in foreign:
        fn_ = c.body.short.split('::{')[0]
        ctx.inst('C04.R1', fn_, '%s read outside the engine\'s validated read paths' % flow.short(c.orig or c.callee), False,
                 '%s calls %s at %s: the value comes from the cache / recent-write mirror without the canonical token + digest check (canonical_vector_state), which only the '
                 'TieredEngine read paths apply — after a bulk load that bypasses the mirror, or with a stale / poked entry, it is not the canonical latest version'
                 % (fn_, flow.short(c.orig or c.callee), c.loc))
    hot_filter_validates(ctx, prog, 'C04.R1')
    # cached query results
    for fn in ('TieredEngine::knn_search_with_ef_detailed_scoped', 'TieredEngine::knn_search_batch_with_ef_detailed_scoped', 'TieredEngine::knn_search_with_timeouts_with_ef_scoped'):
        for b in prog.family(ctx.body('C04.R1', fn)):
            gs = b.calls_to('QueryHashCache::get_scoped')
            if not gs:
                continue
            of = flow.Origin(b)
            ov = flow.Origin(b, stop_at_vars=True)
            fl = b.calls_to('TieredEngine::filter_search_results_to_canonical')
            ok = bool(fl) and all(contains_call(of.of_operand(f_.args[1]), gs[0]) or 'get_scoped' in flow.render(of.of_operand(f_.args[1])) for f_ in fl[:1])
            notpr = [(i, tg) for i, blk in enumerate(b.blocks) if blk['t']['k'] == 'switch' for tg, p in flow.switch_edge_predicates(b, i, ov) if re.match(r'^!bool\[var:pruned_noncanonical\]$', p)]
            # CacheHit returns
            hits = [i for i, blk in enumerate(b.blocks) for st in blk['s'] if st.get('rv', {}).get('k') == 'agg' and st['rv'].get('variant') == 'CacheHit']
            r0 = b.reach([0], avoid_edges=notpr)
            # batch variant: hits are parked in `cached_results[i]` on the ¬pruned edge and served from those slots later
            slots = [i for i, blk in enumerate(b.blocks) if i in b.live_blocks() for st in blk['s'] if 'rv' in st and st['pl'].get('p') and
                     any(isinstance(x, dict) and 'ix' in x for x in st['pl']['p']) and 'cached_results' in (b.varnames.get(st['pl']['l']) or [])]
            slot_calls = [c.bb for c in b.calls if c.callee and c.callee.endswith('index_mut') and c.args and flow.render(ov.of_operand(c.args[0])) == 'var:cached_results']
            if slots or slot_calls:
                parked = slots + slot_calls
                ok = ok and bool(notpr) and not any(x in r0 for x in parked)
                # and what is served as CacheHit comes out of those slots
                served_ok = True
                for i_ in hits:
                    for st in b.blocks[i_]['s']:
                        pass
                ok = ok and bool(hits)
            else:
                ok = ok and bool(notpr) and bool(hits) and not any(h in r0 for h in hits)
            ctx.inst('C04.R1', b.short.split('::{')[0], 'cached results served only after the canonical filter kept all of them', ok,
                     'filter calls %d; ¬pruned edges %d; CacheHit returns %d' % (len(fl), len(notpr), len(hits)))

    # ------------------------------------------------------------------ R2
    ctx.rule('C04.R2', 'canonical-only answers: get_metadata and exists answer from HnswBackend::{fetch_metadata, current_coherence_token} only; the '
                       'metadata component of get_document_with_metadata / bulk_query_with_source originates from the canonical store')
    gm = ctx.body('C04.R2', 'TieredEngine::get_metadata')
    alts = [flow.render(a) for a in flow.top_alternatives(flow.Origin(gm).of_local(0))]
    ok = all(re.search(r'^HnswBackend::fetch_metadata\(|^option::Option::None\{\}$|^option::Option::Some\{HnswBackend::fetch_metadata\(', a) for a in alts)
    ctx.inst('C04.R2', gm.short, 'metadata answered from the canonical store only', ok, 'returns %s' % alts)
    # not-found is an answer too, and only the canonical store can give it: every return lies behind the canonical fetch, and a None the function builds itself lies
    # behind the None edge of that fetch (a gate in front of it — breaker open, not resident, rate limited — answers "no such document" for documents that exist)
    fm = gm.calls_to('HnswBackend::fetch_metadata')
    if not fm:
        ctx.missing('C04.R2', 'TieredEngine::get_metadata: call of HnswBackend::fetch_metadata')
    else:
        wo = gm.reach([0], avoid_blocks=[c.bb for c in fm]) | {0}
        early = [x for x in gm.return_blocks() if x in wo]
        none_e = [e for c in fm for e in (flow.outcome_edges(gm, c)[1] or [])]
        own_none = [i for i, blk in enumerate(gm.blocks) if i in gm.live_blocks() for st in blk['s'] if st.get('rv', {}).get('k') == 'agg' and st['rv'].get('variant') == 'None'
                    and st['pl']['l'] == 0 and not st['pl'].get('p')]
        ungated = [x for x in own_none if x in (gm.reach([0], avoid_edges=none_e) | {0})]
        bad_nf = early or ungated
        ctx.inst('C04.R2', gm.short, 'not-found is answered only after the canonical store said so', not bad_nf,
                 ('a return is reachable without asking HnswBackend::fetch_metadata: %s' % rt.path_witness(gm, rt.find_path(gm, [0], early, avoid_blocks=[c.bb for c in fm]) or [])[:6]) if early else
                 ('None is returned at %s on a path that does not cross the None edge of fetch_metadata' % gm.loc_of(ungated[0])) if ungated else
                 'every return is behind fetch_metadata; %d own None answer(s), all behind its None edge' % len(own_none))
    ex = ctx.body('C04.R2', 'TieredEngine::exists')
    r = flow.render(flow.Origin(ex).of_local(0))
    ctx.inst('C04.R2', ex.short, 'existence answered from the canonical token only', bool(re.match(r'^Option::is_some\(HnswBackend::current_coherence_token\(', r)), 'returns %s' % r[:100])
    from rules.C05 import pair_sites, root_calls
    for fn in ('TieredEngine::get_document_with_metadata', 'TieredEngine::bulk_query_with_source'):
        f = ctx.body('C04.R2', fn)
        of = flow.Origin(f)
        for k, (bb, vop, mop) in enumerate(pair_sites(f, 'tuple')):
            mroots = root_calls(of.of_operand(mop))
            ok = bool(mroots) and all(c is not None and c.callee and re.search(r'HnswBackend::(bulk_fetch|bulk_fetch_with_coherence|fetch_metadata)$', c.callee) for c in mroots)
            ctx.inst('C04.R2', f.short, 'metadata of pair #%d is canonical' % k, ok, 'metadata from %s' % sorted(set(flow.short(c.callee) if c else '?' for c in mroots)))

    validator_guards(ctx, prog, 'C04.R3')

    # ------------------------------------------------------------------ R4
    ctx.rule('C04.R4', 'write-path order: TieredEngine::insert: cache_strategy.invalidate ≺ cold_tier.insert ≺ current_coherence_token ≺ '
                       'hot_tier.insert_with_coherence with that token; delete: cold delete ≺ hot delete and every Ok(true) invalidates L1a; batch delete and '
                       'bulk load invalidate every id; the stored version is prior + 1 and the stored digest that of the stored vector')
    eff = Effects(prog)
    eff.define('l1a_inv', 'CacheStrategy::invalidate')
    eff.define('cold_insert', 'HnswBackend::insert')
    eff.define('token', 'HnswBackend::current_coherence_token')
    eff.define('hot_insert', 'HotTier::insert_with_coherence')
    ti = ctx.body('C04.R4', 'TieredEngine::insert')
    inv = [c.bb for c in ti.calls if (c.orig or '').endswith('CacheStrategy::invalidate') or (c.callee or '').endswith('CacheStrategy::invalidate')]
    util.check_chain(ctx, 'C04.R4', ti, [util.Step('cache_strategy.invalidate', ti, inv), util.Step('cold_tier.insert', ti, eff.blocks(ti, 'cold_insert')),
                                         util.Step('current_coherence_token', ti, eff.blocks(ti, 'token')), util.Step('hot_tier.insert_with_coherence', ti, eff.blocks(ti, 'hot_insert'))],
                     no_reorder=False)
    hi = ti.calls_to('HotTier::insert_with_coherence')
    if hi:
        tk = flow.render(flow.Origin(ti).of_operand(hi[0].args[4]))
        ctx.inst('C04.R4', ti.short, 'mirror tagged with the token read after the durable write', 'HnswBackend::current_coherence_token(' in tk, 'token argument: %s' % tk[:120])
    td = ctx.body('C04.R4', 'TieredEngine::delete')
    cd = td.calls_to('HnswBackend::delete')
    hd = td.calls_to('HotTier::delete')
    okd = bool(cd) and bool(hd) and hd[0].bb not in td.reach([0], avoid_edges=flow.success_edges(td, cd[0]))
    ctx.inst('C04.R4', td.short, 'canonical delete succeeds before the mirror is removed', okd, '')
    invd = [c.bb for c in td.calls if (c.orig or '').endswith('CacheStrategy::invalidate')]
    trues = [i for i, blk in enumerate(td.blocks) for st in blk['s'] if st.get('rv', {}).get('k') == 'agg' and st['rv'].get('variant') == 'Ok' and st['pl']['l'] == 0 and st['rv']['ops'] and st['rv']['ops'][0].get('int') == 1]
    r0 = td.reach([0], avoid_blocks=invd)
    ctx.inst('C04.R4', td.short, 'Ok(true) only after the L1a entry was invalidated', bool(trues) and bool(invd) and not any(x in r0 for x in trues), 'Ok(true) blocks %s' % trues)
    def _every_id(f, accept):
        lp = invalidation_loop(f)
        okl = lp is not None and bool(accept(lp)) and lp['every'] and not lp['escapes'] and lp['item']
        why = '' if lp is None or okl else ''.join(
            ([] if lp['every'] else ['; an iteration can reach the next one without the invalidation']) +
            ([] if not lp['escapes'] else ['; the loop can be left before the list is exhausted (%s)' % next((f.loc_of(x) for x in lp['escapes'] if not f.loc_of(x).startswith('?')), '?')]) +
            ([] if lp['item'] else ['; what is invalidated is not the loop item']))
        ctx.inst('C04.R4', f.short, 'invalidates L1a for every id', okl, 'invalidation loop iterates %s%s' % (lp['src'] if lp else '', why))
        return lp
    by_name = lambda lp: lp['src'] in ('var:unique_doc_ids', 'arg:doc_ids')
    _every_id(ctx.body('C04.R4', 'TieredEngine::batch_delete'), by_name)
    bl = ctx.body('C04.R4', 'TieredEngine::bulk_load_cold_tier')
    try:
        helper = prog.body('TieredEngine::invalidate_caches_after_bulk_load')
    except KeyError:
        helper = None
    if helper is None and invalidation_loop(bl) is None:
        helper = ctx.body('C04.R4', 'TieredEngine::invalidate_caches_after_bulk_load')     # neither the helper nor its loop: anchor missing, as before
    if helper is not None:
        _every_id(helper, by_name)
        ctx.inst('C04.R4', bl.short, 'bulk load invalidates after loading', bool(bl.calls_to('TieredEngine::invalidate_caches_after_bulk_load')) and
                 all(bl.calls_to('TieredEngine::invalidate_caches_after_bulk_load')[0].bb not in bl.reach([c.bb]) or True for c in bl.calls_to('HnswBackend::insert')) and
                 not any(x in bl.reach([0], avoid_blocks=[bl.calls_to('TieredEngine::invalidate_caches_after_bulk_load')[0].bb]) for x in bl.return_blocks()), '')
    else:
        # the single-use helper merged into its caller: the same loop stands in bulk_load_cold_tier itself. What the helper received as `doc_ids` must now be visible
        # here — the ids of the documents handed to the bulk load, collected from the `documents` parameter — and every return lies behind the exhaustion of the loop,
        # with no canonical insert after it
        lp = _every_id(bl, lambda lp_: _ids_of_documents(prog, bl, lp_['full']))
        r0 = bl.reach([0], avoid_edges=lp['exhaust'])
        after = bl.reach([e[1] for e in lp['exhaust']])
        late = [c for c in bl.calls_to('HnswBackend::insert') if c.bb in after]
        ctx.inst('C04.R4', bl.short, 'bulk load invalidates after loading', bool(lp['exhaust']) and not any(x in r0 for x in bl.return_blocks()) and not late,
                 'invalidation loop written in place (no invalidate_caches_after_bulk_load helper); %s' % (
                     'a return is reachable without running the loop to its end' if any(x in r0 for x in bl.return_blocks()) else
                     ('cold_tier.insert at %s can run after the invalidation' % late[0].loc) if late else 'every return is behind its exhaustion edge, no canonical insert after it'))
    hb = ctx.body('C04.R4', 'HnswBackend::insert')
    hv = flow.Origin(hb, stop_at_vars=True)
    hf = flow.Origin(hb)
    pv = [c for c in hb.calls if c.callee and c.callee.endswith('::push') and c.args and flow.render(hf.of_operand(c.args[0])).endswith('DocumentStore.versions')]
    pd = [c for c in hb.calls if c.callee and c.callee.endswith('::push') and c.args and flow.render(hf.of_operand(c.args[0])).endswith('DocumentStore.digests')]
    nv = hb.var_local('next_version')
    nvo = flow.render(hf.of_local(nv[0])) if nv else ''
    ctx.inst('C04.R4', hb.short, 'stored version = prior version + 1', bool(pv) and flow.render(hv.of_operand(pv[0].args[1])) == 'var:next_version' and bool(re.search(r'saturating_add\(.*, 1\)', nvo)) and
             ('DocumentStore.versions' in nvo or any(any('DocumentStore.versions' in str(st.get('rv', '')) for blk in fb.blocks for st in blk['s'])
                                                     for cid in re.findall(r'closure:([^{ ]*\{closure#\d+\})', nvo) for fb in prog.family(hb) if fb.id.endswith(cid))),
             'next_version = %s' % nvo[-140:])
    dg = hb.var_local('embedding_digest')
    dgo = flow.render(hv.of_local(dg[0])) if dg else ''
    nz = hb.calls_to('hnsw_backend::normalize_in_place_if_needed')
    dcall = hb.calls_to('coherence::digest_embedding')
    okd = bool(pd) and flow.render(hv.of_operand(pd[0].args[1])) == 'var:embedding_digest' and bool(dcall) and bool(nz) and hb.dominates(nz[0].bb, dcall[0].bb)
    ctx.inst('C04.R4', hb.short, 'stored digest is that of the stored (normalised) vector', okd, 'embedding_digest = %s; computed after normalisation: %s' % (dgo[:80], bool(nz and dcall and hb.dominates(nz[0].bb, dcall[0].bb))))

    # every implementation of CacheStrategy::invalidate really removes the entry (R4 treats the trait call as the effect)
    impls = prog.trait_impls.get('kyrodb_engine::cache_strategy::CacheStrategy::invalidate', [])
    ctx.floor('C04.R4', 'implementations of CacheStrategy::invalidate', len(impls), 4, 'Lru, Learned, AbTestSplitter, SharedLearned')
    for ip in impls:
        ib = prog.resolve_local(ip)
        if ib is None:
            ctx.missing('C04.R4', 'body of %s' % ip)
            continue
        io = flow.Origin(ib)
        rets = [r_ for r_ in ib.return_blocks() if r_ in ib.live_blocks()]
        rm = [c for c in ib.calls if c.callee and c.callee.endswith('VectorCache::remove') and len(c.args) > 1 and flow.render(io.of_operand(c.args[1])) == 'arg:doc_id']
        dele = [c for c in ib.calls if (c.orig or '').endswith('CacheStrategy::invalidate') and len(c.args) > 1 and flow.render(io.of_operand(c.args[1])) == 'arg:doc_id']
        adt = prog.adts.get((ib.impl_self or '').split('<')[0]) or {}
        inner = [f_['name'] for v_ in adt.get('variants', []) for f_ in v_['fields'] if 'CacheStrategy' in f_['ty'] and 'VectorCache' not in f_['ty']]
        own = [f_['name'] for v_ in adt.get('variants', []) for f_ in v_['fields'] if 'VectorCache' in f_['ty']]
        dom = lambda cs: [c for c in cs if all(ib.dominates(c.bb, r_) for r_ in rets)]
        deleg_fields = sorted(set(re.search(r'\.(\w+)$', flow.render(io.of_operand(c.args[0]))).group(1) for c in dom(dele) if re.search(r'\.(\w+)$', flow.render(io.of_operand(c.args[0])))))
        ok = bool(rets) and ((bool(own) and bool(dom(rm))) or not own) and sorted(inner) == deleg_fields and (bool(own) or bool(inner))
        ctx.inst('C04.R4', ib.short, 'invalidate removes the entry on every path (own cache) and forwards to every inner strategy', ok,
                 'own cache field(s) %s: remove(doc_id) on every path: %s; inner strategies %s: forwarded to %s' % (own, bool(dom(rm)), inner, deleg_fields))
    # acknowledgement only after the canonical write: a mutator reports a change (Ok(true) / Ok(n)) only past the success edge of its cold-tier call;
    # whatever it returns without having called the canonical store is `false` / `0` (nothing acknowledged). A fast path that trusts the mirror's
    # metadata ("already equal, nothing to do") acknowledges an update the canonical store never saw.
    # the mirror follows every canonical removal / change: after the cold-tier call succeeded, the matching hot-tier call runs on EVERY path to a
    # non-error return (a `&&` short-circuit or an early return that skips it leaves a mirror entry the next drain "repairs" back into the cold tier)
    FOLLOW = [('TieredEngine::delete', 'HnswBackend::delete', 'HotTier::delete', None),
              ('TieredEngine::batch_delete', 'HnswBackend::batch_delete', 'HotTier::batch_delete', None),
              # "the document did not exist" = the false edge of the bool the canonical call itself returned (full origin of the switch operand: whether the
              # value sits in a named local or is tested in place makes no difference)
              ('TieredEngine::update_metadata', 'HnswBackend::update_metadata', 'HotTier::update_metadata',
               r'^!bool\[HnswBackend::update_metadata\(arg:self→TieredEngine\.cold_tier, [^()]*\)@(Continue→Continue|Ok→Ok)\.0\]$')]
    for fn, cold, hot, exempt_rx in FOLLOW:
        b = ctx.body('C04.R4', fn)
        if b is None:
            continue
        bf = flow.Origin(b)
        cc = b.calls_to(cold)
        hh = b.calls_to(hot)
        se = [e for c in cc for e in (flow.success_edges(b, c) or [])]
        ex = [(i_, tg) for i_, blk in enumerate(b.blocks) if blk['t']['k'] == 'switch' for tg, p in flow.switch_edge_predicates(b, i_, bf) if exempt_rx and re.match(exempt_rx, p)]
        errs = flow.err_blocks(b)
        starts = [e[1] for e in se]
        r_ = (b.reach(starts, avoid_blocks=[c.bb for c in hh] + sorted(errs), avoid_edges=ex) | set(starts)) - set(c.bb for c in hh)
        leak = [x for x in b.return_blocks() if x in r_]
        ctx.inst('C04.R4', b.short, 'the mirror follows the canonical call on every path', bool(cc) and bool(hh) and bool(se) and not leak,
                 ('after %s succeeded a return is reachable without %s: %s' % (cold, hot, rt.path_witness(b, rt.find_path(b, starts, leak, avoid_blocks=[c.bb for c in hh] + sorted(errs), avoid_edges=ex))[:6])) if leak else
                 '%s after every successful %s%s' % (hot, cold, ' (nothing to mirror when the document did not exist)' if exempt_rx else ''))
    CANON = [('TieredEngine::update_metadata', 'HnswBackend::update_metadata'), ('TieredEngine::delete', 'HnswBackend::delete'),
             ('TieredEngine::batch_delete', 'HnswBackend::batch_delete'), ('TieredEngine::insert', 'HnswBackend::insert')]
    for fn, callee in CANON:
        b = ctx.body('C04.R4', fn)
        if b is None:
            continue
        bo = flow.Origin(b)
        cc = b.calls_to(callee)
        se = [e for c in cc for e in (flow.success_edges(b, c) or [])]
        if not cc or not se:
            ctx.inst('C04.R4', b.short, 'acknowledges only what the canonical store accepted', False, 'no tested call of %s' % callee)
            continue
        r0 = b.reach([0], avoid_edges=se) | {0}
        oks = []
        for i_, blk in enumerate(b.blocks):
            for st in blk['s']:
                rv = st.get('rv')
                if rv and st['pl']['l'] == 0 and not st['pl'].get('p') and rv['k'] == 'agg' and rv.get('variant') == 'Ok':
                    oks.append((i_, flow.render(bo.of_operand(rv['ops'][0])) if rv['ops'] else '()'))
        early = [(i_, v) for i_, v in oks if i_ in r0]
        bad = [(i_, v) for i_, v in early if v not in ('0', 'false', '()')] if fn != 'TieredEngine::insert' else [(i_, v) for i_, v in early]
        mirror_reads = [c for c in b.calls if c.callee and re.search(r'HotTier::(get_metadata|get_with_coherence|get)$', c.callee) and c.bb in r0]
        ctx.inst('C04.R4', b.short, 'acknowledges only what the canonical store accepted', bool(oks) and not bad and not mirror_reads,
                 ('returns Ok(%s) at %s without having called %s' % (bad[0][1][:40], b.loc_of(bad[0][0]), callee)) if bad else
                 ('reads the mirror (%s) before the canonical call' % flow.short(mirror_reads[0].callee)) if mirror_reads else
                 '%d Ok returns, %d before the canonical call (all false / 0)' % (len(oks), len(early)))
    # ------------------------------------------------------------------ R5
    ctx.rule('C04.R5', 'drain keeps the canonical record authoritative: reconcile_drained_hot_tier_documents writes to the cold tier only in the arm '
                       'where the canonical embedding or metadata is missing')
    rc = ctx.body('C04.R5', 'TieredEngine::reconcile_drained_hot_tier_documents')
    util.bind_role(rc, 'cold_embedding', type_rx=r'^core::option::Option<alloc::vec::Vec<f32>', origin_rx=r'HnswBackend::fetch_document\w*\(', full=True)
    util.bind_role(rc, 'cold_metadata', type_rx=r'^core::option::Option<std::collections::HashMap<alloc::string::String', origin_rx=r'HnswBackend::fetch_metadata\(', full=True)
    rv = flow.Origin(rc, stop_at_vars=True)
    ci = rc.calls_to('HnswBackend::insert')
    # "missing" means: the canonical accessor itself said None. The tested options are the accessors' results as they are — an adapter in between (filter, and_then,
    # take_if, a comparison with the mirror) can turn a present canonical component into None, and the repair arm then overwrites the newest canonical version with
    # the stale mirror copy (with a fresh version, so no token check can notice)
    rf5 = flow.Origin(rc)
    for nm5, rx5 in (('cold_embedding', r'^(HnswBackend::fetch_document\(arg:self→TieredEngine\.cold_tier, DOCID\)|Option::map\(HnswBackend::fetch_document_with_coherence\(arg:self→TieredEngine\.cold_tier, DOCID\), closure:[^()]*\)|HnswBackend::fetch_document_with_coherence\(arg:self→TieredEngine\.cold_tier, DOCID\))$'),
                     ('cold_metadata', r'^HnswBackend::fetch_metadata\(arg:self→TieredEngine\.cold_tier, DOCID\)$')):
        rx5 = rx5.replace('DOCID', r"<into_iter::IntoIter<T, A> as iterator::Iterator>::next\(arg:documents\)@Some→Some\.0\.0")
        vl5 = rc.var_local(nm5)
        o5 = flow.render(rf5.of_local(vl5[0])) if vl5 else '?'
        ctx.inst('C04.R5', rc.short, '%s is the canonical accessor\'s answer as it is' % nm5, bool(re.match(rx5, o5)), '%s = %s' % (nm5, o5[:200]))
    both = []
    for i, blk in enumerate(rc.blocks):
        if blk['t']['k'] == 'switch' and i in rc.live_blocks():
            for tg, p in flow.switch_edge_predicates(rc, i, rv):
                if re.match(r'^variant\(.*(cold_embedding|cold_metadata).*\) = Some$', p):
                    both.append((i, tg, p))
    # the insert must be unreachable on the path where both are Some: delete the None edges and see
    none_e = [(i, tg) for i, blk in enumerate(rc.blocks) if blk['t']['k'] == 'switch' and i in rc.live_blocks() for tg, p in flow.switch_edge_predicates(rc, i, rv)
              if re.match(r'^variant\(.*(cold_embedding|cold_metadata).*\) (= None|∉ \{Some\})$', p)]
    r0 = rc.reach([0], avoid_edges=none_e)
    ctx.inst('C04.R5', rc.short, 'repair insert only when a canonical component is missing', bool(ci) and bool(none_e) and all(c.bb not in r0 for c in ci),
             'None edges %d; repair insert %s' % (len(none_e), 'reachable with both components present' if any(c.bb in r0 for c in ci) else 'only behind a None edge'))
    # …and not for the mirror of a DELETED document: the drain takes the mirror entries out first and handles them one by one afterwards, so a delete can complete
    # while an entry waits in the drain's batch. With both canonical components missing, the repair insert is reachable only for an entry that never mirrored a
    # canonical record (token version 0; live canonical versions start at 1) — otherwise the drain undoes an acknowledged delete
    some_e = [(i_, tg) for (i_, tg, p_) in both]
    v0_e = [(i_, tg) for i_, blk in enumerate(rc.blocks) if blk['t']['k'] == 'switch' and i_ in rc.live_blocks() for tg, p_ in flow.switch_edge_predicates(rc, i_, rv)
            if re.match(r'^cmp\[\+ .*VectorCoherenceToken\.version == 0\]$', p_)]
    r_del = rc.reach([0], avoid_edges=some_e + v0_e)
    ok_del = bool(ci) and bool(some_e) and all(c.bb not in r_del for c in ci)
    ctx.inst('C04.R5', rc.short, 'the mirror of a deleted document is dropped, not repaired', ok_del,
             'with both canonical components missing the repair insert is %s (version-0 edges: %d)' % (
                 'reachable for an entry that mirrors a canonical version: a delete that completed while the drain held the entry is undone' if not ok_del
                 else 'reachable only for an entry whose token version is 0', len(v0_e)))
    # the same for a PARTIAL canonical state (F21): the two canonical reads are separate calls, so a delete (or insert) that completes between them shows one
    # component present and the other missing; only an entry with token version 0 may be repaired, whatever the two reads returned
    r_any = rc.reach([0], avoid_edges=v0_e)
    ok_part = bool(ci) and bool(v0_e) and all(c.bb not in r_any for c in ci)
    ctx.inst('C04.R5', rc.short, 'a partial canonical state is not repaired from a mirror of a canonical version either', ok_part,
             'the repair insert is %s' % ('reachable without the version-0 edge: a delete / insert completing between the two canonical reads is undone / overwritten by the drain'
                                          if not ok_part else 'reachable only across a version == 0 edge (%d)' % len(v0_e)))
    # … and that repair is the ONLY canonical mutation a drain performs. Census by effect, not by name: every call in the function (and its closures) whose callee may,
    # transitively, take the canonical document store exclusively or append to the log must be one of the repair inserts decided above. Anything else — "healing" the
    # canonical metadata from the mirror, deleting what the mirror no longer has — makes the mirror's content durable and visible to reads: a drain then changes what
    # get_metadata / query return and what restart recovers, with stale or poked mirror entries included
    from kvstatic.locks import LockModel as _LM5
    from kvstatic.callgraph import sync_calls as _sc5, reachable_bodies as _rb5
    lm5 = _LM5(prog)
    writers5 = set(bid for bid, acqs in lm5.body_acqs.items() if any(a.cls == 'HnswBackend.doc_store' and a.mode in ('W', 'U') for a in acqs.values()))
    writers5 |= set(c.body.id for c in prog.callers_of('WalWriter::append', 'WalWriter::append_batch'))
    ctx.floor('C04.R5', 'functions that write the canonical store or the log directly', len(writers5), 4, 'the four backend mutators at least')
    muts5 = []
    for b5 in prog.family(rc):
        for bb5, cbs in sorted(_sc5(prog).get(b5.id, {}).items()):
            c5 = b5.call_at(bb5)
            if c5 is None or any(c5 is x for x in ci):
                continue
            hit = [sorted(_rb5(prog, [cb.id]) & writers5) for cb in cbs if cb.root != rc.root]
            hit = [h for h in hit if h]
            if hit:
                muts5.append((b5, c5, prog.bodies[hit[0][0]].short))
    ctx.inst('C04.R5', rc.short, 'the repair insert is the only canonical mutation of a drain', bool(ci) and not muts5,
             ('%s at %s may change the canonical store (%s takes the document store exclusively / appends to the log) outside the missing-record repair: the drain '
              'writes mirror content over a present canonical record, durably' % (flow.short(muts5[0][1].callee or '?'), muts5[0][1].loc, muts5[0][2])) if muts5 else
             'calls that may write the canonical store: %d (the repair insert%s)' % (len(ci), 's' if len(ci) != 1 else ''))
    srcs = [flow.render(flow.Origin(rc).of_operand(a)) for a in (ci[0].args[2:4] if ci else [])]
    # ------------------------------------------------------------------ R6 positional agreement of bulk answers
    ctx.rule('C04.R6', 'a bulk lookup answers position by position: the ids handed to the canonical bulk fetch are the pending positions mapped through doc_ids, '
                       'in order and one for one (the list is only read between its construction and the fetch, the position list is not touched after it), and '
                       'answer i of the fetch is written back through position i of that same list — otherwise a document is answered with another document\'s content '
                       'once the mirror no longer serves it')
    bq = ctx.body('C04.R6', 'TieredEngine::bulk_query_with_source')
    if bq is not None:
        of6 = flow.Origin(bq)
        ov6 = flow.Origin(bq, stop_at_vars=True)
        n6 = 0
        for c in bq.calls:
            if not (c.callee and re.search(r'HnswBackend::bulk_fetch$', c.callee) and len(c.args) > 1):
                continue
            n6 += 1
            full = flow.render(of6.of_operand(c.args[1]))
            var = flow.render(ov6.of_operand(c.args[1]))
            m6 = re.match(r'^Iterator::collect\(Iterator::map\(slice::iter\((.*)\), closure:([\w:<> ]*\{closure#\d+\})\{arg:doc_ids\}\)\)$', full)
            shape = m6 is not None
            # the closure is position -> doc_ids[position]
            clo_ok = False
            if m6:
                for b in prog.family(bq):
                    if b.id.endswith(m6.group(2)) or b.short.endswith(m6.group(2)):
                        clo_ok = flow.render(flow.Origin(b).of_local(0)) == 'cap:doc_ids[]'
            # the id list is only read
            idl = None
            mm = re.match(r'^var:(\w+)$', var)
            touched = []
            if mm:
                idl = mm.group(1)
                for x in bq.calls:
                    for a in x.args:
                        if a.get('k') in ('mv', 'cp') and flow.render(ov6.of_operand(a)) == 'var:' + idl and bq.locals[a['pl']['l']].startswith('&mut'):
                            touched.append(flow.short(x.callee or '?'))
            # the position list: found through the write-back Index::index(POS, enumerate(fetch).0)
            wb = [x for x in bq.calls if x.callee and re.search(r'Index<.*>>::index$|index::Index.*::index$', x.callee) and len(x.args) > 1 and
                  re.search(r'Iterator::enumerate\(HnswBackend::bulk_fetch\(.*\)\)\)@Some→Some\.0\.0$', flow.render(of6.of_operand(x.args[1])))]
            pos_same = bool(wb) and m6 is not None and all(flow.render(of6.of_operand(x.args[0])) == m6.group(1) for x in wb)
            posv = flow.render(ov6.of_operand(wb[0].args[0])) if wb else '?'
            if not wb and m6 is not None:
                # the other idiom: positions.iter().zip(answers)
                for x in bq.calls:
                    if x.callee and x.callee.endswith('Iterator::zip') and len(x.args) == 2:
                        rs = [flow.render(of6.of_operand(a)) for a in x.args]
                        pi = [k_ for k_, r_ in enumerate(rs) if re.match(r'^(slice::iter|.*IntoIterator>::into_iter|.*into_iter)\(%s\)$' % re.escape(m6.group(1)), r_)]
                        ai = [k_ for k_, r_ in enumerate(rs) if 'HnswBackend::bulk_fetch(' in r_]
                        if pi and ai and pi[0] != ai[0]:
                            wb = [x]
                            pos_same = True
                            posv = re.sub(r'^.*\((var:\w+)\)$', r'\1', flow.render(ov6.of_operand(x.args[pi[0]])))
            # no mutation of the position list once the ids were collected
            late = []
            if wb and re.match(r'^var:\w+$', posv):
                after = bq.reach([c.bb]) | {c.bb}
                coll = [x.bb for x in bq.calls if x.callee and x.callee.endswith('Iterator::collect') and x.dest is not None and bq.var_local(idl or '') and x.dest['l'] in bq.var_local(idl or '')]
                if coll:
                    after |= bq.reach(coll)
                for x in bq.calls:
                    for a in x.args:
                        if a.get('k') in ('mv', 'cp') and flow.render(ov6.of_operand(a)) == posv and bq.locals[a['pl']['l']].startswith('&mut') and x.bb in after:
                            late.append(flow.short(x.callee or '?'))
            ok6 = shape and clo_ok and not touched and pos_same and not late
            ctx.inst('C04.R6', bq.short, 'cold answers are written back through the position list the ids were built from', ok6,
                     'ids = %s; closure is position → doc_ids[position]: %s; in-place changes of the id list: %s; write-back indexes %s (same list: %s); position list changed after the ids were built: %s'
                     % (full[:110], clo_ok, touched or 'none', posv, pos_same, late or 'no'))
        ctx.floor('C04.R6', 'canonical bulk fetches in bulk_query_with_source', n6, 1, 'the cold fallback')
    # ------------------------------------------------------------------ R7 = C06.R6 (first half): an overwrite never lands on another document's slot
    ctx.rule('C04.R7', 'canonical slots (= C06.R6, shared function): tombstone compaction renumbers every internal slot; a slot number looked up before a compaction is '
                       'never used after it without a fresh lookup — otherwise an overwrite tombstones / clears the metadata of whatever document now sits in the old '
                       'slot, and every (validated) read of that unrelated document faithfully serves the damaged canonical record')
    from rules import C06 as _c06
    _c06.stale_slots(ctx, prog, 'C04.R7')
    ctx.stat('functions_analysed', len(set(i['key'].split(' | ')[1] for i in ctx.instances)))
