"""C05 — per-document operations are linearizable under concurrency.

Only two clauses have a structural form and are decided here: the PAIRING clause ("the vector and the metadata returned
together by one read belong to the same write") and the write-gate discipline.  The existence of a linearisation for
every history is a property of interleavings and is NOT decided.
"""
import re

from kvstatic import flow, rt, util, server
from kvstatic.locks import LockModel

MANIFEST = {
    'text': 'Decides the pairing clause and the gate mechanism, not linearizability: wherever a read returns a vector together with '
            'metadata, both components must be projections of ONE canonical fetch (a callee that takes the document store once), or '
            'the vector must be admitted past an equality test between its token and the token returned by that same fetch; and every '
            'exclusive acquisition of the canonical store in a public mutator happens under the single write gate. Readers do not take '
            'the gate, so two separate acquisitions admit an overwrite in between: the condition is necessary. One site (Query RPC) '
            'violates it on the repaired tree and is a listed known finding.',
    'design_ref': 'DESIGN.md §4.5, §5 F6',
    'note': 'Trusted base: rustc MIR, origin trees with call-site identity, lock-state dataflow. Histories / interleavings are not explored.',
    'technique': 'call-site identity of origins (same-fetch pairing) + must-hold lock state on MIR',
}

EXPLANATION = ('HELD/FLOW rules of DESIGN §4.5. A pair is accepted when the metadata operand and the vector operand originate from the same '
               'call site of a single-acquisition canonical fetch, or when the vector is a hot-tier copy whose token is compared for equality '
               'with the token projected from that same call site on an edge dominating the pair.')

ATOMIC_FETCH = ('HnswBackend::bulk_fetch', 'HnswBackend::bulk_fetch_with_coherence')


def root_calls(tree):
    """call objects at the roots of an origin tree (through field / downcast / index / cast wrappers and phis)."""
    out = []
    for alt in flow.top_alternatives(tree):
        cur = alt
        tup = []   # tuple positions selected on the way in (outermost first), Option payload fields excluded
        while cur[0] in ('field', 'downcast', 'index', 'cast', 'set'):
            if cur[0] == 'field' and isinstance(cur[2], str) and re.match(r'^\.\d+$', cur[2]):
                tup.append(int(cur[2][1:]))
            cur = cur[1]
        if cur[0] == 'call' and len(cur) > 3:
            c = cur[3]
            # a.zip(b).next() yields (a_i, b_i): the innermost tuple position says which side the value came from
            if c.callee and re.search(r'zip::Zip<.*Iterator>::next$', c.callee) and cur[2] and cur[2][0][0] == 'call' and len(cur[2][0]) > 3 and \
                    cur[2][0][3].callee and cur[2][0][3].callee.endswith('Iterator::zip') and tup and tup[-1] < len(cur[2][0][2]):
                out += root_calls(cur[2][0][2][tup[-1]])
                continue
            # iterator plumbing: next(into_iter(X)) / flatten -> look through to X
            if c.callee and re.search(r'Iterator>::next$|Option<.*>::flatten$|Option::flatten$|IntoIterator>::into_iter$|Iterator::enumerate$', c.callee) and cur[2]:
                out += root_calls(cur[2][0])
            else:
                out.append(c)
        else:
            out.append(None)
    return out


def pair_sites(body, kind):
    """(block, vector operand, metadata operand) of every tuple that pairs a Vec<f32> with a metadata map in `body`."""
    out = []
    for i, blk in enumerate(body.blocks):
        if i not in body.live_blocks():
            continue
        for s in blk['s']:
            rv = s.get('rv')
            if not rv or rv['k'] != 'agg':
                continue
            if kind == 'tuple' and rv.get('ak') == 'tuple' and len(rv['ops']) in (2, 3):
                tys = []
                for o in rv['ops']:
                    if o.get('k') in ('cp', 'mv'):
                        l = o['pl']['l']
                        tys.append(body.locals[l] if not o['pl'].get('p') else '?')
                    else:
                        tys.append(o.get('ty', '?'))
                if len(tys) >= 2 and tys[0].startswith('alloc::vec::Vec<f32') and 'HashMap<alloc::string::String, alloc::string::String' in tys[1]:
                    out.append((i, rv['ops'][0], rv['ops'][1]))
            if kind == 'response' and rv.get('ak') == 'adt' and rv.get('adt', '').endswith('proto::QueryResponse'):
                f = rv['fields']
                if rv['ops'][f.index('found')].get('int') == 1:
                    out.append((i, rv['ops'][f.index('embedding')], rv['ops'][f.index('metadata')]))
    return out


def run(ctx, prog):
    ctx.not_decided = ['existence of a real-time-respecting total order for every history (interleavings are not explored)',
                       'reads never returning a version older than a completed write (needs schedules)']
    lm = LockModel(prog)
    ctx.rule('C05.R1', 'atomic pair: in every function that returns a (vector, metadata) pair both components originate from one call site of a '
                       'single-acquisition canonical fetch (bulk_fetch / bulk_fetch_with_coherence), or the vector is admitted past an equality test '
                       'of its token with the token projected from that same call site')
    SITES = [('TieredEngine::get_document_with_metadata', 'tuple'), ('TieredEngine::bulk_query_with_source', 'tuple')]
    n_pairs = 0
    for fn, kind in SITES:
        f = ctx.body('C05.R1', fn)
        of = flow.Origin(f)
        ov = flow.Origin(f, stop_at_vars=True)
        for k, (bb, vop, mop) in enumerate(pair_sites(f, kind)):
            n_pairs += 1
            mroots = root_calls(of.of_operand(mop))
            vroots = root_calls(of.of_operand(vop))
            m_atomic = bool(mroots) and all(c is not None and c.is_(*ATOMIC_FETCH) for c in mroots)
            same = m_atomic and all(c in mroots for c in vroots)
            how = 'same fetch'
            if m_atomic and not same:
                # vector from the hot tier: needs `token(hot) == token(that fetch)` on a dominating edge
                eq_edges = []
                for i, blk in enumerate(f.blocks):
                    if blk['t']['k'] != 'switch' or i not in f.live_blocks():
                        continue
                    on = blk['t']['on']
                    e = of.of_operand(on)
                    for tg, p in flow.switch_edge_predicates(f, i, of):
                        if p.startswith('eq[') and 'VectorCoherenceToken' in str(e) or (p.startswith('eq[') and 'coherence' in flow.switch_edge_predicates(f, i, ov)[0][1]):
                            # both sides: one rooted at the metadata's fetch, the other at the vector's producer
                            sides = [x for x in flow.walk(e) if x[0] == 'call' and len(x) > 3 and x[3].callee and x[3].callee.endswith('PartialEq>::eq') or (x[0] == 'call' and len(x) > 3 and (x[3].orig or '').endswith('PartialEq::eq'))]
                            for sc in sides:
                                a_roots = root_calls(sc[2][0]) if sc[2] else []
                                b_roots = root_calls(sc[2][1]) if len(sc[2]) > 1 else []
                                if (any(c in mroots for c in a_roots) and any(c in vroots for c in b_roots)) or (any(c in mroots for c in b_roots) and any(c in vroots for c in a_roots)):
                                    eq_edges.append((i, tg))
                if eq_edges:
                    r0 = f.reach([0], avoid_edges=eq_edges)
                    # … and the hot copy itself is what its token says: TieredEngine::insert mirrors its vector under the token it reads back after
                    # its canonical write, so a second overwrite in between leaves write A's vector under write B's token; only the integrity digest
                    # inside canonical_vector_state (Match) rejects that copy
                    from rules import C04 as _c04
                    medges = []
                    for v in f.calls_to('TieredEngine::canonical_vector_state'):
                        if any(_c04.contains_call(of.of_operand(a), c) for a in v.args[2:4] for c in vroots if c is not None and c not in mroots):
                            medges += _c04.match_edges(f, v, of)
                    r1 = f.reach([0], avoid_edges=medges)
                    if bb not in r0 and medges and bb not in r1:
                        same = True
                        how = 'hot-tier vector admitted past canonical Match (token + digest) and token(hot) = token(fetch)'
                    elif bb not in r0:
                        how = 'token equality only'
            ctx.inst('C05.R1', f.short, 'pair #%d comes from one canonical read' % k, m_atomic and same,
                     ('metadata from %s, vector from %s [%s]' % (sorted(set(flow.short(c.callee) if c else '?' for c in mroots)), sorted(set(flow.short(c.callee) if c else '?' for c in vroots)), how))
                     if (m_atomic and same) else
                     ('the pair built at %s admits a recent-write-tier vector on token equality alone: a mirror written under a later write\'s token (two overwrites racing in '
                      'TieredEngine::insert) passes, and the vector of one write is returned with the metadata of another; the digest check of canonical_vector_state (Match) must gate it' % f.loc_of(bb))
                     if how == 'token equality only' else
                     ('the pair built at %s takes its metadata from %s and its vector from %s — two separate acquisitions of the canonical store, so an overwrite in between '
                      'returns a vector and metadata of different writes' % (f.loc_of(bb), sorted(set(flow.short(c.callee) if c else '?' for c in mroots)), sorted(set(flow.short(c.callee) if c else '?' for c in vroots)))))
    q = server.handler(ctx, 'C05.R1', 'query', 'KyroDBServiceImpl::tenant_context')
    of = flow.Origin(q)
    for k, (bb, vop, mop) in enumerate(pair_sites(q, 'response')):
        n_pairs += 1
        mroots = root_calls(of.of_operand(mop))
        # look through sanitize_public_metadata / unwrap_or_default
        def through(cs):
            res = []
            for c in cs:
                if c is not None and c.callee and re.search(r'sanitize_public_metadata$|unwrap_or_default$', c.callee) and c.args:
                    res += through(root_calls(of.of_operand(c.args[0])))
                else:
                    res.append(c)
            return res
        mroots = through(mroots)
        vroots = [c for c in through(root_calls(of.of_operand(vop))) if not (c is not None and c.callee and re.search(r'Vec::new$|Vec<.*>::new$', c.callee))]   # `vec![]` when the embedding is not requested
        ok = bool(mroots) and all(c is not None and c in mroots for c in vroots) and all(c is not None for c in mroots)
        ctx.inst('C05.R1', 'rpc query', 'response pairs embedding and metadata from one engine read', ok,
                 'QueryResponse{found: true} at %s takes metadata from %s and embedding from %s — two engine reads; an overwrite between them is returned to the client as one document'
                 % (q.loc_of(bb), sorted(set(flow.short(c.callee) if c else '?' for c in mroots)), sorted(set(flow.short(c.callee) if c else '?' for c in vroots))))
    # the bulk read: every QueryResponse the BulkQuery handler builds (whatever `found` is — it is a variable there) takes its embedding and its metadata from ONE engine
    # read. "Engine read" = a call of a TieredEngine method whose result carries a vector or a metadata map; all such call sites found anywhere in the origins of the two
    # fields must be one and the same. A second read for either component (hydrating embeddings separately, re-reading metadata after a filter) admits an overwrite in
    # between, and the client gets the vector of one write with the metadata of another — the engine-side pairing of bulk_query_with_source (above) is then moot.
    bq = server.handler(ctx, 'C05.R1', 'bulk_query', 'KyroDBServiceImpl::tenant_context')
    obq = flow.Origin(bq, max_depth=40)

    def engine_reads(tree):
        out = []
        for x in flow.walk(tree):
            if x[0] == 'call' and len(x) > 3 and x[3].callee and 'tiered_engine::TieredEngine::' in x[3].callee and x[3].dest is not None:
                ty = bq.locals[x[3].dest['l']]
                if 'Vec<f32' in ty or 'HashMap<alloc::string::String, alloc::string::String' in ty:
                    if not any(x[3] is y for y in out):
                        out.append(x[3])
        return out
    n_bulk = 0
    for i, blk in enumerate(bq.blocks):
        if i not in bq.live_blocks():
            continue
        for s in blk['s']:
            rv = s.get('rv')
            if not (rv and rv['k'] == 'agg' and rv.get('ak') == 'adt' and rv.get('adt', '').endswith('proto::QueryResponse')):
                continue
            fl = rv['fields']
            er = engine_reads(obq.of_operand(rv['ops'][fl.index('embedding')]))
            mr = engine_reads(obq.of_operand(rv['ops'][fl.index('metadata')]))
            if not er and not mr:
                continue   # an answer without content (error / not-found literal)
            both = er + [c for c in mr if not any(c is y for y in er)]
            k = n_bulk
            n_bulk += 1
            ctx.inst('C05.R1', 'rpc bulk_query', 'response #%d pairs embedding and metadata from one engine read' % k, len(both) == 1,
                     ('QueryResponse at %s takes its metadata from %s and its embedding from %s — %d engine reads; an overwrite between them is returned to the client as one document'
                      % (bq.loc_of(i), sorted(set('%s (%s)' % (flow.short(c.callee), c.loc) for c in mr)), sorted(set('%s (%s)' % (flow.short(c.callee), c.loc) for c in er)), len(both)))
                     if len(both) != 1 else 'both fields originate from %s at %s' % (flow.short(both[0].callee), both[0].loc))
    ctx.floor('C05.R1', 'content-carrying QueryResponse sites in the BulkQuery RPC', n_bulk, 1, 'the per-document response of the loop')
    ctx.floor('C05.R1', '(vector, metadata) pair sites', n_pairs, 4, '2 in get_document_with_metadata, ≥1 in bulk_query_with_source, 1 in the Query RPC')
    # the single-acquisition fetches really take the store once
    for fn in ATOMIC_FETCH:
        f = ctx.body('C05.R1', fn)
        fam = prog.family(f)
        acq = [a for b in fam for a in lm.body_acqs.get(b.id, {}).values() if a.cls == 'HnswBackend.doc_store']
        ctx.inst('C05.R1', f.short, 'takes the document store exactly once', len(acq) == 1 and acq[0].mode == 'R', 'doc_store acquisitions: %d' % len(acq))

    ctx.rule('C05.R2', 'gate discipline: every exclusive acquisition of doc_store / index in a public mutator happens with HnswBackend.write_gate held; '
                       'compact_tombstones instead holds the snapshot lock exclusively')
    n = 0
    for fn in ('HnswBackend::insert', 'HnswBackend::delete', 'HnswBackend::update_metadata', 'HnswBackend::batch_delete'):
        f = ctx.body('C05.R2', fn)
        for bb, a in sorted(lm.body_acqs.get(f.id, {}).items()):
            if a.cls in ('HnswBackend.doc_store', 'HnswBackend.index', 'HnswBackend.metadata_index') and a.mode in ('W', 'U'):
                h = lm.held_at(f, bb, must=True)
                # metadata_index may be written after the gate is released in batch_delete (deferred maintenance under snapshot lock)
                ok = 'HnswBackend.write_gate' in h or (a.cls == 'HnswBackend.metadata_index' and 'PersistenceState.snapshot_lock' in h)
                n += 1
                k = sum(1 for x in ctx.instances if x.get('config') == ctx.config and x['rule'] == 'C05.R2' and x['key'].startswith('C05.R2 | %s | %s' % (f.short, a.cls)))
                ctx.inst('C05.R2', f.short, '%s.write() #%d under the write gate' % (a.cls, k), ok, 'held at %s: %s' % (a.call.loc, sorted(h)))
    ctx.floor('C05.R2', 'exclusive canonical acquisitions in mutators', n, 9, '')
    # the deciding read is serialised too: the shared doc_store acquisition with which a mutator looks the document up (what `existed` / the
    # logged entry is based on) happens under the write gate — read before it, two mutations of one id can both act on the pre-state
    n_r = 0
    for fn in ('HnswBackend::insert', 'HnswBackend::delete', 'HnswBackend::update_metadata', 'HnswBackend::batch_delete'):
        f = ctx.body('C05.R2', fn)
        for bb, a in sorted(lm.body_acqs.get(f.id, {}).items()):
            if a.cls == 'HnswBackend.doc_store' and a.mode == 'R':
                n_r += 1
                h = lm.held_at(f, bb, must=True)
                k = sum(1 for x in ctx.instances if x.get('config') == ctx.config and x['rule'] == 'C05.R2' and x['key'].startswith('C05.R2 | %s | doc_store.read()' % f.short))
                ctx.inst('C05.R2', f.short, 'doc_store.read() #%d (pre-flight lookup) under the write gate' % k, 'HnswBackend.write_gate' in h, 'held at %s: %s' % (a.call.loc, sorted(h)))
    ctx.floor('C05.R2', 'pre-flight lookups in mutators', n_r, 4, 'one per mutator')
    ct = ctx.body('C05.R2', 'HnswBackend::compact_tombstones')
    for bb, a in sorted(lm.body_acqs.get(ct.id, {}).items()):
        if a.cls in ('HnswBackend.doc_store', 'HnswBackend.index') and a.mode == 'W':
            h = lm.held_at(ct, bb, must=True)
            g5 = h.get('HnswBackend.write_gate')
            ctx.inst('C05.R2', ct.short, '%s.write() with the mutators excluded' % a.cls, h.get('PersistenceState.snapshot_lock', (None,))[0] == 'W' or (g5 is not None and not g5[1]),
                     'held: %s (the exclusive snapshot lock or the write gate keeps mutators out)' % sorted(h))
    ctx.exception('C05.R2', 'HnswBackend::compact_tombstones', 'stop-the-world rebuild under snapshot_lock(W); writers hold snapshot_lock(R) before the gate, so they are excluded')
    # the token read is the reader's linearisation point: the validator compares the FULL token (version and digest: the version restarts at 1 after
    # delete + reinsert) and the copy's own digest — same instances as C04.R3
    from rules import C04 as _c04b
    _c04b.validator_guards(ctx, prog, 'C05.R3')
    ctx.stat('functions_analysed', len(set(i['key'].split(' | ')[1] for i in ctx.instances)))
