"""C06 — search results are sound and reflect acknowledged recent writes.

Decided statically: the filter / dedup / order / truncate structure — tombstoned slots are dropped when internal ids are
mapped to external ids; the merge dedups by id, sorts by distance and truncates to k; every Ok return of the three search
entry points returns a cache hit, the merge result, or a vector that passed sort ≺ truncate; hot candidates are validated
(C04.R1); the recent-write tier is scanned exhaustively except under cancellation; inside that scan a finite candidate is
dropped only against the CURRENT top of the full bounded heap (R8); clamp / min / max on the distance paths keep the whole
range of the quantity (R9).  That the reported distance equals the true distance (SIMD numerics) and the "strictly closer
recent write is never missing" inequality as arithmetic are not decided.
"""
import re

from kvstatic import flow, rt, util
from kvstatic.effects import Effects

MANIFEST = {
    'text': 'Decides the structural clauses of result soundness on every CFG path: SearchResult pushes in the backend only with an '
            'external id taken from internal_to_external on the Some(Some(_)) edge (tombstones filtered, batch and single search agree); '
            'merge_knn_results = collect from an id-keyed map ≺ sort_by(distance) ≺ truncate(k), hot entries inserted before cold ones '
            'only fill absent keys; each search entry point returns only cache hits, merge results or sorted+truncated partial results; '
            'hot candidates pass the canonical filter; the hot scan leaves its loop early only under the cancellation flag. Distances, '
            'float tolerance and the recency inequality are not decided. One distance scale per metric across index, recent-write scan and query-cache invalidation (unit analysis). '
            'Top-k selection of the recent-write scan: candidates are rejected only against the top of the full heap, re-read after every replacement (R8). Range '
            'restrictions (clamp / min / max with constant bounds) on the per-metric distance paths never cut into the range of a similarity, 1 − similarity or Euclidean distance (R9).',
    'design_ref': 'DESIGN.md §4.6',
    'note': 'Trusted base: rustc MIR, ordered-effect chains, origin tracing.',
    'technique': 'dominance / ordered chains / origin whitelists over result construction sites on MIR',
}

EXPLANATION = 'FLOW/ORD/GUARD rules of DESIGN §4.6 on hnsw_backend.rs, tiered_engine.rs and hot_tier.rs.'


def distance_scales(ctx, prog, rid):
    """unit analysis of the per-metric distance of the three tiers (C06.R5, shared with C07.R6)."""
    # ------------------------------------------------------------------ R5 one distance scale across the tiers
    ctx.rule(rid, 'one distance scale per metric across the tiers (unit analysis, kvstatic/scale.py): the distance the index returns to the user, the '
                       'distance the recent-write scan computes for the merge, and the distance the query cache compares with cached results when an insert '
                       'arrives are the same quantity — Euclidean distance (not its square) under Euclidean, 1 − similarity under Cosine / InnerProduct; the '
                       'Euclidean pre-filter compares squared with squared')
    from kvstatic import scale
    sc = scale.Scale(prog)
    want = {'Euclidean': 'L2', 'Cosine': 'DIST1', 'InnerProduct': 'DIST1'}
    dm = prog.adts.get('kyrodb_engine::config::DistanceMetric') or next((a for k, a in prog.adts.items() if k.endswith('::DistanceMetric')), None)
    variants = [v['name'] for v in dm['variants']] if dm else []
    ctx.inst(rid, 'DistanceMetric', 'every metric variant has an expected scale', sorted(variants) == sorted(want), 'variants: %s' % variants)
    fm = ctx.body(rid, 'MetricDistanceKernel::for_metric')
    kd = ctx.body(rid, 'MetricDistanceKernel::distance')
    mu = ctx.body(rid, 'ann_backend::metric_distance_to_user')
    qd = ctx.body(rid, 'QueryHashCache::distance')
    pf = ctx.body(rid, 'QueryHashCache::insert_can_affect_cached_boundary')
    hk2 = ctx.body(rid, 'HotTier::knn_search_with_cancel')
    for V in variants:
        if None in (fm, kd, mu, qd, hk2):
            break
        live, n = scale.specialised_blocks(fm, 'DistanceMetric', V)
        r = flow.render(flow.Origin(fm, live=live).of_local(0))
        m = re.match(r'^ann_backend::MetricDistanceKernel::(\w+)\{.*→(ResolvedF32Kernels\.\w+)\}$', r)
        if not m or n != 1:
            ctx.inst(rid, _short(fm), '%s: kernel selection recognised' % V, False, 'for_metric under %s builds %s' % (V, r[:100]))
            continue
        K, field = m.group(1), m.group(2)
        kk = scale.KERNEL_FIELDS.get(field, '?')
        raw = sc.ret_kind(kd, K, {'payload:' + K: kk}, enum='MetricDistanceKernel')
        user = sc.ret_kind(mu, V, {'raw_distance': raw})
        ctx.inst(rid, 'ann_backend index', '%s: the index reports %s' % (V, want.get(V)), user == want.get(V),
                 'kernel %s (%s) → internal %s → metric_distance_to_user → %s' % (field, kk, raw, user))
        # recent-write scan: the variable the candidates are ranked by
        live, n = scale.specialised_blocks(hk2, 'DistanceMetric', V)
        ho = flow.Origin(hk2, live=live)
        dl = hk2.var_local('distance')
        hot = sc.kind(ho.of_local(dl[0]), hk2, V, {}) if len(dl) == 1 and n >= 1 else '?'
        ctx.inst(rid, _short(hk2), '%s: the recent-write scan ranks by the scale the index reports' % V, hot == user and hot == want.get(V), 'scan distance: %s; index: %s' % (hot, user))
        qc = sc.ret_kind(qd, V)
        ctx.inst(rid, _short(qd), '%s: insert-time invalidation compares the scale of the cached distances' % V, qc == user and qc == want.get(V),
                 'QueryHashCache::distance: %s; cached results carry the index scale: %s' % (qc, user))
    if pf is not None:
        r = sc.ret_kind(pf, 'Euclidean', {'worst_cached_distance': want['Euclidean']})
        ctx.inst(rid, _short(pf), 'Euclidean pre-filter compares squared with squared', r == 'CMP(L2SQ,L2SQ)', 'decision = %s with the cached boundary as %s' % (r, want['Euclidean']))
    # the invalidation decision compares QueryHashCache::distance with the largest cached result distance
    ifi = ctx.body(rid, 'QueryHashCache::invalidate_for_insert')
    if ifi is not None:
        ov5 = flow.Origin(ifi, stop_at_vars=True)
        cmpb = [(i, p) for i, blk in enumerate(ifi.blocks) if blk['t']['k'] == 'switch' and i in ifi.live_blocks() for tg, p in flow.switch_edge_predicates(ifi, i, ov5)
                if re.search(r'var:candidate_distance', p) and re.search(r'var:worst_cached_distance', p)]
        cd = ifi.var_local('candidate_distance')
        wd = ifi.var_local('worst_cached_distance')
        of5 = flow.Origin(ifi)
        cdo = flow.render(of5.of_local(cd[0])) if cd else ''
        wdo = flow.render(of5.of_local(wd[0])) if wd else ''
        ctx.inst(rid, _short(ifi), 'candidate distance = QueryHashCache::distance(query, insert, metric); boundary = max of the cached result distances',
                 bool(cmpb) and cdo.startswith('QueryHashCache::distance(') and 'arg:distance' in cdo and 'SearchResult.distance' in wdo or (bool(cmpb) and cdo.startswith('QueryHashCache::distance(') and 'fold' in wdo),
                 'candidate = %s; boundary = %s' % (cdo[:80], wdo[:100]))


def _short(b):
    return b.short

def _push_loop_fill(mg, mo):
    """The returned vector of `mg` is built empty (Vec::new / with_capacity) and filled by ONE Vec::push site inside a `for` loop (R2, loop spelling of
    collect(map)): returns the loop head, the push, the exhaustion edges of the head and what was decided about the loop, or None when the shape is not there."""
    from rules import C04
    rets = C04.value_alternatives(mo.of_local(0))
    if len(rets) != 1 or not C04.is_vec_ctor(rets[0]) or rets[0][3].body is not mg:
        return None
    ps = C04.vec_pushes(mg, rets[0][3], harmless=(r'(^|::)Vec(<.*>)?::truncate$', r'DerefMut>::deref_mut$', r'(^|::)slice::(<.*>::)?sort(_unstable)?_by$'))
    if not ps or len(ps) != 1:
        return None
    pu = ps[0]
    hs = [h for h in mg.calls if h.callee and h.is_('re:Iterator>::next$') and mg.dominates(h.bb, pu.bb) and h.bb in mg.reach([pu.bb])]
    inner = [h for h in hs if all(mg.dominates(o.bb, h.bb) for o in hs)]
    if not inner:
        return None
    h = inner[0]
    s_e, f_e = flow.outcome_edges(mg, h)
    if not s_e or not f_e:
        return None
    starts = [e[1] for e in s_e]
    inside = mg.reach(starts, avoid_blocks=[h.bb])
    retb = set(mg.return_blocks())
    once = h.bb not in mg.reach(starts, avoid_blocks=[pu.bb]) and pu.bb not in mg.reach(mg.succ(pu.bb), avoid_blocks=[h.bb]) and \
        not any(h.bb not in mg.reach([x]) and retb & mg.reach([x]) for x in inside)
    src = mo.of_operand(h.args[0])
    el = mo.of_operand(pu.args[1])
    entry = False
    if el[0] == 'agg' and el[1].endswith('SearchResult') and len(el) > 3 and sorted(el[3] or []) == ['distance', 'doc_id']:
        d_, i_ = el[2][el[3].index('distance')], el[2][el[3].index('doc_id')]
        it = lambda t: t[1] if t[0] == 'field' and t[1][0] == 'field' and t[1][1][0] == 'downcast' and t[1][1][2] == 'Some' and t[1][1][1][0] == 'call' and \
            len(t[1][1][1]) > 3 and t[1][1][1][3] is h else None
        entry = i_[0] == 'field' and i_[2] == '.0' and d_[0] == 'field' and d_[2] == '.1' and it(i_) is not None and it(d_) is not None
    return {'head': h, 'push': pu, 'exhaust': list(f_e), 'once': once, 'entry': entry, 'src': flow.render(src),
            'from_map': 'HashMap' in flow.render(src) and 'hash::map::' in (h.callee or '')}



def stale_slots(ctx, prog, rid):
    """C06.R6 first half (shared with C04 as C04.R7): no slot number looked up before a tombstone compaction is used after it."""
    n6 = 0
    done6 = set()
    for c0 in prog.callers_of('HnswBackend::compact_tombstones'):
        f = c0.body
        if f.id in done6:
            continue
        done6.add(f.id)
        of6 = flow.Origin(f)
        comp = [c for c in f.calls if c.callee and c.callee.endswith('HnswBackend::compact_tombstones')]
        look = [c for c in f.calls if c.callee and re.search(r'::get(_mut)?$|::contains_key$|::remove$', c.callee) and c.args and
                flow.render(of6.of_operand(c.args[0])).endswith('DocumentStore.external_to_internal')]
        uses = []
        for c in f.calls:
            if c in look or not c.callee:
                continue
            if any(a.get('k') in ('mv', 'cp') and re.search(r'DocumentStore\.external_to_internal, [^)]*\)', flow.render(of6.of_operand(a))) for a in c.args):
                uses.append(c.bb)
        for i_, blk in enumerate(f.blocks):
            if i_ in f.live_blocks() and blk['t']['k'] == 'switch':
                d_ = blk['t'].get('d')
                if d_ and d_.get('k') in ('mv', 'cp') and 'DocumentStore.external_to_internal, ' in flow.render(of6.of_operand(d_)):
                    uses.append(i_)
        n6 += len(comp)
        starts = [c.to for c in comp if c.to is not None]
        r6 = (f.reach(starts, avoid_blocks=[c.bb for c in look]) | set(starts)) if starts else set()
        stale = sorted(set(u for u in uses if u in r6))
        ctx.inst(rid, f.short, 'no slot number is used across a compaction without a fresh lookup', bool(comp) and bool(look) and bool(uses) and not stale,
                 ('the slot looked up before the compaction is used at %s after it' % f.loc_of(stale[0])) if stale else
                 '%d compaction call(s), %d lookup(s), %d use site(s) of looked-up slots; every use after a compaction is behind a new lookup' % (len(comp), len(look), len(set(uses))))
    ctx.floor(rid, 'compaction call sites', n6, 1, 'HnswBackend::insert (full index with tombstones)')

def run(ctx, prog):
    ctx.not_decided = ['reported distance = true distance within tolerance (SIMD kernels, user-distance conversion)',
                       'a strictly closer acknowledged recent write is never missing, as an inequality over distances (R8 decides the selection structure of the recent-write scan only)',
                       'k-oversampling arithmetic under high tombstone ratios']
    # ------------------------------------------------------------------ R1
    ctx.rule('C06.R1', 'tombstone filter: in HnswBackend::knn_search_with_ef_cancel and knn_search_batch every SearchResult pushed to the output '
                       'has a doc_id taken from internal_to_external.get(internal id) on the Some(Some(_)) edge, and keeps the distance of the raw hit')
    n = 0
    for fn in ('HnswBackend::knn_search_with_ef_cancel', 'HnswBackend::knn_search_batch'):
        for b in prog.family(ctx.body('C06.R1', fn)):
            of = flow.Origin(b)
            ov = flow.Origin(b, stop_at_vars=True)
            for i, blk in enumerate(b.blocks):
                if i not in b.live_blocks():
                    continue
                for st in blk['s']:
                    rv = st.get('rv')
                    if rv and rv['k'] == 'agg' and rv.get('adt', '').endswith('hnsw_index::SearchResult'):
                        n += 1
                        f = rv['fields']
                        did = flow.render(of.of_operand(rv['ops'][f.index('doc_id')]))
                        dist = flow.render(ov.of_operand(rv['ops'][f.index('distance')]))
                        # "the raw distance" = the .distance field of the very raw hit whose .doc_id is the slot looked up (whatever the loop variable is called)
                        dt_, it_ = of.of_operand(rv['ops'][f.index('distance')]), of.of_operand(rv['ops'][f.index('doc_id')])
                        same_hit = dt_[0] == 'field' and dt_[2].endswith('SearchResult.distance') and any(
                            x[0] == 'field' and x[2].endswith('SearchResult.doc_id') and flow.render(x[1]) == flow.render(dt_[1]) for x in flow.walk(it_))
                        okid = bool(re.search(r'DocumentStore\.internal_to_external.*@Some→Some\.0.*@Some→Some\.0|internal_to_external.*Some.*Some', did)) and 'SearchResult.doc_id' in did
                        # Some(Some(_)) edge dominates
                        some_e = [(j, tg) for j, bl in enumerate(b.blocks) if bl['t']['k'] == 'switch' and j in b.live_blocks() for tg, p in flow.switch_edge_predicates(b, j, of)
                                  if re.search(r'internal_to_external', p) and p.endswith('= Some')]
                        r0 = b.reach([0], avoid_edges=some_e)
                        # two nested Some tests: removing either set of edges must cut the push
                        swb = sorted(set(j for j, _ in some_e))
                        cuts = all(i not in b.reach([0], avoid_edges=[e for e in some_e if e[0] == j]) for j in swb) if len(swb) >= 2 else False
                        ctx.inst('C06.R1', b.short.split('::{')[0], 'result #%d carries a live external id and the raw distance' % sum(1 for x in ctx.instances if x.get('config') == ctx.config and x['rule'] == 'C06.R1' and x['key'].startswith('C06.R1 | %s | result' % b.short.split('::{')[0])),
                                 okid and cuts and same_hit,
                                 'doc_id = %s…; distance = %s; behind %d nested Some tests' % (did[-110:], dist, len(swb)))
    ctx.floor('C06.R1', 'SearchResult construction sites in the backend search paths', n, 2, 'single and batch')
    ck = ctx.body('C06.R1', 'hnsw_backend::compute_search_k')
    r = flow.render(flow.Origin(ck, stop_at_vars=True).of_local(0))
    ctx.inst('C06.R1', ck.short, 'oversampling never asks for fewer than k', 'arg:k' in r and bool(re.search(r'max|Ord::max|clamp|phi', r)), 'returns %s' % r[:160])

    # ------------------------------------------------------------------ R2
    ctx.rule('C06.R2', 'dedup → sort → truncate: merge_knn_results collects from a map keyed by document id, then sort_by, then truncate(k); hot '
                       'entries are inserted first and cold entries only fill absent keys; every Ok return of the three search entry points returns '
                       'a cache hit, a merge result, or a vector that passed sort_by ≺ truncate in that function')
    mg = ctx.body('C06.R2', 'TieredEngine::merge_knn_results')
    mo = flow.Origin(mg)
    mv = flow.Origin(mg, stop_at_vars=True)
    eff = Effects(prog)
    eff.define('collect', 're:Iterator::collect$')
    eff.define('sort', 're:slice::.*sort_by$', 're:::sort_by$', 're:::sort_unstable_by$')
    eff.define('truncate', 're:Vec<.*>::truncate$', 're:Vec::truncate$')
    first = util.Step('collect(map)', mg, eff.blocks(mg, 'collect'))
    fill = None
    if not first.blocks:
        # no collect: the same step spelled as a loop — `let mut v = Vec::with_capacity(n); for (id, d) in merged { v.push(SearchResult { .. }) }`. The step is then
        # "the fill loop ran to exhaustion": the sort is reachable only across the exhaustion edge of the loop head, and neither the head nor the push can run after it
        fill = _push_loop_fill(mg, mo)
        if fill is not None:
            first = util.Step('collect(map)', mg, [], is_call=False)
            first.blocks = sorted(set([fill['head'].bb, fill['push'].bb]))
            first.succ = list(fill['exhaust'])
    util.check_chain(ctx, 'C06.R2', mg, [first, util.Step('sort_by', mg, eff.blocks(mg, 'sort')),
                                         util.Step('truncate', mg, eff.blocks(mg, 'truncate'))], no_reorder=True)
    tr = mg.calls_to('re:::truncate$')
    if tr:
        tv_ = flow.render(mv.of_operand(tr[0].args[0]))
        ctx.inst('C06.R2', mg.short, 'truncates the returned vector to k', flow.render(mv.of_operand(tr[0].args[1])) == 'arg:k' and tv_.startswith('var:')
                 and flow.render(mv.of_local(0)) == tv_, 'truncate(%s, %s); returns %s' % (flow.render(mv.of_operand(tr[0].args[0])), flow.render(mv.of_operand(tr[0].args[1])), flow.render(mv.of_local(0))))
    col = mg.calls_to('re:Iterator::collect$')
    src = flow.render(mo.of_operand(col[0].args[0])) if col else ''
    if fill is None:
        ctx.inst('C06.R2', mg.short, 'results come out of the id-keyed map', bool(col) and 'HashMap' in src and any('HashMap<u64' in mg.locals[l_] for l_ in mg.varnames), 'collect source: %s' % src[:120])
    else:
        # loop form: the returned vector receives elements only through that one push (C04.vec_pushes; sort / truncate neither add nor replace), the loop iterates the
        # id-keyed map, and each iteration pushes exactly one SearchResult { doc_id: entry.0, distance: entry.1 } of the entry it was handed — one result per key
        ctx.inst('C06.R2', mg.short, 'results come out of the id-keyed map', fill['from_map'] and fill['entry'] and fill['once'] and any('HashMap<u64' in mg.locals[l_] for l_ in mg.varnames),
                 'filled by a loop over %s: iterates a hash map: %s; pushes SearchResult{key, value} of the entry: %s; exactly one push per entry: %s' % (
                     fill['src'][:80], fill['from_map'], fill['entry'], fill['once']))
    hot_ins = [c for c in mg.calls if c.callee and re.search(r'HashMap<.*>::insert$|HashMap::insert$', c.callee)]
    cold_ins = [c for c in mg.calls if c.callee and re.search(r'Entry<.*>::or_insert$|Entry::or_insert$', c.callee)]
    ctx.inst('C06.R2', mg.short, 'hot entries first, cold entries only for absent ids', bool(hot_ins) and bool(cold_ins) and all(mg.dominates(h.bb, c.bb) or c.bb in mg.reach([h.bb]) for h in hot_ins for c in cold_ins)
             and not any(h.bb in mg.reach([c.bb]) for h in hot_ins for c in cold_ins), 'insert sites %d, or_insert sites %d' % (len(hot_ins), len(cold_ins)))
    cmpc = [b for b in prog.family(mg) if b.kind == 'Closure' and b.calls_to('re:partial_cmp$')]
    okc = False
    if cmpc:
        r = flow.render(flow.Origin(cmpc[0], stop_at_vars=True).of_local(0))
        okc = bool(re.search(r'partial_cmp\(arg:a→SearchResult\.distance, arg:b→SearchResult\.distance\)', r))
        ctx.inst('C06.R2', mg.short, 'sorted by ascending distance', okc, 'comparator: %s' % r[:140])
    for fn in ('TieredEngine::knn_search_with_ef_detailed_scoped', 'TieredEngine::knn_search_batch_with_ef_detailed_scoped', 'TieredEngine::knn_search_with_timeouts_with_ef_scoped'):
        root = ctx.body('C06.R2', fn)
        k = 0
        for b in prog.family(root):
            of = flow.Origin(b)
            ov = flow.Origin(b, stop_at_vars=True)
            for i, blk in enumerate(b.blocks):
                if i not in b.live_blocks():
                    continue
                for st in blk['s']:
                    rv = st.get('rv')
                    # returned (results, path) tuples
                    if rv and rv['k'] == 'agg' and rv.get('ak') == 'tuple' and len(rv['ops']) == 2:
                        o1 = rv['ops'][1]
                        ty1 = b.locals[o1['pl']['l']] if o1.get('k') in ('cp', 'mv') and not o1['pl'].get('p') else o1.get('ty', '')
                        if not ty1.endswith('SearchExecutionPath'):
                            continue
                        r = flow.render(of.of_operand(rv['ops'][0]))
                        rvv = flow.render(ov.of_operand(rv['ops'][0]))
                        pathv = flow.render(of.of_operand(o1))
                        alts = [flow.render(a) for a in flow.top_alternatives(of.of_operand(rv['ops'][0]))]
                        def fine(a):
                            if 'TieredEngine::merge_knn_results(' in a or 'filter_search_results_to_canonical(' in a:
                                return True
                            if re.search(r'cached_results|QueryHashCache::get_scoped\(', a):
                                return True
                            return False
                        ok = all(fine(a) for a in alts)
                        how = 'merge / cache hit'
                        if not ok:
                            m0 = re.match(r'^var:(\w+)$', rvv)
                            if m0 and (m0.group(1) == 'cached_results' and any('var:cached' in flow.render(ov.of_local(l_)) for l_ in b.var_local('cached_results')) or util.var_chain_reaches(b, m0.group(1), 'cached_results')):
                                ok = True
                                how = 'cache-hit slot of cached_results (filled only from filtered cache hits, C04.R1)'
                        if not ok:
                            # partial-result exit: the vector passed sort_by ≺ truncate in this body before the tuple
                            m_ = re.match(r'^var:(\w+)$', rvv)
                            if m_:
                                srt = [c for c in b.calls if c.callee and re.search(r'sort_by$|sort_unstable_by$', c.callee) and flow.render(ov.of_operand(c.args[0])) == rvv]
                                trn = [c for c in b.calls if c.callee and c.callee.endswith('::truncate') and flow.render(ov.of_operand(c.args[0])) == rvv]
                                if srt and trn and any(b.dominates(s_.bb, t_.bb) for s_ in srt for t_ in trn) and any(b.dominates(t_.bb, i) for t_ in trn):
                                    ok = True
                                    how = 'sorted and truncated partial result'
                                elif all(re.match(r'^(Vec::new\(\)|vec::Vec<.*>::new\(\))$', a) for a in alts):
                                    ok = True
                                    how = 'empty'
                        ctx.inst('C06.R2', root.short, 'returned results #%d are merged, cached-and-filtered, or sorted+truncated' % k, ok,
                                 'results = %s [%s]' % (rvv[:60] if len(r) > 60 else r[:80], how if ok else 'UNORDERED / UNTRUNCATED source: ' + r[:160]))
                        k += 1
        ctx.floor('C06.R2', 'result tuples returned by %s' % fn.split('::')[-1], k, 2, '')

    # ------------------------------------------------------------------ R3 (instance of C04.R1(b))
    ctx.rule('C06.R3', 'hot candidates are validated before the merge (same check as C04.R1: hot operand of every merge originates from '
                       'filter_hot_knn_results_to_canonical)')
    from rules import C04
    n_m = 0
    for c in prog.callers_of('TieredEngine::merge_knn_results'):
        b = c.body
        of = flow.Origin(b)
        ok = C04.hot_candidates_validated(prog, b, of.of_operand(c.args[0]))
        n_m += 1
        ctx.inst('C06.R3', b.short.split('::{')[0], 'merge #%d: hot candidates validated' % sum(1 for x in ctx.instances if x.get('config') == ctx.config and x['rule'] == 'C06.R3' and x['key'].startswith('C06.R3 | %s |' % b.short.split('::{')[0])), ok, '')
    ctx.floor('C06.R3', 'merge call sites', n_m, 3, '')
    # what "validated" means: the filter itself keeps a candidate only past the full canonical check of its own mirror entry (shared with C04.R1)
    C04.hot_filter_validates(ctx, prog, 'C06.R3')

    # ------------------------------------------------------------------ R4
    ctx.rule('C06.R4', 'exhaustive hot scan: HotTier::knn_search_with_cancel leaves its scan loop before exhaustion only on an edge controlled by the '
                       'cancellation flag; non-finite distances skip one document, not the scan')
    hk = ctx.body('C06.R4', 'HotTier::knn_search_with_cancel')
    hv = flow.Origin(hk, stop_at_vars=True)
    heads = [c for c in hk.calls if c.callee and c.is_('re:Enumerate<.*Iterator>::next$', 're:Iterator>::next$') and c.bb in hk.reach(hk.succ(c.bb))]
    heads = [h for h in heads if 'tracing' not in (h.callee or '')]
    if not heads:
        ctx.missing('C06.R4', 'knn_search_with_cancel: scan loop')
    else:
        h = heads[0]
        s_e, f_e = flow.outcome_edges(hk, h)
        body_start = [e[1] for e in s_e]
        in_loop = hk.reach(body_start, avoid_blocks=[h.bb]) | set(body_start)
        # exits: edges from a loop block to a block from which the head is no longer reachable
        exits = []
        for b_ in in_loop:
            for s_ in hk.succ(b_):
                if s_ not in in_loop and s_ != h.bb and h.bb not in hk.reach([s_]):
                    exits.append((b_, s_))
        canc = [(i, tg) for i, blk in enumerate(hk.blocks) if blk['t']['k'] == 'switch' for tg, p in flow.switch_edge_predicates(hk, i, hv)
                if re.search(r'Option::unwrap_or\(Option::map\(arg:cancelled, closure:', p) or 'cancelled' in p]
        canc_true = [(i, tg) for i, tg in canc]
        bad = []
        for (a_, b2) in exits:
            # the exit edge must be reachable from the loop body start only through a cancellation-controlled edge
            r = hk.reach(body_start, avoid_blocks=[h.bb], avoid_edges=canc_true) | set(body_start)
            if a_ in r and (a_, b2) not in canc_true:
                bad.append((a_, b2))
        ctx.inst('C06.R4', hk.short, 'early exits of the scan are cancellation-controlled', bool(canc) and not bad,
                 ('the scan loop can be left at %s without the cancellation flag' % [hk.loc_of(a_) for a_, _ in bad[:2]]) if bad else
                 '%d early-exit edges, all behind the cancellation test' % len(exits))
        fin = [(i, tg) for i, blk in enumerate(hk.blocks) if blk['t']['k'] == 'switch' for tg, p in flow.switch_edge_predicates(hk, i, hv) if re.match(r'^!bool\[f32::is_finite\(var:distance\)\]$', p)]
        okf = bool(fin) and all(h.bb in (hk.reach([tg]) | {tg}) for _, tg in fin)
        ctx.inst('C06.R4', hk.short, 'a non-finite distance skips the document and continues the scan', okf, 'skip edges: %s' % fin[:1])
    distance_scales(ctx, prog, 'C06.R5')
    # ------------------------------------------------------------------ R6 slot numbers do not survive a compaction
    ctx.rule('C06.R6', 'tombstone compaction renumbers every internal slot. In each function that calls HnswBackend::compact_tombstones, a slot number obtained from '
                       'DocumentStore.external_to_internal is never used after the compaction without a fresh lookup in between (a stale number tombstones or rewrites '
                       'whatever document now sits there: the overwritten document is returned twice with its old vector, an unrelated live document vanishes)')
    stale_slots(ctx, prog, 'C06.R6')
    # …and no writer can be between its slot lookup and its apply while the compaction runs: writers keep the write gate over that span (C05.R2 / C09.R1), so
    # the compaction must hold the write gate — unconditionally, the snapshot lock exists only with persistence — whenever it rewrites the store
    from kvstatic.locks import LockModel as _LM6
    lm6 = _LM6(prog)
    ct = ctx.body('C06.R6', 'HnswBackend::compact_tombstones')
    if ct is not None:
        k6 = 0
        for bb, a in sorted(lm6.body_acqs.get(ct.id, {}).items()):
            if a.cls in ('HnswBackend.doc_store', 'HnswBackend.index') and a.mode in ('W', 'U'):
                h = lm6.held_at(ct, bb)
                g = h.get('HnswBackend.write_gate')
                ctx.inst('C06.R6', ct.short, 'write gate held (in every mode) at %s.write() #%d' % (a.cls.split('.')[-1], k6), g is not None and not g[1],
                         'held at %s: %s%s' % (a.call.loc, {k_: ('optional ' if v_[1] else '') + v_[0] for k_, v_ in h.items()},
                                               '' if g is not None and not g[1] else ' — in an in-memory backend nothing keeps a writer that already looked up its slot out of the renumbering'))
                k6 += 1
        ctx.floor('C06.R6', 'exclusive store / index acquisitions in compact_tombstones', k6, 2, 'index.write, doc_store.write')
    hot_topk_selection(ctx, prog)
    range_restrictions(ctx, prog)
    # ------------------------------------------------------------------ R7 every coordinate counts once
    ctx.rule('C06.R7', 'a reported distance can be the true distance only if the kernel that computes it accumulates every coordinate exactly once: for each unsafe kernel of '
                       'the simd module and each slice it reads, every read site is  i·S + c  over one counted loop, the sites of an iteration tile the stride, and the '
                       'loop spans chain from element 0 to len as symbolic expressions (⌊len/16⌋ is an opaque atom; kvstatic/cover.py). Decides which elements are '
                       'accumulated and how often — not the floating-point result')
    from kvstatic import cover as _cover
    from rules.C17 import LANES as _LANES
    n7 = _cover.kernel_partitions(ctx, prog, 'C06.R7', _LANES)
    ctx.floor('C06.R7', 'kernel × slice-parameter partitions', n7, 21, '12 kernels: 9 with two slices, 3 with one')
    ctx.stat('functions_analysed', len(set(i['key'].split(' | ')[1] for i in ctx.instances)))


def hot_topk_selection(ctx, prog):
    """C06.R8 — which candidates of the exhaustive recent-write scan survive (R4 only decides that the scan visits every document)."""
    rid = 'C06.R8'
    ctx.rule(rid, 'top-k selection of the recent-write scan: inside the scan loop of HotTier::knn_search_with_cancel a document with a finite distance is either pushed into the '
                  'candidate collection or dropped behind a test against the top of the bounded heap (BinaryHeap::peek); such a test is reached only once the heap holds k '
                  'candidates, and the top it reads is the current one — no path leads from a push / pop on the full heap to the test without a new peek in between. A bound that '
                  'was read before the last replacement is larger than the present k-th distance: a farther document then evicts a closer one (k = 1, order 5, 1, 3 returns 3) '
                  'and an acknowledged, undrained document that is strictly closer than the k-th result is missing from the answer')
    f = ctx.body(rid, 'HotTier::knn_search_with_cancel')
    of = flow.Origin(f)
    cyc = lambda bb: bb in f.reach(f.succ(bb))
    heads = [c for c in f.calls if c.callee and c.is_('re:Iterator>::next$') and cyc(c.bb) and c.args and 'HotTier.documents' in flow.render(of.of_operand(c.args[0]))]
    if len(heads) != 1 or heads[0].dest is None or heads[0].dest.get('p'):
        ctx.missing(rid, 'knn_search_with_cancel: the scan loop over HotTier.documents (%d candidates)' % len(heads))
        return
    h = heads[0]
    item = flow.render(of.of_local(h.dest['l'])) + '@Some'
    s_e, _f = flow.outcome_edges(f, h)
    starts = [e[1] for e in (s_e or [])]
    body = set(b_ for b_ in (f.reach(starts, avoid_blocks=[h.bb]) | set(starts)) - {h.bb} if h.bb in f.reach([b_]))     # the loop body: the next iteration is still reachable
    heap_call = lambda c, rx: bool(c.callee and re.search(r'BinaryHeap(<.*>)?::(%s)$' % rx, c.callee) and c.args)
    pushes = [c for c in f.calls if c.bb in body and c.callee and re.search(r'(BinaryHeap|Vec|VecDeque)(<.*>)?::push(_back)?$', c.callee) and len(c.args) == 2 and
              item in flow.render(of.of_operand(c.args[1]))]
    muts = [c for c in f.calls if c.bb in body and heap_call(c, r'\w+') and not heap_call(c, r'len|is_empty|peek|iter|capacity|as_slice')]
    peeks = {c.bb: c for c in f.calls if c.bb in body and heap_call(c, r'peek')}
    tests = {}      # switch block -> peek blocks its operand is computed from
    for i in sorted(body):
        t = f.blocks[i]['t']
        if t['k'] != 'switch':
            continue
        ps = set(x[3].bb for x in flow.calls_in(of.of_operand(t['on'])) if len(x) > 3 and x[3] is not None and heap_call(x[3], r'peek'))
        if ps:
            tests[i] = ps
    fin_skip = [(i, tg) for i in sorted(body) if f.blocks[i]['t']['k'] == 'switch' for tg, p in flow.switch_edge_predicates(f, i, of) if re.match(r'^!bool\[f32::is_finite\(', p)]
    test_edges = [(i, s_) for i in tests for s_ in f.succ(i)]
    pb = [c.bb for c in pushes]
    r_a = f.reach(starts, avoid_blocks=pb, avoid_edges=fin_skip + test_edges) | (set(starts) - set(pb))
    ctx.inst(rid, f.short, 'a finite candidate is pushed, or dropped behind a test against the top of the heap', bool(starts) and bool(pushes) and h.bb not in r_a,
             'the next document is reachable without pushing the current one and without a test computed from BinaryHeap::peek' if h.bb in r_a else
             '%d pushes of the current document, %d tests against the top, %d heap changes in the loop' % (len(pushes), len(tests), len(muts)))
    ctx.floor(rid, 'pushes of the scanned document in the scan loop', len(pushes), 1, 'fill and replace (2 on the pinned tree)')
    if not tests:
        ctx.inst(rid, f.short, 'no candidate is rejected at all (every finite document is pushed)', True, 'no test against the top of the heap in the loop')
        return
    # the heap is full when a candidate can be rejected
    full_e = [(i, tg) for i in sorted(body) if f.blocks[i]['t']['k'] == 'switch' for tg, p in flow.switch_edge_predicates(f, i, of)
              if re.match(r'^!cmp\[\+ BinaryHeap::len\(.*\) - arg:k <= -1\]$|^!cmp\[\+ arg:k - BinaryHeap::len\(.*\) >= 1\]$', p)]
    r_d = f.reach(starts, avoid_blocks=[h.bb], avoid_edges=full_e) | set(starts)
    early = sorted(i for i in tests if i in r_d)
    ctx.inst(rid, f.short, 'a candidate is tested against the top only when the heap holds k', bool(full_e) and not early,
             ('the test at %s is reachable while the heap holds fewer than k candidates' % f.loc_of(early[0])) if early else
             ('no `len(heap) < k` test in normal form' if not full_e else 'tests against the top are behind the false edge of `len(heap) − k ≤ −1`'))
    # changes of a FULL heap (behind the false edge of `len < k`): while the heap is filling no candidate is tested, whatever the bound is
    behind_full = f.reach([tg for _, tg in full_e], avoid_blocks=[h.bb]) | set(tg for _, tg in full_e)
    muts = [c for c in muts if c.bb in behind_full]
    stale = []
    for c in muts:
        if c.to is None:
            continue
        for i, ps in sorted(tests.items()):
            if i in (f.reach([c.to], avoid_blocks=ps) | ({c.to} - ps)):
                stale.append((c, i, ps))
    ctx.inst(rid, f.short, 'the top a candidate is tested against is read after the last replacement', bool(muts) and not stale,
             ('after %s at %s the test at %s is reachable without a new BinaryHeap::peek (its bound was read at %s): the bound lags behind the heap, a farther document can replace a '
              'closer one' % (flow.short(stale[0][0].callee), stale[0][0].loc, f.loc_of(stale[0][1]), sorted(peeks[p_].loc for p_ in stale[0][2] if p_ in peeks))) if stale else
             '%d changes of the full heap, %d tests; every path from a change to a test passes the peek the test is computed from' % (len(muts), len(tests)))


# the interval a quantity of each unit can take (None = unbounded); SIM is a similarity that was divided by the norms (or taken between unit vectors)
RANGES = {'SIM': (-1.0, 1.0), 'DIST1': (0.0, 2.0), 'L2': (0.0, None), 'L2SQ': (0.0, None), 'NORM': (0.0, None), 'NORMSQ': (0.0, None)}


def _fconst(e):
    while e[0] == 'cast':
        e = e[1]
    if e[0] == 'un' and e[1] == 'Neg':
        v = _fconst(e[2])
        return None if v is None else -v
    if e[0] != 'const':
        return None
    if e[2] is not None:
        return float(e[2])
    m = re.match(r'^(-?[0-9][0-9_]*(?:\.[0-9_]+)?(?:[eE][-+]?[0-9]+)?)(?:_?f(?:32|64))?$', str(e[1]))
    if m:
        return float(m.group(1).replace('_', ''))
    v = str(e[1])
    if 'NEG_INFINITY' in v:
        return float('-inf')
    if 'INFINITY' in v:
        return float('inf')
    return None


def range_restrictions(ctx, prog):
    """C06.R9 — the unit analysis of R5 treats clamp / min / max as the identity; this decides that they are one on the whole range of the quantity."""
    rid = 'C06.R9'
    ctx.rule(rid, 'range restrictions keep the whole range: every clamp / min / max with constant bounds that the per-metric distance of a tier passes through (index kernel and '
                  'user conversion, recent-write scan, query-cache comparison — the expressions R5 assigns units to) leaves the mathematical range of the quantity it is applied to '
                  'untouched: a similarity −1 … 1, a distance 1 − similarity 0 … 2, a (squared) Euclidean distance or norm 0 … ∞. Such a call exists to absorb rounding at the ends '
                  'of the range; a bound inside the range (clamp(0, 1) on a cosine similarity) replaces true values: the tier then reports a distance that is not the distance '
                  'between query and document, and the merge orders and truncates by it')
    from kvstatic import scale

    class Rec(scale.Scale):
        def __init__(self, *a, **k):
            scale.Scale.__init__(self, *a, **k)
            self.seen = {}

        def kind(self, e, body, variant, env, depth=0, enum=None):
            if e[0] == 'call' and e[1] != '<indirect>' and len(e) > 3 and e[3] is not None:
                sh = flow.short(e[1])
                if any(sh.endswith(p_) for p_ in scale.PASS_THROUGH) and not sh.endswith('::abs') and e[2]:
                    k0 = scale.Scale.kind(self, e[2][0], body, variant, env, depth, enum)
                    self.seen.setdefault(id(e[3]), (e[3], sh, set(), e[2][1:]))[2].add(k0)
            return scale.Scale.kind(self, e, body, variant, env, depth, enum)
    sc = Rec(prog)
    dm = prog.adts.get('kyrodb_engine::config::DistanceMetric') or next((a for k, a in prog.adts.items() if k.endswith('::DistanceMetric')), None)
    variants = [v['name'] for v in dm['variants']] if dm else []
    fm, kd, mu = ctx.body(rid, 'MetricDistanceKernel::for_metric'), ctx.body(rid, 'MetricDistanceKernel::distance'), ctx.body(rid, 'ann_backend::metric_distance_to_user')
    qd, pf, hk = ctx.body(rid, 'QueryHashCache::distance'), ctx.body(rid, 'QueryHashCache::insert_can_affect_cached_boundary'), ctx.body(rid, 'HotTier::knn_search_with_cancel')
    # the distance the scan ranks by = what it tests for finiteness (R4), whatever the variable is called
    fin = [c for c in hk.calls if c.callee and c.callee.endswith('f32::is_finite') and c.args and c.bb in hk.reach(hk.succ(c.bb))]
    if len(fin) != 1:
        ctx.missing(rid, 'knn_search_with_cancel: the one finiteness test of the scan distance (%d found)' % len(fin))
        return
    for V in variants:
        live, n = scale.specialised_blocks(fm, 'DistanceMetric', V)
        m = re.match(r'^ann_backend::MetricDistanceKernel::(\w+)\{.*→(ResolvedF32Kernels\.\w+)\}$', flow.render(flow.Origin(fm, live=live).of_local(0)))
        if m:
            K, field = m.group(1), m.group(2)
            raw = sc.ret_kind(kd, K, {'payload:' + K: scale.KERNEL_FIELDS.get(field, '?')}, enum='MetricDistanceKernel')
            user = sc.ret_kind(mu, V, {'raw_distance': raw})
        else:
            user = '?'      # R5 reports the unrecognised kernel selection
        live, n = scale.specialised_blocks(hk, 'DistanceMetric', V)
        sc.kind(flow.Origin(hk, live=live).of_operand(fin[0].args[0]), hk, V, {})
        sc.ret_kind(qd, V)
        sc.ret_kind(pf, V, {'worst_cached_distance': user})
    n = 0
    for c, sh, kinds, bounds in sorted(sc.seen.values(), key=lambda x: (x[0].body.id, x[0].loc)):
        cs = [_fconst(b_) for b_ in bounds]
        rng = [RANGES[k_] for k_ in kinds if k_ in RANGES]
        if not cs or any(v is None for v in cs) or not rng:
            continue        # a bound that is computed, or a quantity without a unit: not a range restriction this rule can judge
        n += 1
        meth = sh.rsplit('::', 1)[-1]
        lo, hi = (cs[0], cs[1]) if meth == 'clamp' and len(cs) == 2 else (cs[0], None) if meth == 'max' else (None, cs[0])
        bad = [(k_, RANGES[k_]) for k_ in sorted(kinds) if k_ in RANGES and ((lo is not None and lo > RANGES[k_][0]) or (hi is not None and (RANGES[k_][1] is None or hi < RANGES[k_][1])))]
        who = c.body.short.split('::{')[0]
        k9 = sum(1 for x in ctx.instances if x.get('config') == ctx.config and x['rule'] == rid and x['key'].startswith('%s | %s | %s #' % (rid, who, meth)))
        fmt = lambda v: '∞' if v is None else ('%g' % v)
        ctx.inst(rid, who, '%s #%d keeps the whole range of the quantity it is applied to' % (meth, k9), not bad,
                 '%s(%s) on a %s (range %s)%s' % (meth, ', '.join('%g' % v for v in cs), '/'.join(sorted(kinds)), ', '.join('%s … %s' % (fmt(RANGES[k_][0]), fmt(RANGES[k_][1])) for k_ in sorted(kinds) if k_ in RANGES),
                                                 '' if not bad else ' at %s — values between %s are replaced by the bound: the tier reports a distance that is not the true one (with clamp(0, 1) on '
                                                 'a cosine similarity every document farther than orthogonal is reported at distance 1)' % (c.loc, ' and '.join(
                                                     ([('%s and %g' % (fmt(bad[0][1][0]), lo))] if lo is not None and lo > bad[0][1][0] else []) +
                                                     ([('%g and %s' % (hi, fmt(bad[0][1][1])))] if hi is not None and (bad[0][1][1] is None or hi < bad[0][1][1]) else [])))))
    ctx.floor(rid, 'range restrictions with constant bounds on the distance paths', n, 3, 'index: max(·, 0) twice; recent-write scan: clamp(−1, 1) twice; pre-filter: max(·, 0) (5 on the pinned tree)')
