"""C07 — the query-result cache never serves stale or foreign results.

Decided statically: every canonical mutation in the engine invalidates the query cache on all paths; the invalidation
generation is bumped before entries are removed; a result is stored only under the cache lock after re-checking the
generation taken before the search; hits require requested_k ≥ k and an equal scope; the scope covers tenant, namespace
and filter; the reverse index is maintained with every entry; a degraded (partial) answer of the timed search is never stored
(R7); an entry with fewer results than requested never survives an insert (R8); stored and live statistics of the insert-time
pre-filter refer to one split of the vector (R9).  The f32 arithmetic of the insert pruning bound and the race itself (only
its guard) are not decided.
"""
import re

from kvstatic import flow, pathsens, rt, util, server
from kvstatic.effects import Effects
from kvstatic.locks import LockModel

MANIFEST = {
    'text': 'Decides the structural clauses that keep the query-result cache fresh and scoped: invalidation on every path after '
            'each of the six canonical mutation sites of the engine, generation bump before removal in all three invalidators, '
            'conditional store (generation re-checked under the cache write lock, taken before the tier searches), k and scope '
            'guards on both hit paths, scope = hash(tenant index, namespace, filter), reverse-index pairing. Necessary conditions; '
            'the f32 pruning bound of invalidate_for_insert and the interleavings are not decided. The insert-time invalidation bound compares the same distance scale as the cached results (unit analysis shared with C06.R5). '
            'No conditional store on a path that recorded a tier failure, an open breaker or a refused worker permit (R7, flag values followed path-sensitively); under-full entries are '
            'dropped on every insert (R8); every tail norm of the Cosine / InnerProduct pre-filter is taken over a split no later than the live prefix (R9).',
    'design_ref': 'DESIGN.md §4.7',
    'note': 'Trusted base: rustc MIR, must-effect summaries over the call graph, path-sensitive exploration with marked '
            'invalidation calls, lock-state dataflow.',
    'technique': 'CFG must-pass-through with effect summaries, HELD lock state, guard normal forms, who-may-call on MIR',
}

EXPLANATION = 'DOM/ORD/HELD/GUARD/WMC rules of DESIGN §4.7 on the promoted MIR of query_hash_cache.rs, tiered_engine.rs and the server.'


def _explore(body, atoms, **kw):
    import kvstatic.pathsens as ps
    orig = ps.Origin
    try:
        ps.Origin = lambda b: flow.Origin(b, stop_at_vars=True)
        return ps.explore(body, atoms, **kw)
    finally:
        ps.Origin = orig


def explore_flags(body, mark_blocks=None, mark_edges=None, stop_blocks=(), start=0, max_states=400000, mark_after=None):
    """Path exploration that follows the VALUES of the body's boolean locals instead of their names: a constant, a copy or a negation of a known value is
    propagated; a switch on a known value takes one edge; a switch on an unknown boolean local teaches its value on each edge (also to the local it was copied /
    negated from in the same block) until that local is assigned again or goes out of scope.  So `if a && !flag`, `let ok = !flag; if a && ok` and a renamed flag
    are one and the same thing here.  Locals whose address is taken are not followed.  Returns [(block, marks dict, path)] for every Return / stop block reached;
    crossing mark_blocks[name] / mark_edges[name] sets marks[name]; mark_after[name] = (earlier mark, blocks) sets marks[name] when one of `blocks` is entered on
    a path that already carries the earlier mark (order of two events along one path)."""
    mark_blocks = mark_blocks or {}
    mark_edges = mark_edges or {}
    mark_after = mark_after or {}
    stop_blocks = set(stop_blocks)
    isb = lambda l: body.locals[l] == 'bool'
    escaped = set()
    for blk in body.blocks:
        for st in blk['s']:
            rv = st.get('rv')
            if rv and rv['k'] in ('ref', 'rawptr') and not rv['pl'].get('p'):
                escaped.add(rv['pl']['l'])

    def opl(o):
        return o['pl']['l'] if o.get('k') in ('cp', 'mv') and not o['pl'].get('p') else None
    out, seen, n = [], set(), 0
    stack = [(start, (), (), (start,))]
    while stack:
        bb, facts, marks, path = stack.pop()
        key = (bb, facts, marks)
        if key in seen:
            continue
        seen.add(key)
        n += 1
        if n > max_states:
            raise RuntimeError('flag exploration exceeded %d states in %s' % (max_states, body.id))
        f = dict(facts)
        m = set(marks) | set(k_ for k_, bs in mark_blocks.items() if bb in bs) | set(k_ for k_, (pre_, bs) in mark_after.items() if bb in bs and pre_ in marks)
        blk = body.blocks[bb]
        src = {}      # bool local defined in this block as copy / negation of another local: local -> (source local, negated)
        for st in blk['s']:
            if 'dead' in st:
                f.pop(st['dead'], None)
                continue
            rv = st.get('rv')
            if rv is None:
                continue
            l = st['pl']['l']
            if st['pl'].get('p'):
                continue
            f.pop(l, None)
            src.pop(l, None)
            for k_ in [k_ for k_, v_ in src.items() if v_[0] == l]:
                del src[k_]
            if not isb(l) or l in escaped:
                continue
            if rv['k'] == 'use' and rv['a'].get('k') == 'c' and rv['a'].get('int') in (0, 1):
                f[l] = bool(rv['a']['int'])
            elif rv['k'] == 'use' and opl(rv['a']) is not None:
                src[l] = (opl(rv['a']), False)
                if opl(rv['a']) in f:
                    f[l] = f[opl(rv['a'])]
            elif rv['k'] == 'un' and rv['op'] == 'Not' and opl(rv['a']) is not None:
                src[l] = (opl(rv['a']), True)
                if opl(rv['a']) in f:
                    f[l] = not f[opl(rv['a'])]
        t = blk['t']
        if t['k'] == 'return' or bb in stop_blocks:
            out.append((bb, dict((k_, True) for k_ in m), path))
            continue
        if t['k'] == 'call' and t.get('dest') and not t['dest'].get('p'):
            f.pop(t['dest']['l'], None)
        if t['k'] == 'switch' and t.get('onty') == 'bool' and opl(t['on']) is not None and opl(t['on']) not in escaped:
            l = opl(t['on'])
            edges = [(bool(v), tg) for v, tg in t['tg']]
            edges.append((0 in [v for v, _ in t['tg']], t['else']))   # the otherwise edge is the true edge when 0 is listed
            for val, tg in edges:
                if l in f and f[l] != val:
                    continue
                f2 = dict(f)
                f2[l] = val
                x, v = l, val
                while x in src and src[x][0] not in escaped and isb(src[x][0]):   # teach the value to the local(s) it was derived from
                    x, v = src[x][0], (not v if src[x][1] else v)
                    if x in f2 and f2[x] != v:
                        f2 = None
                        break
                    f2[x] = v
                if f2 is None:
                    continue
                m2 = m | set(k_ for k_, es in mark_edges.items() if (bb, tg) in es)
                stack.append((tg, tuple(sorted(f2.items())), tuple(sorted(m2)), path + (tg,)))
            continue
        for s_ in body.succ(bb):
            m2 = m | set(k_ for k_, es in mark_edges.items() if (bb, s_) in es)
            stack.append((s_, tuple(sorted(f.items())), tuple(sorted(m2)), path + (s_,)))
    return out


def _false_edges_of_returned_bool(f, c):
    """Edges on which the bool that call `c` returned (directly or through `?`) is false.  Found on the fully expanded origin of each switch operand, so it makes
    no difference whether the result was bound to a named local first (`let existed = …?; if !existed`) or is tested in place (`if !…?`)."""
    of = flow.Origin(f)
    out = []
    for i, blk in enumerate(f.blocks):
        t = blk['t']
        if t['k'] != 'switch' or t.get('onty') != 'bool' or i not in f.live_blocks():
            continue
        e = of.of_operand(t['on'])
        while (e[0] == 'un' and e[1] == 'Not') or e[0] in ('field', 'downcast'):
            e = e[2] if e[0] == 'un' else e[1]
        if e[0] == 'call' and len(e) > 3 and e[3] is c:
            out += [(i, tg) for tg, p in flow.switch_edge_predicates(f, i, of) if p.startswith('!')]
    return out


def _flag_index_in_ok_tuple(ret, name):
    """Index of the variable `name` in the tuple a function returns inside Ok (origin of its return place, variables kept as names); None when there is not
    exactly one such position."""
    ix = set()
    for a in flow.top_alternatives(ret):
        if a[0] == 'agg' and a[1].endswith('Result::Ok') and len(a[2]) == 1 and a[2][0][0] == 'agg' and a[2][0][1] == 'tuple':
            for n, x in enumerate(a[2][0][2]):
                if x[0] == 'var' and x[2] == name:
                    ix.add(n)
    return ix.pop() if len(ix) == 1 else None


def _true_edges_of_returned_component(f, c, ix):
    """Edges on which component `ix` of the tuple that call `c` returned in its Ok value (through `?` or an explicit match) is true: switches on a bool whose fully
    expanded origin is `.ix` of the payload of that very call — so `let (n, flag) = call?; if flag`, `let out = call?; if out.1` and `if !out.1 {} else {..}` are one
    thing.  Between the call and the tuple component only variant downcasts / payload fields are looked through (the Ok payload is the tuple itself)."""
    if ix is None:
        return []
    of = flow.Origin(f)
    out = []
    for i, blk in enumerate(f.blocks):
        t = blk['t']
        if t['k'] != 'switch' or t.get('onty') != 'bool' or i not in f.live_blocks():
            continue
        e = of.of_operand(t['on'])
        while e[0] == 'un' and e[1] == 'Not':
            e = e[2]
        if not (e[0] == 'field' and e[2] == '.%d' % ix):
            continue
        e = e[1]
        while e[0] == 'downcast' or (e[0] == 'field' and isinstance(e[2], str) and not e[2].startswith(('.', '^'))):
            e = e[1]
        if e[0] == 'call' and len(e) > 3 and e[3] is c:
            out += [(i, tg) for tg, p in flow.switch_edge_predicates(f, i, of) if p.startswith('bool[')]
    return out


_IT = r'(?:^|::)Iterator>?::'
_ELEMENTWISE_LAZY = _IT + r'(filter|map|filter_map|inspect)$'       # hand every element of the receiver to the closure — when something pulls
_ELEMENTWISE_EAGER = _IT + r'(for_each)$'                            # …and pull everything themselves
_KEEPS_PULLING = _IT + r'(filter|map|filter_map|inspect|enumerate|copied|cloned)$'   # downstream adaptors that still pull every upstream element
_EXHAUSTS = _IT + r'(count|for_each|sum|product|fold|last|collect|max|min|max_by|max_by_key|min_by|min_by_key|partition|unzip)$'


def _keys_fed_to_elementwise_closure(prog, f, of, callee, argi):
    """The iterator form of `for x in xs { callee(.., x) }`: `callee` is called in a closure of `f` with the closure's element parameter as argument `argi`, and the
    closure is handed to an adaptor that runs it once for every element of its receiver.  Accepted only when the closure really runs for every element: `for_each`,
    or a lazy adaptor (filter / map / filter_map / inspect) whose result — possibly through further adaptors that keep pulling every element — is the receiver of a
    consumer that exhausts it (count, sum, collect, fold, …; not any / all / find / take / next) on every path from the adaptor to a return.  Returns (rendered origin
    of the receiver = where the elements come from, description); ('', reason) when the shape is not this one."""
    sites = []
    for cb in prog.family(f):
        if cb is f or cb.kind != 'Closure':
            continue
        for c in cb.calls_to(callee):
            sites.append((cb, c))
    if not sites:
        return '', 'no call of %s in the body or in a closure of it' % flow.short(callee)
    srcs, hows = [], []
    for cb, c in sites:
        if cb.parent != f.id:
            return '', 'the call stands in a nested closure (%s)' % cb.short
        k = flow.Origin(cb).of_operand(c.args[argi]) if len(c.args) > argi else ('local', -1)
        if not (cb.argc == 2 and k[0] == 'arg' and k[1] == 2):
            return '', 'the closure does not pass its element parameter: %s' % flow.render(k)[:80]
        takers = [x for x in f.calls for n, a in enumerate(x.args) if _is_closure_of(of.of_operand(a), cb)]
        made = sum(1 for blk in f.blocks for st in blk['s'] if st.get('rv', {}).get('k') == 'agg' and st['rv'].get('def') == cb.id)
        if len(takers) != 1 or made != 1:
            return '', 'the closure is created %d times and handed to %d calls' % (made, len(takers))
        x = takers[0]
        if not (x.callee and len(x.args) == 2 and _is_closure_of(of.of_operand(x.args[1]), cb) and x.bb in f.live_blocks()):
            return '', 'the closure is not the function argument of an iterator adaptor: %s' % flow.short(x.callee or '?')
        if re.search(_ELEMENTWISE_EAGER, x.callee):
            hows.append('run by %s over every element' % flow.short(x.callee))
        elif re.search(_ELEMENTWISE_LAZY, x.callee):
            drains = []
            for y in f.calls:
                if not (y.callee and y.args and re.search(_EXHAUSTS, y.callee)):
                    continue
                e = of.of_operand(y.args[0])
                while e[0] == 'call' and len(e) > 3 and e[3] is not x and re.search(_KEEPS_PULLING, e[1]) and e[2]:
                    e = e[2][0]
                if e[0] == 'call' and len(e) > 3 and e[3] is x:
                    drains.append(y)
            if not drains:
                return '', 'the lazy %s is never exhausted (no count / sum / collect / fold / for_each … over it)' % flow.short(x.callee)
            db = [y.bb for y in drains]
            nxt = [s_ for s_ in f.succ(x.bb)]
            r = f.reach(nxt, avoid_blocks=db) | (set(nxt) - set(db))
            if any(b_ in r for b_ in f.return_blocks()):
                return '', 'a return is reachable from the lazy %s without exhausting it' % flow.short(x.callee)
            hows.append('closure of %s, exhausted by %s' % (flow.short(x.callee), flow.short(drains[0].callee)))
        else:
            return '', 'the closure is handed to %s, which need not run it for every element' % flow.short(x.callee)
        srcs.append(flow.render(of.of_operand(x.args[0])))
    if len(set(srcs)) != 1:
        return '', 'several removal closures over different sources'
    return srcs[0], hows[0]


def _is_closure_of(e, cb):
    return e[0] == 'agg' and isinstance(e[1], str) and e[1].split(':', 1)[0] == 'closure' and e[1].split(':', 1)[1] == cb.id


_RUNS_ITS_CLOSURE_AT_ONCE = r'(?:^|::)(bool::then|(option::)?Option::(map|and_then|or_else|unwrap_or_else|map_or|map_or_else)|(result::)?Result::(map|and_then|or_else|unwrap_or_else|map_or|map_or_else))$'


def _generation_read_precedes_searches(prog, b, store, arg_e, searches):
    """On every path (values of the body's bool flags followed) from the entry of `b` to the conditional store `store`, each read of the invalidation generation
    that the store's expected_generation argument may come from happens, and happens before the first tier search of that path.  A path that never reaches the
    store needs no generation (`if cacheable { Some(generation()) } else { None }` with the store behind `if cacheable` is the same as `cacheable.then(..)`).
    Read points, in the body of the store: a call of invalidation_generation() that occurs in the origin of the argument; or the call — one that runs its closure
    before it returns (bool::then, Option::map, …) — which receives a closure containing such a read.  Search points: tier-search calls of this body, and the
    creation site of every closure of this body under which one stands (the earliest moment it can run).  Returns (ok, reason)."""
    reads, at_once = set(), {}
    for x in flow.walk(arg_e):
        if x[0] == 'call' and len(x) > 3 and x[3] is not None:
            if x[1] and re.search(r'QueryHashCache::invalidation_generation$', x[1]):
                reads.add(x[3].bb)
            for a in x[2]:
                if a[0] == 'agg' and isinstance(a[1], str) and a[1].startswith('closure:'):
                    at_once.setdefault(id(a), []).append(x)
    for x in flow.walk(arg_e):
        if x[0] == 'agg' and isinstance(x[1], str) and x[1].startswith('closure:'):
            cid = x[1].split(':', 1)[1]
            if not any(fb.calls_to('QueryHashCache::invalidation_generation') for fb in prog.bodies.values() if fb.id == cid or fb.id.startswith(cid + '::')):
                continue
            takers = at_once.get(id(x), [])
            if not takers or not all(re.search(_RUNS_ITS_CLOSURE_AT_ONCE, flow.strip_generics(t[1])) for t in takers):
                return False, 'the closure that reads the generation is not handed to a call known to run it at once'
            reads.update(t[3].bb for t in takers)
    if not reads:
        return False, 'no read of the generation in the origin of the argument'
    points, by_id = set(), prog.bodies
    for (sb, s_) in searches:
        if sb.id == b.id:
            points.add(s_.bb)
            continue
        cur = sb
        while cur is not None and cur.parent != b.id:
            cur = by_id.get(cur.parent) if cur.parent else None
        made = [i for i, blk in enumerate(b.blocks) for st in blk['s'] if st.get('rv', {}).get('k') == 'agg' and st['rv'].get('def') == cur.id] if cur is not None else []
        if not made:
            return False, 'a tier search stands outside the body of the store and its closures: %s' % sb.short
        points.update(made)
    terms = explore_flags(b, mark_blocks={'read': reads, 'search': points}, mark_after={'late': ('search', reads)}, stop_blocks={store.bb})
    arr = [t for t in terms if t[0] == store.bb]
    if not arr:
        return False, 'the store is not reached'
    if any(not t[1].get('read') for t in arr):
        return False, 'the store is reached on a path that does not read the generation'
    if any(t[1].get('late') for t in arr):
        return False, 'the store is reached on a path that reads the generation after a tier search'
    return True, ''


def run(ctx, prog):
    ctx.not_decided = ['numeric soundness of insert_can_affect_cached_boundary (prefix / tail-norm bound in f32; R9 decides only that both sides use one split of the vector)',
                       'the store/invalidate race itself — only its generation guard']
    eff = Effects(prog)
    eff.define('qc_clear', 'QueryHashCache::clear')
    eff.define('qc_inv_doc', 'QueryHashCache::invalidate_doc')
    eff.define('qc_inv_insert', 'QueryHashCache::invalidate_for_insert')

    # ------------------------------------------------------------------ R1
    ctx.rule('C07.R1', 'every canonical mutation invalidates: after the success edge of each cold_tier.{insert, delete, batch_delete, '
                       'update_metadata} call in the engine every path to an Ok return passes invalidate_doc(+invalidate_for_insert) / '
                       'clear, or (drain repair) raises the flag on which both callers clear; "nothing changed" results excepted')
    SITES = [('TieredEngine::insert', 'HnswBackend::insert', ['qc_inv_doc', 'qc_inv_insert'], None),
             ('TieredEngine::delete', 'HnswBackend::delete', ['qc_inv_doc'], r'^bool\[var:cold_deleted\]$'),
             ('TieredEngine::update_metadata', 'HnswBackend::update_metadata', ['qc_clear'], r'^bool\[var:existed\]$'),
             ('TieredEngine::bulk_load_cold_tier', 'HnswBackend::insert', ['qc_clear'], None)]
    n_sites = 0
    for fn, callee, effects, unchanged_rx in SITES:
        f = ctx.body('C07.R1', fn)
        # the "did anything change" flag is the bool the canonical call returned, whatever the local is called
        util.bind_role(f, 'cold_deleted', type_rx=r'^bool$', assigned_from=r'HnswBackend::delete')
        util.bind_role(f, 'existed', type_rx=r'^bool$', assigned_from=r'HnswBackend::update_metadata')
        cs = f.calls_to(callee)
        if not cs:
            ctx.missing('C07.R1', '%s: call of %s' % (fn, callee))
            continue
        for c in cs:
            n_sites += 1
            s_e = flow.success_edges(f, c)
            marks = {}
            for e in effects:
                marks[e] = set(eff.blocks(f, e))
            atoms = [pathsens.Atom('changed', unchanged_rx)] if unchanged_rx else []
            bad = []
            # "nothing changed" = an edge on which the bool the canonical call returned is false — by the role-bound name (atom, prunes contradictory paths) and,
            # independently of any name, by the origin of the switch operand (covers the result being tested in place, without a named local)
            unchanged_e = set(_false_edges_of_returned_bool(f, c)) if unchanged_rx else set()
            for (a_, b_) in s_e:
                terms, seen = _explore(f, atoms, start=b_, mark_blocks=marks, mark_edges={'unchanged_edge': unchanged_e})
                for (rb, via, a, path) in terms:
                    if via:
                        continue
                    if all(a.get(e) for e in effects):
                        continue
                    if unchanged_rx and (a.get('changed') is False or a.get('unchanged_edge')):
                        continue  # the cold tier reported that nothing changed
                    bad.append(a)
            if unchanged_rx and not any(True for _ in [0]):
                pass
            ctx.inst('C07.R1', f.short, '%s ⇒ %s' % (flow.short(callee), ' + '.join(effects)), not bad,
                     ('an Ok return is reachable after a successful %s with %s' % (flow.short(callee), bad[0])) if bad else
                     'every Ok path after %s at %s invalidates' % (flow.short(callee), c.loc))
    # batch_delete: the invalidation loop over the same ids post-dominates the cold call
    bd = ctx.body('C07.R1', 'TieredEngine::batch_delete')
    cs = bd.calls_to('HnswBackend::batch_delete')
    if not cs:
        ctx.missing('C07.R1', 'TieredEngine::batch_delete: cold call')
    else:
        n_sites += 1
        ov = flow.Origin(bd, stop_at_vars=True)
        s_e = flow.success_edges(bd, cs[0])
        inv = bd.calls_to('QueryHashCache::invalidate_doc')
        ids_arg = flow.render(ov.of_operand(cs[0].args[1]))
        okl = False
        detail = 'no invalidate_doc call'
        if inv:
            ib = inv[0].bb
            heads = [c for c in bd.calls if c.is_('re:Iterator>::next$') and ib in bd.reach([c.bb]) and c.bb in bd.reach([ib])]
            heads = [h for h in heads if bd.dominates(h.bb, ib)]
            heads.sort(key=lambda h: -len(bd.dominators()[h.bb]))
            if heads:
                h = heads[0]
                src = flow.render(ov.of_operand(h.args[0]))
                full = flow.render(flow.Origin(bd).of_operand(h.args[0]))
                r = bd.reach([e[1] for e in s_e], avoid_blocks=[h.bb] + list(flow.err_blocks(bd)))
                skipped = any(x in r for x in bd.return_blocks())
                ids_full = flow.render(flow.Origin(bd).of_operand(cs[0].args[1]))
                same = ids_full in full
                okl = not skipped and same
                detail = 'invalidation loop iterates %s (cold call got %s); a return can skip the loop: %s' % (src[:80], ids_arg, skipped)
        ctx.inst('C07.R1', bd.short, 'batch_delete ⇒ invalidate_doc for every id', okl, detail)
    # drain repair
    rc = ctx.body('C07.R1', 'TieredEngine::reconcile_drained_hot_tier_documents')
    cs = rc.calls_to('HnswBackend::insert')
    if not cs:
        ctx.missing('C07.R1', 'reconcile_drained_hot_tier_documents: repair insert')
    else:
        n_sites += 1
        # the flag = the bool local this function returns (inside its Ok value)
        util.bind_role(rc, 'should_clear_query_cache', type_rx=r'^bool$', used_as=None, origin_rx=r'^phi\((0 \| 1|1 \| 0|0 \| 1 \| .*|.*)\)$|^(0|false)$')
        ov = flow.Origin(rc, stop_at_vars=True)
        s_e = flow.success_edges(rc, cs[0])
        fl = rc.var_local('should_clear_query_cache')
        sets = [d[0] for d in rc.defs.get(fl[0], []) if d[2] == 'assign' and flow.render(ov.of_rvalue(d[3]['rv'], 0, frozenset())) in ('1', 'true')] if fl else []
        r = rc.reach([e[1] for e in s_e], avoid_blocks=sets) | (set(e[1] for e in s_e) - set(sets))
        nxt = [c.bb for c in rc.calls if c.is_('re:IntoIter<.*Iterator>::next$')]
        bad = any(x in r for x in rc.return_blocks()) or any(x in r for x in nxt)
        # the flag is what the function returns
        ret = flow.render(ov.of_local(0))
        ctx.inst('C07.R1', rc.short, 'repair insert ⇒ should_clear_query_cache = true, returned', bool(sets) and not bad and 'var:should_clear_query_cache' in ret,
                 'flag set on every path after a successful repair: %s; returned value: %s' % (not bad, ret[:140]))
        # position of the flag in the tuple the repair returns inside Ok: the caller may read it in place (`outcome.1`) instead of binding it to a bool local
        flag_ix = _flag_index_in_ok_tuple(ov.of_local(0), 'should_clear_query_cache')
        for caller in prog.callers_of('TieredEngine::reconcile_drained_hot_tier_documents'):
            cb = caller.body
            util.bind_role(cb, 'should_clear_query_cache', type_rx=r'^bool$', assigned_from=r'TieredEngine::reconcile_drained_hot_tier_documents')
            cv = flow.Origin(cb, stop_at_vars=True)
            t_edges = []
            for i, blk in enumerate(cb.blocks):
                if blk['t']['k'] == 'switch':
                    for tg, p in flow.switch_edge_predicates(cb, i, cv):
                        if p == 'bool[var:should_clear_query_cache]':
                            t_edges.append((i, tg))
            # …and, independently of any name: the true edges of every switch whose operand IS that component of this call's Ok value (fully expanded origin)
            for e_ in _true_edges_of_returned_component(cb, caller, flag_ix):
                if e_ not in t_edges:
                    t_edges.append(e_)
            clr = eff.blocks(cb, 'qc_clear')
            ok = bool(t_edges) and bool(clr)
            if ok:
                rr = cb.reach([e[1] for e in t_edges], avoid_blocks=clr) | (set(e[1] for e in t_edges) - set(clr))
                ok = not any(x in rr for x in cb.return_blocks())
            use = util.result_use(cb, caller)
            ctx.inst('C07.R1', cb.short, 'caller clears the query cache when the flag is set', ok and use == 'propagated',
                     'flag tested: %s, clear on its true edge on every path: %s, result %s' % (bool(t_edges), ok, use))
    ctx.floor('C07.R1', 'canonical mutation sites in tiered_engine.rs', n_sites, 6, '3 inserts, delete, batch_delete, update_metadata')
    allc = sorted(set((c.body.short.split('::{')[0], flow.short(c.callee)) for c in prog.callers_of('HnswBackend::insert', 'HnswBackend::delete', 'HnswBackend::batch_delete', 'HnswBackend::update_metadata')))
    known_fns = {'tiered_engine::TieredEngine::insert', 'tiered_engine::TieredEngine::delete', 'tiered_engine::TieredEngine::update_metadata',
                 'tiered_engine::TieredEngine::bulk_load_cold_tier', 'tiered_engine::TieredEngine::batch_delete',
                 'tiered_engine::TieredEngine::reconcile_drained_hot_tier_documents', 'tiered_engine::TieredEngine::batch_delete_by_metadata_filter'}
    extra = [x for x in allc if x[0] not in known_fns]
    ctx.inst('C07.R1', 'cold-tier mutators', 'no canonical mutation outside the checked functions', not extra, 'other callers: %s' % extra)
    bf = prog.body('TieredEngine::batch_delete_by_metadata_filter')
    if bf is not None and bf.calls_to('HnswBackend::batch_delete'):
        ctx.inst('C07.R1', bf.short, 'filter delete goes through an invalidating path', False, 'calls the cold tier directly; add it to the site table')
    elif bf is not None:
        ctx.inst('C07.R1', bf.short, 'filter delete goes through batch_delete', bool(bf.calls_to('TieredEngine::batch_delete')), 'delegates to TieredEngine::batch_delete')

    # ------------------------------------------------------------------ R2
    ctx.rule('C07.R2', 'bump before remove: clear, invalidate_doc and invalidate_for_insert increment invalidation_generation before '
                       'taking the state lock; only these (and capacity eviction / remove_entry) remove from the cache map')
    for fn in ('QueryHashCache::clear', 'QueryHashCache::invalidate_doc', 'QueryHashCache::invalidate_for_insert'):
        f = ctx.body('C07.R2', fn)
        of = flow.Origin(f)
        bump = [c.bb for c in f.calls if c.callee and re.search(r'Atomic.*::fetch_add$', c.callee) and c.args and 'QueryHashCache.invalidation_generation' in flow.render(of.of_operand(c.args[0]))]
        lock = [c.bb for c in f.calls if c.is_('re:RwLock::write$') and c.args and flow.render(of.of_operand(c.args[0])).endswith('QueryHashCache.state')]
        ok = bool(bump) and bool(lock) and all(any(f.dominates(b_, l_) for b_ in bump) for l_ in lock)
        ctx.inst('C07.R2', f.short, 'generation bumped before the state lock', ok, 'fetch_add blocks %s, state.write() blocks %s' % (bump, lock))
    # every function that takes entries out of the cache map also takes them out of the reverse index: a direct HashMap::remove(cache, key) is followed, on the
    # Some edge, by unindex_entry_docs on every path to a return; clear() empties the reverse index too. Which functions those are is evidence, not a verdict
    # (an eviction that goes through the remove_entry helper is the same behaviour as the inline form)
    removers = {}
    for b in prog.bodies.values():
        if 'query_hash_cache' not in b.id:
            continue
        og = None
        for c in b.calls:
            if c.callee and re.search(r'HashMap<.*>::(remove|clear|retain|drain)$|HashMap::(remove|clear|retain|drain)$', c.callee) and c.args:
                og = og or flow.Origin(b)
                if re.search(r'QueryCacheState\.cache\)*$', flow.render(og.of_operand(c.args[0]))):
                    removers.setdefault(b.short.split('::{')[0], []).append((b, c))
    for fn_, sites in sorted(removers.items()):
        for k_, (b, c) in enumerate(sites):
            meth = c.callee.rsplit('::', 1)[-1]
            if meth == 'remove':
                un_ = [x.bb for x in b.calls_to('QueryHashCache::unindex_entry_docs')]
                some_e = util.option_edges_of_call(b, c, 'Some') if hasattr(util, 'option_edges_of_call') else None
                if some_e is None:
                    # Some edges of the removed value: switches whose predicate is variant(<this remove>) = Some
                    ovb = flow.Origin(b)
                    some_e = [(i_, tg) for i_, blk in enumerate(b.blocks) if blk['t']['k'] == 'switch' and i_ in b.live_blocks() and i_ in (b.reach([c.bb]) | {c.bb})
                              for tg, p_ in flow.switch_edge_predicates(b, i_, ovb) if re.match(r'^variant\(HashMap::remove\(.*QueryCacheState\.cache.*\)\) = Some$', p_)]
                starts = [tg for _, tg in some_e]
                leak = (not some_e) or any(x in (b.reach(starts, avoid_blocks=un_) | (set(starts) - set(un_))) for x in b.return_blocks())
                ctx.inst('C07.R2', fn_, 'cache removal #%d is followed by unindexing the removed entry' % k_, bool(un_) and not leak,
                         'HashMap::remove(cache) at %s: Some edges %d, unindex calls %d, a return is reachable without unindexing: %s' % (c.loc, len(some_e), len(un_), leak))
            else:
                og2 = flow.Origin(b)
                also = [x for x in b.calls if x.callee and re.search(r'::(clear|retain|drain)$', x.callee) and x.args and 'doc_to_query_keys' in flow.render(og2.of_operand(x.args[0]))]
                ctx.inst('C07.R2', fn_, 'cache %s #%d also empties the reverse index' % (meth, k_), bool(also), '%s(cache) at %s; reverse index: %s' % (meth, c.loc, [flow.short(x.callee) for x in also]))
    ctx.floor('C07.R2', 'functions removing from the cache map', len(removers), 2, 'clear, remove_entry (+ the inline eviction on the pinned tree)')
    rec = sorted(set(c.body.short.split('::{')[0] for c in prog.callers_of('QueryHashCache::remove_entry')))
    ctx.inst('C07.R2', 'QueryHashCache::remove_entry', 'called only from inside the cache', bool(rec) and all(x.startswith('query_hash_cache::QueryHashCache::') for x in rec), 'callers: %s' % rec)


    # ------------------------------------------------------------------ R3
    ctx.rule('C07.R3', 'conditional store: insert_with_k_scoped_internal re-reads the generation while holding the state write lock and '
                       'skips on mismatch before any insert; the engine and the binaries store only through the _if_generation variant, with '
                       'a generation taken before the tier searches')
    lm = LockModel(prog)
    ii = ctx.body('C07.R3', 'QueryHashCache::insert_with_k_scoped_internal')
    of = flow.Origin(ii)
    ov = flow.Origin(ii, stop_at_vars=True)
    loads = [c for c in ii.calls if c.callee and re.search(r'Atomic.*::load$', c.callee) and c.args and 'QueryHashCache.invalidation_generation' in flow.render(of.of_operand(c.args[0]))]
    under = [c for c in loads if 'QueryHashCache.state' in lm.held_at(ii, c.bb, must=True)]
    ins = [c.bb for c in ii.calls if c.callee and re.search(r'HashMap<.*>::insert$|HashMap::insert$', c.callee) and c.args and re.search(r'QueryCacheState\.cache\)*$', flow.render(of.of_operand(c.args[0])))]
    if not under or not ins:
        ctx.inst('C07.R3', ii.short, 'generation re-checked under the state lock', False, 'loads under the lock: %d, inserts: %d' % (len(under), len(ins)))
    else:
        # the mismatch edge of the comparison fed by the locked load skips; the match edge (or expected None) is the only way to insert
        ok_all = True
        for c in under:
            s_e, f_e = None, None
            # comparison `load != expected`
            eq_edges = []
            for i, blk in enumerate(ii.blocks):
                if blk['t']['k'] == 'switch' and ii.dominates(c.bb, i):
                    for tg, p in flow.switch_edge_predicates(ii, i, of):
                        if 'Atomic::load' in p and 'expected_generation' in p.replace('arg:', '') and i in (ii.reach([c.bb])):
                            eq_edges.append((i, tg, p))
            mism = [(i, tg) for i, tg, p in eq_edges if re.match(r'^!cmp\[.* == 0\]$', p) or re.match(r'^!eq\[', p)]
            mism = [e for e in mism if e[0] == min(x[0] for x in mism)] if mism else []
            match = [(i, tg) for i, tg, p in eq_edges if (re.match(r'^cmp\[.* == 0\]$', p) or re.match(r'^eq\[', p))]
            if not mism:
                ok_all = False
                continue
            r = ii.reach([e[1] for e in mism]) | set(e[1] for e in mism)
            if any(x in r for x in ins):
                ok_all = False
        none_e = util.option_edges(ii, r'arg:expected_generation$', 'None')
        ctx.inst('C07.R3', ii.short, 'generation re-checked under the state lock; mismatch never inserts', ok_all,
                 '%d generation loads under QueryHashCache.state(W); %d cache inserts' % (len(under), len(set(ins))))
        # every insert is dominated by a locked load or by the expected_generation = None edge
        r0 = ii.reach([0], avoid_blocks=[c.bb for c in under], avoid_edges=none_e)
        ctx.inst('C07.R3', ii.short, 'no insert without the locked re-check (expected_generation = None excepted)', not any(x in r0 for x in ins),
                 'an insert is reachable without passing the locked generation load' if any(x in r0 for x in ins) else 'all inserts behind the locked load')
    unc = [c for c in prog.callers_of('QueryHashCache::insert_with_k_scoped', 'QueryHashCache::insert_with_k', 'QueryHashCache::insert')
           if 'query_hash_cache' not in c.body.id]
    ctx.inst('C07.R3', 'QueryHashCache::insert*', 'no unconditional store from the engine or the binaries', not unc,
             'unconditional stores: %s' % [str(c) for c in unc[:4]])
    gen_sites = [c for c in prog.callers_of('QueryHashCache::insert_with_k_scoped_if_generation') if 'query_hash_cache' not in c.body.id]
    ctx.floor('C07.R3', 'conditional store sites in the engine', len(gen_sites), 3, 'single, batch and timed search')
    for k, c in enumerate(gen_sites):
        b = c.body
        fam = prog.family(b)
        root = prog.bodies.get(b.root, b)
        bo = flow.Origin(b)
        arg = flow.render(bo.of_operand(c.args[-1]))
        # generation originates from invalidation_generation() (possibly captured from the parent body)
        gens = []
        for fb in fam:
            gens += [(fb, g) for g in fb.calls_to('QueryHashCache::invalidation_generation')]
        from_gen = 'invalidation_generation' in arg
        for cid in re.findall(r'closure:([^{]*\{closure#\d+\}(?:::\{closure#\d+\})*)', arg):
            for fb in fam:
                if fb.id.endswith(cid) and fb.calls_to('QueryHashCache::invalidation_generation'):
                    from_gen = True
        searches = []
        for fb in fam:
            searches += [(fb, s) for s in fb.calls if s.callee and re.search(r'(HnswBackend::knn_search\w*|HotTier::knn_search\w*|TieredEngine::search_cold\w*|TieredEngine::search_hot\w*)$', s.callee)]
        dom_ok, why_not = _generation_read_precedes_searches(prog, b, c, bo.of_operand(c.args[-1]), searches)
        dom_ok = dom_ok and bool(gens)
        ctx.inst('C07.R3', root.short, 'store #%d uses a generation taken before the searches' % k, from_gen and dom_ok and bool(searches),
                 'expected_generation = %s; invalidation_generation() calls: %d; tier searches: %d; taken first: %s%s' % (
                     arg[:120], len(gens), len(searches), dom_ok, (' (%s)' % why_not) if why_not else ''))

    # ------------------------------------------------------------------ R4
    ctx.rule('C07.R4', 'k and scope: an exact hit requires cached.requested_k ≥ k; a similarity candidate requires candidate.scope = scope '
                       'and requested_k ≥ k (also re-checked when the entry is fetched); QueryCacheKey = {scope, query_hash} with derived Eq/Hash; '
                       'the server\'s scope hashes tenant index, namespace and filter and is what every search passes to the engine')
    gs = ctx.body('C07.R4', 'QueryHashCache::get_scoped')
    gv = flow.Origin(gs, stop_at_vars=True)
    hit_blocks = [i for i, blk in enumerate(gs.blocks) for s in blk['s'] if s.get('rv', {}).get('k') == 'agg' and s['rv'].get('variant') == 'Hit']
    kge = []
    for i, blk in enumerate(gs.blocks):
        if blk['t']['k'] == 'switch':
            for tg, p in flow.switch_edge_predicates(gs, i, gv):
                if re.match(flow.cmp_rx(r'var:cached→CachedQueryResult\.requested_k', r'arg:k', '>='), p):
                    kge.append((i, tg))
    r = gs.reach([0], avoid_edges=kge)
    ctx.inst('C07.R4', gs.short, 'exact hit only when requested_k ≥ k', bool(kge) and bool(hit_blocks) and not any(h in r for h in hit_blocks),
             'k-guard edges: %s; Hit constructed at blocks %s' % (kge, hit_blocks))
    take = [c for c in gs.calls if c.is_('re:cmp::Ord::min$', 're:::min$')]
    fs = ctx.body('C07.R4', 'QueryHashCache::find_similar_query')
    cl = [b for b in prog.family(fs) if b.kind == 'Closure' and b.calls_to('QueryHashCache::cosine_similarity')]
    if not cl:
        ctx.missing('C07.R4', 'find_similar_query: candidate closure')
    else:
        cb = cl[0]
        cv = flow.Origin(cb, stop_at_vars=True)
        sim = cb.calls_to('QueryHashCache::cosine_similarity')[0].bb
        scope_e, k_e = [], []
        for i, blk in enumerate(cb.blocks):
            if blk['t']['k'] == 'switch':
                for tg, p in flow.switch_edge_predicates(cb, i, cv):
                    if re.match(r'^cmp\[\+ (arg|var):candidate_key→QueryCacheKey\.scope - cap:scope == 0\]$|^cmp\[\+ cap:scope - (arg|var):candidate_key→QueryCacheKey\.scope == 0\]$', p):
                        scope_e.append((i, tg))
                    if re.match(r'^!cmp\[\+ cap:k - var:candidate→CachedQueryResult\.requested_k >= 1\]$|^!cmp\[\+ var:candidate→CachedQueryResult\.requested_k - cap:k <= -1\]$', p):
                        k_e.append((i, tg))
        for nm, es in (('candidate.scope = scope', scope_e), ('candidate.requested_k ≥ k', k_e)):
            rr = cb.reach([0], avoid_edges=es)
            ctx.inst('C07.R4', cb.short, 'similarity candidate only past ' + nm, bool(es) and sim not in rr,
                     'guard edges %s; similarity computed at bb%d %s' % (es, sim, 'reachable without the guard' if sim in rr else 'only past the guard'))
    key = prog.adts.get('kyrodb_engine::query_hash_cache::QueryCacheKey')
    fields = [f['name'] for f in key['variants'][0]['fields']] if key else []
    manual = [im for im in prog.impls if 'QueryCacheKey' in im.get('self', '') and im.get('trait', '').split('::')[-1] in ('PartialEq', 'Hash', 'Eq')]
    derived = all('query_hash_cache.rs' in im.get('loc', '') for im in manual)
    eqb = prog.body('<kyrodb_engine::query_hash_cache::QueryCacheKey as core::cmp::PartialEq>::eq')
    eq_fields = set()
    if eqb is not None:
        for blk in eqb.blocks:
            for s in blk['s']:
                for pe in (s.get('rv', {}).get('pl', {}) or {}).get('p', []) if s.get('rv') else []:
                    if isinstance(pe, str) and 'QueryCacheKey.' in pe:
                        eq_fields.add(pe.split('.')[-1])
                a = s.get('rv', {}).get('a') if s.get('rv') else None
                if a and a.get('pl'):
                    for pe in a['pl'].get('p', []):
                        if isinstance(pe, str) and 'QueryCacheKey.' in pe:
                            eq_fields.add(pe.split('.')[-1])
                for side in ('a', 'b'):
                    o_ = s.get('rv', {}).get(side) if s.get('rv') else None
                    if o_ and o_.get('pl'):
                        for pe in o_['pl'].get('p', []):
                            if isinstance(pe, str) and 'QueryCacheKey.' in pe:
                                eq_fields.add(pe.split('.')[-1])
    ctx.inst('C07.R4', 'QueryCacheKey', 'key = {scope, query_hash}, Eq compares both', sorted(fields) == ['query_hash', 'scope'] and eq_fields == {'scope', 'query_hash'},
             'fields %s; fields compared by PartialEq::eq: %s' % (fields, sorted(eq_fields)))
    qs = ctx.body('C07.R4', 'KyroDBServiceImpl::query_cache_scope')
    qo = flow.Origin(qs)
    hashed = []
    for c in qs.calls:
        if c.callee and c.callee.endswith('::hash') and c.args:
            hashed.append(flow.render(qo.of_operand(c.args[0])))
    need = {'tenant index': any('TenantContext.tenant_index' in h for h in hashed),
            'namespace': any('SearchRequest.namespace' in h for h in hashed),
            'filter': any('SearchRequest.filter' in h or 'encoded' in h or 'encode' in h for h in hashed)}
    ret = flow.render(qo.of_local(0))
    ctx.inst('C07.R4', qs.short, 'scope hashes tenant index, namespace and filter', all(need.values()) and 'finish' in ret,
             'hashed: %s; returns %s' % ({k_: v for k_, v in need.items()}, ret[:60]))
    # every engine search call of the server passes a scope originating from query_cache_scope
    n_s = 0
    for c in prog.all_calls():
        if c.body.crate == 'kyrodb_server' and c.callee and re.search(r'TieredEngine::knn_search\w*_scoped$', c.callee):
            n_s += 1
            bo = flow.Origin(c.body)
            args = [flow.render(bo.of_operand(a)) for a in c.args]
            ok = any('query_cache_scope' in a for a in args)
            ctx.inst('C07.R4', c.body.short.split('::{')[0], 'engine search #%d gets the scope from query_cache_scope' % n_s, ok,
                     'arguments: %s' % [a[:70] for a in args if 'scope' in a][:3])
    ctx.floor('C07.R4', 'scoped engine search calls in the server', n_s, 2, 'single and batch search')
    unscoped = [c for c in prog.all_calls() if c.body.crate == 'kyrodb_server' and c.callee and re.search(r'TieredEngine::knn_search\w*$', c.callee) and not c.callee.endswith('_scoped')]
    ctx.inst('C07.R4', 'kyrodb_server', 'no unscoped engine search from the server', not unscoped, 'unscoped calls: %s' % [str(c) for c in unscoped[:3]])

    # ------------------------------------------------------------------ R5
    ctx.rule('C07.R5', 'reverse-index pairing: every insertion of a cache entry indexes its document ids (and unindexes a replaced entry), '
                       'every removal unindexes; invalidate_doc removes exactly the keys taken from doc_to_query_keys')
    idx = [c.bb for c in ii.calls_to('QueryHashCache::index_entry_doc_ids')]
    bad = False
    for g in set(ins):
        rr = ii.reach(ii.succ(g), avoid_blocks=idx)
        if any(x in rr for x in ii.return_blocks()):
            bad = True
    ctx.inst('C07.R5', ii.short, 'every cache insert is followed by index_entry_doc_ids', bool(idx) and not bad,
             'a path returns after inserting an entry without indexing its documents' if bad else '%d inserts, %d index calls' % (len(set(ins)), len(idx)))
    re_ = ctx.body('C07.R5', 'QueryHashCache::remove_entry')
    ctx.inst('C07.R5', re_.short, 'remove_entry unindexes the removed entry', bool(re_.calls_to('QueryHashCache::unindex_entry_docs')), '')
    un = ii.calls_to('QueryHashCache::unindex_entry_docs')
    # the replaced entry (HashMap::insert returned Some(old)) is unindexed in this function; evicted entries are covered by the removal pairing of R2 (inline or helper)
    oi5 = flow.Origin(ii)
    rep_e = [(i_, tg) for i_, blk in enumerate(ii.blocks) if blk['t']['k'] == 'switch' and i_ in ii.live_blocks() for tg, p_ in flow.switch_edge_predicates(ii, i_, oi5)
             if re.match(r'^variant\(HashMap::insert\(.*QueryCacheState\.cache.*\)\) = Some$', p_)]
    unb = [x.bb for x in un]
    leak5 = (not rep_e) or any(x in (ii.reach([tg for _, tg in rep_e], avoid_blocks=unb) | (set(tg for _, tg in rep_e) - set(unb))) for x in ii.return_blocks())
    evict_ok = any(fn_ == ii.short.split('::{')[0] for fn_ in removers) or any(c.callee and prog.resolve_local(c.callee) is not None and prog.resolve_local(c.callee).short.split('::{')[0] in removers for c in ii.calls)
    ctx.inst('C07.R5', ii.short, 'replaced / evicted entries are unindexed', bool(un) and not leak5 and evict_ok,
             'replaced-entry edges %d, unindexed on every path: %s; eviction removes through a paired remover: %s' % (len(rep_e), not leak5, evict_ok))
    idoc = ctx.body('C07.R5', 'QueryHashCache::invalidate_doc')
    io = flow.Origin(idoc)
    rm = idoc.calls_to('QueryHashCache::remove_entry')
    src = flow.render(io.of_operand(rm[0].args[1])) if rm else ''
    how = ''
    if not rm:
        # no loop in the body: the removal may stand in a closure that an iterator adaptor runs once per element (`keys.into_iter().filter(|k| remove_entry(.., *k)).count()`)
        src, how = _keys_fed_to_elementwise_closure(prog, idoc, io, 'QueryHashCache::remove_entry', 1)
    ctx.inst('C07.R5', idoc.short, 'removes the keys taken from doc_to_query_keys[doc_id]', 'QueryCacheState.doc_to_query_keys' in src and 'arg:doc_id' in src,
             'removed keys originate from: %s%s' % (src[:200], (' (%s)' % how) if how else ''))
    # ------------------------------------------------------------------ R6 the insert-time bound compares like with like
    from rules import C06 as _c06
    _c06.distance_scales(ctx, prog, 'C07.R6')
    # ------------------------------------------------------------------ R7 a degraded answer is never stored
    ctx.rule('C07.R7', 'a degraded answer is never stored: in each search entry point the conditional store is not reached on any path (path-sensitive, the values of the '
                       'function\'s own boolean flags propagated) that recorded a tier failure (CircuitBreaker::record_failure: timeout, error, panic), found a circuit '
                       'breaker open, or was refused a search worker permit. Such an answer lacks one tier\'s documents; stored, it is served as a CacheHit to the next '
                       'identical search although no write happened and both tiers are healthy again — not a result a fresh search could return')
    n_ev = {'tier_failed': 0, 'breaker_open': 0, 'shed': 0}
    for k, c in enumerate(gen_sites):
        b = c.body
        root = prog.bodies.get(b.root, b)
        failed = {x.bb: x for x in b.calls if x.callee and re.search(r'CircuitBreaker::record_failure$', x.callee)}
        open_e, shed_e = {}, {}
        for x in b.calls:
            if x.callee and re.search(r'CircuitBreaker::is_closed$', x.callee):
                for e in (flow.outcome_edges(b, x)[1] or []):
                    open_e[e] = x
            if x.callee and re.search(r'Semaphore::try_acquire(_owned)?$', x.callee):
                for e in (flow.outcome_edges(b, x)[1] or []):
                    shed_e[e] = x
        n_ev['tier_failed'] += len(failed)
        n_ev['breaker_open'] += len(set(open_e.values()))
        n_ev['shed'] += len(set(shed_e.values()))
        # the values of the function's boolean flags are followed along each path (explore_flags): nothing here depends on what the degradation marker is called
        # or on how the guard in front of the store is spelled
        terms = explore_flags(b, mark_blocks={'tier_failed': set(failed)}, mark_edges={'breaker_open': set(open_e), 'shed': set(shed_e)}, stop_blocks={c.bb})
        arr = [t for t in terms if t[0] == c.bb]
        bad = [t for t in arr if t[1].get('tier_failed') or t[1].get('breaker_open') or t[1].get('shed')]
        why = ''
        if bad:
            path = bad[0][2]
            ev = None
            for a_, b_ in zip(path, path[1:]):
                if a_ in failed:
                    ev = 'the tier failure recorded at %s (CircuitBreaker::record_failure)' % failed[a_].loc
                elif (a_, b_) in open_e:
                    ev = 'the circuit breaker found open at %s' % open_e[(a_, b_)].loc
                elif (a_, b_) in shed_e:
                    ev = 'the worker permit refused at %s' % shed_e[(a_, b_)].loc
                if ev:
                    break
            why = 'the store at %s is reached after %s: a partial answer (one tier missing) is stored and served as a cache hit; %d of %d abstract arrivals are degraded' % (
                c.loc, ev or 'a degradation event', len(bad), len(arr))
        k7 = sum(1 for x in ctx.instances if x.get('config') == ctx.config and x['rule'] == 'C07.R7' and x['key'].startswith('C07.R7 | %s | ' % root.short))
        ctx.inst('C07.R7', root.short, 'conditional store #%d is not reached on a degraded path' % k7, bool(arr) and not bad,
                 why or '%d abstract arrivals at the store; degradation events in this body: %d tier failures, %d breaker tests, %d permit requests — none on a path to the store' % (
                     len(arr), len(failed), len(set(open_e.values())), len(set(shed_e.values()))))
    ctx.floor('C07.R7', 'tier-failure records in the search entry points', n_ev['tier_failed'], 2, 'timed search: hot and cold tier (5 arms on the pinned tree)')
    ctx.floor('C07.R7', 'circuit-breaker tests in the search entry points', n_ev['breaker_open'], 2, 'timed search: hot and cold breaker')
    ctx.floor('C07.R7', 'permit requests in the search entry points', n_ev['shed'], 2, 'timed search: query permit, hot and cold worker permits')
    # ------------------------------------------------------------------ R8 an under-full entry does not survive an insert
    ctx.rule('C07.R8', 'an under-full entry does not survive an insert: in the scan of invalidate_for_insert every path that goes on to the next cached entry without '
                       'scheduling the current one for removal crosses the false edge of `len(entry.results) < entry.requested_k` (integer normal form). An entry with '
                       'fewer results than were asked for has no distance boundary — every new document of its scope belongs into it — so the distance comparison '
                       'that lets full entries survive says nothing about it; kept, it is served as a CacheHit that omits the inserted document')
    if ifi_ok(ctx, prog):
        pass
    # ------------------------------------------------------------------ R9 one split of the vector on both sides of the insert-time bound
    prefix_agreement(ctx, prog)
    ctx.stat('functions_analysed', len(set(i['key'].split(' | ')[1] for i in ctx.instances)))


_UNDERFULL = re.compile(r'^cmp\[\+ Vec::len\((?P<e1>.+)→CachedQueryResult\.results\) - (?P=e1)→CachedQueryResult\.requested_k <= -1\]$|'
                        r'^cmp\[\+ (?P<e2>.+)→CachedQueryResult\.requested_k - Vec::len\((?P=e2)→CachedQueryResult\.results\) >= 1\]$')


def ifi_ok(ctx, prog):
    f = ctx.body('C07.R8', 'QueryHashCache::invalidate_for_insert')
    of = flow.Origin(f)
    heads = [c for c in f.calls if c.is_('re:Iterator>::next$') and c.bb in f.reach(f.succ(c.bb)) and c.args and
             re.search(r'QueryCacheState\.cache\)*$', flow.render(of.of_operand(c.args[0])))]
    if len(heads) != 1:
        ctx.missing('C07.R8', 'invalidate_for_insert: the scan loop over QueryCacheState.cache (%d candidates)' % len(heads))
        return False
    h = heads[0]
    item = flow.render(of.of_local(h.dest['l'])) if h.dest and not h.dest.get('p') else '?'
    s_e, _f = flow.outcome_edges(f, h)
    starts = [e[1] for e in (s_e or [])]
    # "scheduled for removal": the entry's key is pushed to the vector whose elements are later handed to remove_entry
    rm = f.calls_to('QueryHashCache::remove_entry')
    rm_src = set(id(x[3]) for c in rm for x in flow.calls_in(of.of_operand(c.args[1])) if len(x) > 3) if rm else set()
    pushes = []
    for c in f.calls:
        if c.callee and re.search(r'Vec<.*>::push$|Vec::push$', c.callee) and len(c.args) == 2 and c.bb in f.reach(starts):
            vec = of.of_operand(c.args[0])
            key = flow.render(of.of_operand(c.args[1]))
            if any(len(x) > 3 and id(x[3]) in rm_src for x in flow.calls_in(vec)) and key.startswith(item + '@Some'):
                pushes.append(c.bb)
    nuf, uf = [], []
    for i, blk in enumerate(f.blocks):
        if blk['t']['k'] == 'switch' and i in f.live_blocks():
            for tg, p in flow.switch_edge_predicates(f, i, of):
                m = _UNDERFULL.match(p[1:] if p.startswith('!') else p)
                if m and (m.group('e1') or m.group('e2')).startswith(item + '@Some'):
                    (nuf if p.startswith('!') else uf).append((i, tg))
    keep = f.reach(starts, avoid_blocks=pushes, avoid_edges=nuf) | (set(starts) - set(pushes))
    leak = h.bb in keep
    # …and the under-full edge itself schedules the removal before the next entry is looked at
    uf_leak = (not uf) or h.bb in (f.reach([tg for _, tg in uf], avoid_blocks=pushes) | (set(tg for _, tg in uf) - set(pushes)))
    ctx.inst('C07.R8', f.short, 'an entry is kept across an insert only past `len(results) ≥ requested_k`', bool(starts) and bool(pushes) and bool(nuf) and not leak and not uf_leak,
             ('no test `len(entry.results) < entry.requested_k` guards the keep paths of the scan: an entry that holds fewer results than were requested (its scope had fewer than '
              'k documents) survives the insert of a document that is farther than its current worst result, and the next search is a CacheHit without that document'
              if not nuf else
              'the next entry is reachable without removing the current one and without passing the not-under-full edge' if leak else
              'the under-full edge does not schedule the entry for removal' if uf_leak else 'removal pushes not recognised') if not (bool(starts) and bool(pushes) and bool(nuf) and not leak and not uf_leak)
             else '%d removal sites in the scan; keep paths cross the not-under-full edge of the test at %s; the under-full edge removes' % (len(pushes), sorted(set(f.loc_of(i_) for i_, _ in nuf))))
    ctx.floor('C07.R8', 'removal sites in the scan of invalidate_for_insert', len(pushes), 3, 'missing embedding, under-full, dimension mismatch, non-finite boundary, non-finite distance, inside the boundary (6 on the pinned tree)')
    return True


def _usize_param(b):
    ps = [i for i in range(b.argc) if b.locals[i + 1] == 'usize']
    return ps[0] if len(ps) == 1 else None


def _resolve_capture(prog, b, e):
    """a captured variable of a closure body, seen from the body that creates the closure"""
    if e[0] == 'field' and isinstance(e[2], str) and e[2].startswith('^') and e[1][0] == 'arg' and b.parent:
        n = int(e[2][1:].split(':', 1)[0])
        pb = prog.bodies.get(b.parent)
        if pb is not None:
            for blk in pb.blocks:
                for st in blk['s']:
                    rv = st.get('rv')
                    if rv and rv['k'] == 'agg' and rv.get('def') == b.id and n < len(rv['ops']):
                        return flow.Origin(pb).of_operand(rv['ops'][n])
    return e


def _prefix_core(e):
    """min(P, len(..)) in any nesting / operand order -> P: every consumer clamps the prefix to the vector length, so only P distinguishes two splits"""
    while True:
        while e[0] == 'cast':
            e = e[1]
        if e[0] == 'call' and flow.short(e[1]).endswith('::min') and len(e[2]) == 2:
            islen = [a[0] == 'call' and re.search(r'(slice|Vec)::len$', flow.short(a[1])) is not None or (a[0] == 'un' and a[1] == 'PtrMetadata') for a in e[2]]
            if islen[0] != islen[1]:
                e = e[2][0] if islen[1] else e[2][1]
                continue
        return e


def prefix_agreement(ctx, prog):
    rid = 'C07.R9'
    ctx.rule(rid, 'one split of the vector on both sides of the insert-time bound. The Cosine / InnerProduct pre-filter bounds dot(q, v) by  dot(q[..P], v[..P]) + ‖q[S_q..]‖·‖v[S_v..]‖ ; '
                  'that is an upper bound only if both tail norms cover every lane the prefix dot product leaves out: S_q ≤ P and S_v ≤ P (each clamped to the vector length by '
                  'its consumer). Decided: every QueryEmbeddingStats value is produced by embedding_stats; the prefix length handed to insert_can_affect_cached_boundary reaches '
                  'the prefix dot product unchanged; and the prefix each embedding_stats call site uses — store time, the inserted vector, the fallback for a missing stored '
                  'value — is the same expression as, or a constant not larger than, that live prefix. A shorter live prefix leaves lanes that are in neither term: an insert '
                  'that lands inside a cached boundary is judged harmless and the stale entry is served')
    es = ctx.body(rid, 'QueryHashCache::embedding_stats')
    bd = ctx.body(rid, 'QueryHashCache::insert_can_affect_cached_boundary')
    aggs = sorted(set(b.short.split('::{')[0] for b in prog.bodies.values() if b.kind != 'Promoted' for blk in b.blocks for st in blk['s']
                      if st.get('rv', {}).get('k') == 'agg' and st['rv'].get('adt', '').endswith('query_hash_cache::QueryEmbeddingStats')))
    makers = [x for x in aggs if not x.endswith('::default')]
    dflt = [c for c in prog.all_calls() if c.callee and re.search(r'QueryEmbeddingStats as core::default::Default>::default$', c.callee)] + \
           [c for c in prog.all_calls() if c.callee and re.search(r'unwrap_or_default$', c.callee) and 'QueryEmbeddingStats' in ' '.join(str(g) for g in c.ga)]
    ctx.inst(rid, 'QueryEmbeddingStats', 'values come only from embedding_stats', makers == [es.short] and not dflt, 'constructed in %s; uses of the all-zero default: %d' % (aggs, len(dflt)))
    pe, pb_ = _usize_param(es), _usize_param(bd)
    if pe is None or pb_ is None:
        ctx.missing(rid, 'the prefix-length parameter (the one usize parameter) of embedding_stats / insert_can_affect_cached_boundary')
        return
    # the prefix reaches the prefix dot product unchanged
    fam, work = {}, [bd]
    while work:
        g = work.pop()
        if g.id in fam:
            continue
        fam[g.id] = g
        for c in g.calls:
            hb = prog.resolve_local(c.callee) if c.callee else None
            if hb is not None and '::query_hash_cache::QueryHashCache::' in hb.id and _usize_param(hb) is not None and hb.id != es.id:
                work.append(hb)
    n_hop = 0
    for g in sorted(fam.values(), key=lambda x: x.id):
        og = flow.Origin(g)
        for c in g.calls:
            hb = prog.resolve_local(c.callee) if c.callee else None
            if hb is None or hb.id not in fam or hb.id == g.id:
                continue
            n_hop += 1
            a = og.of_operand(c.args[_usize_param(hb)])
            ok = a[0] == 'arg' and a[1] == _usize_param(g) + 1
            ctx.inst(rid, g.short, 'hands its own prefix length on to %s' % hb.name, ok, 'prefix argument = %s' % flow.render(a)[:120])
    ctx.floor(rid, 'hops between insert_can_affect_cached_boundary and the prefix sums', n_hop, 3, 'l2_prefix_sq, cosine → dot upper bound → dot_prefix (5 on the pinned tree)')
    live = [c for c in prog.callers_of(bd.id) if c.callee == bd.id or prog.resolve_local(c.callee) is bd]
    if len(live) != 1:
        ctx.missing(rid, 'the one call of insert_can_affect_cached_boundary (%d found)' % len(live))
        return
    lb = live[0].body
    P = _prefix_core(_resolve_capture(prog, lb, flow.Origin(lb).of_operand(live[0].args[pb_])))
    Pr = flow.render(P)
    n_s = 0
    for c in sorted(prog.callers_of(es.id), key=lambda c: (c.body.id, c.bb)):
        if prog.resolve_local(c.callee) is not es:
            continue
        n_s += 1
        b = c.body
        S = _prefix_core(_resolve_capture(prog, b, flow.Origin(b).of_operand(c.args[pe])))
        Sr = flow.render(S)
        same = Sr == Pr and not re.search(r'_\d+\b|<runtime>', Sr)
        le = S[0] == 'const' and P[0] == 'const' and S[2] is not None and P[2] is not None and S[2] <= P[2]
        who = b.short.split('::{')[0]
        k9 = sum(1 for x in ctx.instances if x.get('config') == ctx.config and x['rule'] == rid and x['key'].startswith('%s | %s | tail norm #' % (rid, who)))
        ctx.inst(rid, who, 'tail norm #%d is taken over a split no later than the live prefix' % k9, same or le,
                 'embedding_stats prefix = min(%s, len); prefix of the live dot product = min(%s, len)%s' % (Sr[:90], Pr[:90], '' if same or le else
                 ' — not the same expression and not two constants in order: lanes between the two splits are in neither the prefix dot product nor this tail norm, the '
                 '"upper bound" of the Cosine / InnerProduct pre-filter can fall below the true similarity'))
    ctx.floor(rid, 'embedding_stats call sites', n_s, 3, 'store time, inserted vector, fallback closure')
