"""C08 — no interleaving of concurrent API calls can deadlock (whole property, sufficient condition).

Decided statically: over every body of the library and the binaries, the lock-order graph between lock
classes is acyclic, no class is re-acquired while held, no synchronous guard is live across an await point,
and no guard is held across a blocking hand-off.  With a complete may-call graph and conservative guard
liveness this is a sufficient condition for "no set of threads waits on each other through these locks".
"""
import re

from kvstatic import flow
from kvstatic.locks import LockModel

EXPLANATION = (
    'Lock-order analysis on promoted MIR (DESIGN §3 LOCK, §4.8). Acquisition sites are calls to parking_lot / '
    'std / tokio lock primitives; the lock class is the innermost lock-typed field in the receiver\'s origin '
    '(Owner.field), Field[] for locks stored in a container, Type@producer for locks returned by a function. '
    'A forward may-hold dataflow tracks guards (moves, Option<Guard> from guard-returning closures, upgrade, '
    'mem::drop, scope-end Drop). Acquisition summaries are computed to a fixpoint over the synchronous may-call '
    'graph (resolved callees, trait-method fan-out to all impls, closures passed as generic arguments; closures '
    'handed to spawn-like functions are not nested). An edge h→a is added whenever a is acquired, directly or in '
    'a callee, while h is held; try_* acquisitions add no incoming edge. Violations: any cycle, any same-class '
    're-acquisition, a non-async guard live across a Yield, a guard live across a blocking hand-off, a guard that '
    'escapes tracking, an acquisition whose class cannot be derived (fail closed).')

MANIFEST = {
    'text': 'Whole-program static lock-order analysis over the promoted MIR of the library and all binaries: a '
            'sufficient condition for deadlock freedom through the engine\'s own locks (acyclic lock-order graph over '
            'all lock classes, no same-class re-acquisition, no sync guard across await or blocking hand-off). It '
            'quantifies over every pair of code paths that could run concurrently, which no schedule sample does.',
    'design_ref': 'DESIGN.md §3 (LOCK), §4.8',
    'note': 'Trusted base: rustc MIR + callee resolution; the may-call graph construction (trait fan-out to all '
            'impls; closures handed to spawn-like functions are not nested); guard-liveness rules. Distinct instances '
            'of one class are merged; internal locks of dependencies are out of scope.',
    'technique': 'static lock-order graph + guard-liveness dataflow on MIR',
}

# floors: measured on the pinned tree on the first run, confirmed against the hand count of DESIGN §4.8
FLOOR_ACQ = 290       # 299 acquisition call sites in lib + 3 bins
FLOOR_CLASSES = 45    # 48 classes
FLOOR_EDGES = 70      # 91 edges on the pinned tree (some disappear with the fix: commits)


def run(ctx, prog):
    ctx.rule('C08.LOCK', 'the lock-order graph over all lock classes has no cycle (each edge: class a acquired, '
                         'directly or in a callee, while class h is held)')
    ctx.rule('C08.REACQ', 'no lock class is acquired while a guard of the same class is held (parking_lot is '
                          'writer-preferring: even read-after-read blocks once a writer queues); exempt only if every '
                          'exclusive acquisition of the class needs &mut on the owning struct and the lock never '
                          'leaves it (then no writer can queue while a &self reader runs)')
    ctx.rule('C08.AWAIT', 'no parking_lot/std guard is live across an await point (Yield terminator)')
    ctx.rule('C08.HANDOFF', 'no guard is live across a call that waits for another thread/task '
                            '(join, channel recv/send, Condvar::wait, block_on, sleep)')
    ctx.rule('C08.TRACK', 'every acquisition has a derivable lock class and every guard stays tracked '
                          '(no guard moved into an untracked place, no guard from an unknown producer)')
    ctx.not_decided = ['internal locks of dependencies (tokio, rayon, tracing) are out of scope',
                       'distinct instances of one class are merged (conservative)',
                       'progress of the OS / file system calls made while a lock is held']
    ctx.assumptions = ['indirect calls through fn pointers acquire no locks (SIMD kernel table only)',
                       'closures handed to spawn-like functions run on another thread and do not nest under the '
                       'spawner\'s locks; rayon parallel iterators are treated as synchronous calls',
                       'semaphores are only try-acquired (a blocking acquire would be an acquisition like a lock)']
    m = LockModel(prog)
    ctx.extra['lock_classes_list'] = sorted(m.classes())
    ctx.stat('lock_classes', len(m.classes()))
    ctx.stat('lock_edges', len(m.edges))
    ctx.stat('acquisition_sites', m.n_acq)
    ctx.stat('bodies_total', prog.n_bodies())
    ctx.stat('functions_with_acquisitions', len(m.body_acqs))
    ctx.stat('guard_returning_closures', len(m.ret_guard))
    ctx.floor('C08.LOCK', 'acquisition call sites', m.n_acq, FLOOR_ACQ, 'counted 299 on the pinned tree')
    ctx.floor('C08.LOCK', 'lock classes', len(m.classes()), FLOOR_CLASSES, '48 on the pinned tree, ≈45 by hand')
    ctx.floor('C08.LOCK', 'lock-order edges', len(m.edges), FLOOR_EDGES, '91 on the pinned tree')

    # ---- TRACK: fail closed
    for c, r in m.unknown:
        ctx.inst('C08.TRACK', c.body.short, 'unknown class: ' + r, False,
                 'cannot derive a lock class for the acquisition at %s (receiver origin %s)' % (c.loc, r))
    for (bid, bb), c in m._unknown_guard_src.items():
        ctx.inst('C08.TRACK', c.body.short, 'guard from unknown producer ' + (c.callee or '?'), False,
                 'a guard-typed value is produced at %s by a call the analysis cannot attribute to a lock class' % c.loc)
    seen_esc = set()
    for (b, bb, cls, why) in m.escapes:
        if cls in ('TieredEngine.search_worker_semaphore', 'TieredEngine.query_semaphore'):
            ctx.exception('C08.TRACK', cls, 'semaphore permit obtained with try_acquire_owned and moved into the '
                                            'spawned search task; permits are never waited for, so they add no wait edge')
            continue
        k = (b.id, cls)
        if k in seen_esc:
            continue
        seen_esc.add(k)
        ctx.inst('C08.TRACK', b.short, 'guard of %s escapes' % cls, False,
                 'guard of %s %s at %s' % (cls, why, b.loc_of(bb)))
    ctx.inst('C08.TRACK', 'all', 'acquisitions classified', not m.unknown,
             '%d acquisition sites, %d classes' % (m.n_acq, len(m.classes())), nontrivial=True)

    # ---- REACQ: self edges
    in_cycle = set()
    for (h, a), w in sorted(m.edges.items()):
        if h != a:
            continue
        in_cycle.add((h, a))
        holders = sorted(set(x['holder'] for x in m.edge_all[(h, a)]))
        all_rr = all(x['held_mode'] == 'R' and x['acq_mode'] == 'R' for x in m.edge_all[(h, a)])
        if all_rr:
            okx, why = m.writers_need_exclusive_owner(h)
            if okx:
                ctx.exception('C08.REACQ', h, 'read-after-read in %s; %s' % (', '.join(holders), why))
                ctx.inst('C08.REACQ', ','.join(holders), h + ' (read-after-read, writers need &mut owner)', True,
                         '\n'.join(m.edge_chain(w)))
                continue
        for x in m.edge_all[(h, a)][:1]:
            ctx.inst('C08.REACQ', x['holder'], h, False,
                     'class %s is acquired again while held:\n%s' % (h, '\n'.join(m.edge_chain(x))),
                     witness=m.edge_chain(x))
        # further holders of the same self-edge get their own keys
        done = {m.edge_all[(h, a)][0]['holder']}
        for x in m.edge_all[(h, a)][1:]:
            if x['holder'] in done:
                continue
            done.add(x['holder'])
            ctx.inst('C08.REACQ', x['holder'], h, False,
                     'class %s is acquired again while held:\n%s' % (h, '\n'.join(m.edge_chain(x))),
                     witness=m.edge_chain(x))

    # ---- LOCK: cycles
    cycles = [c for c in m.cycles() if len(c) > 1]
    for cyc in cycles:
        names = list(cyc) + [cyc[0]]
        lines = []
        for i in range(len(cyc)):
            e = (names[i], names[i + 1])
            in_cycle.add(e)
            lines.append('edge %s → %s:' % e)
            # one witness per distinct holder (max 4)
            seen_h = set()
            for x in m.edge_all[e]:
                if x['holder'] in seen_h or len(seen_h) >= 4:
                    continue
                seen_h.add(x['holder'])
                lines += ['  ' + l for l in m.edge_chain(x)]
        ctx.inst('C08.LOCK', 'cycle', '→'.join(names), False,
                 'lock-order cycle between %d classes:\n%s' % (len(cyc), '\n'.join(lines)), witness=lines)
    for (h, a), w in sorted(m.edges.items()):
        if (h, a) in in_cycle:
            continue
        ctx.inst('C08.LOCK', 'edge', '%s→%s' % (h, a), True,
                 '%s (%d sites); on no cycle' % (m.edge_chain(w)[0], len(m.edge_all[(h, a)])))

    # ---- upgrades: an upgradable guard's upgrade() waits for every plain reader of the same lock; the model adds an edge held → upgraded class for each other
    # lock held at that point (a reader of the upgraded lock that waits for one of them closes a cycle although the nominal order is unchanged)
    ups = [c for c in prog.all_calls() if c.callee and re.search(r'RwLockUpgradableReadGuard(<.*>)?::upgrade$', flow.short(c.callee)) and c.body.crate in ('kyrodb_engine', 'kyrodb_server')]
    for c in ups:
        others = sorted(set(h for (fn, h, u, loc) in m.upgrade_edges if loc == c.loc and fn == c.body.short))
        ctx.inst('C08.LOCK', c.body.short, 'upgrade of an upgradable guard modelled as a blocking exclusive acquisition', True,
                 'upgrade at %s with %s held' % (c.loc, others or 'no other lock'))
    ctx.floor('C08.LOCK', 'upgrade sites', len(ups), 1, 'VectorCache::get')

    # ---- AWAIT
    coros = [b for b in prog.bodies.values() if any(blk['t']['k'] == 'yield' for blk in b.blocks)]
    bad = {}
    for (b, bb, cls, mode, loc) in m.yield_viol:
        bad.setdefault((b.id, cls), (b, bb, cls, mode, loc))
    for (b, bb, cls, mode, loc) in bad.values():
        ctx.inst('C08.AWAIT', b.short, cls, False,
                 'guard of %s(%s) acquired at %s is live across the await at %s' % (cls, mode, loc, b.loc_of(bb)))
    n_with = 0
    for b in coros:
        if b.id in m.body_acqs or b.id in m.states:
            n_with += 1
            if not any(k[0] == b.id for k in bad):
                ctx.inst('C08.AWAIT', b.short, 'no sync guard across await', True,
                         '%d await points' % sum(1 for blk in b.blocks if blk['t']['k'] == 'yield'))
    ctx.stat('coroutine_bodies', len(coros))
    ctx.stat('coroutine_bodies_holding_guards', n_with)

    # ---- HANDOFF
    hb = {}
    for (b, bb, cls, mode, loc, callee) in m.handoff:
        hb.setdefault((b.id, cls, callee), (b, bb, cls, mode, loc, callee))
    for (b, bb, cls, mode, loc, callee) in hb.values():
        ctx.inst('C08.HANDOFF', b.short, '%s across %s' % (cls, callee.split('::')[-1]), False,
                 'guard of %s(%s) acquired at %s is held across blocking call %s at %s' % (cls, mode, loc, callee, b.loc_of(bb)))
    n_hand = 0
    from kvstatic.locks import BLOCKING_HANDOFF
    for c in prog.all_calls():
        if c.callee and c.is_(*BLOCKING_HANDOFF):
            n_hand += 1
            if not any(k[0] == c.body.id for k in hb):
                ctx.inst('C08.HANDOFF', c.body.short, 'no guard across %s' % c.callee.split('::')[-1], True, c.loc)
    ctx.stat('blocking_handoff_sites', n_hand)
