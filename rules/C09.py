"""C09 — snapshots and compaction racing with writers lose and duplicate nothing.

Decided statically: the lock discipline that makes the races safe — the snapshot lock is held (shared) from sequence
allocation until the in-memory apply holds the store exclusively; the snapshotter reads (sequence, store) under the
exclusive snapshot lock; MANIFEST read-modify-write happens under manifest_lock; a stale snapshot never replaces a
newer one (nor its file: snapshot files are named by per-call ids); tombstone compaction holds the snapshot lock exclusively across the whole swap;
slot lookup, log append and apply of a mutator lie in one write-gate critical section.  The interleavings
themselves are not decided.
"""
import re

from kvstatic import flow, rt, util
from kvstatic.locks import LockModel

MANIFEST = {
    'text': 'Decides the lock discipline on which the snapshot/compaction races rely, at every program point that '
            'matters (must-hold dataflow over guard live ranges): shared snapshot lock from sequence allocation to the '
            'exclusive store acquisition in all mutators, exclusive snapshot lock over (sequence read, store copy) in the '
            'snapshotter and over the whole swap in tombstone compaction, manifest_lock around every MANIFEST '
            'load→save after construction, stale-snapshot refusal, one write-gate critical section from the slot lookup over the log append to the apply '
            'in every mutator, snapshot files named by an id minted per call. Each is a necessary condition; interleavings are not decided.',
    'design_ref': 'DESIGN.md §4.9',
    'note': 'Trusted base: rustc MIR, guard-liveness dataflow (Option<Guard> from persistence.as_ref().map(..) counts as '
            'held because persistence is an immutable field behind &self).',
    'technique': 'must-hold lock-state dataflow (HELD) + guard dominance on MIR',
}

EXPLANATION = (
    'HELD rules of DESIGN §4.9: a forward must-hold dataflow over guard locals gives the set of lock classes held at '
    'every call site; conditional Option<Guard> values produced by self.persistence.as_ref().map(|p| p.snapshot_lock.read()) '
    'count as held (the condition is the same immutable field that enables the protected action).')

SNAP = 'PersistenceState.snapshot_lock'
MLOCK = 'PersistenceState.manifest_lock'
MUTATORS = ['HnswBackend::insert', 'HnswBackend::delete', 'HnswBackend::update_metadata', 'HnswBackend::batch_delete']


def named_bool_expanded(body, preds, ov):
    """Switch-edge predicates with a guard that was given a name (`let stale = a > b; if stale {..}`) replaced by the comparison it stands for: a test on a
    bool variable that has exactly ONE definition (a `let`) is the same test as the expression itself; a bool that is assigned more than once keeps its
    variable-level predicate (and the rule that looks for the comparison fails closed as before)."""
    out = []
    for tg, p in preds:
        m = re.match(r'^(!?)bool\[var:(\w+)\]$', p)
        if m:
            ls = [l for l in body.var_local(m.group(2)) if body.locals[l] == 'bool']
            if len(ls) == 1 and len(body.defs.get(ls[0], [])) == 1 and body.defs[ls[0]][0][2] == 'assign':
                atom, neg = flow.atom_of(ov.of_rvalue(body.defs[ls[0]][0][3]['rv'], 0, frozenset()), body)
                if not atom.startswith('bool['):
                    p = ('!' if neg != (m.group(1) == '!') else '') + atom
        out.append((tg, p))
    return out


def manifest_rmw(ctx, prog, rid, lm):
    """manifest read-modify-write atomicity (C09.R3; shared with C01.R9: a lost MANIFEST update un-lists a log segment that holds acknowledged writes)."""
    MLOCK_ = MLOCK
    # read-modify-write atomicity: a save writes back a manifest that was loaded in the SAME critical section (same acquisition of manifest_lock);
    # releasing the lock between the load and the save lets a concurrent rotation's update be overwritten (lost update)
    n_rmw = 0
    for b in prog.bodies.values():
        if 'hnsw_backend' not in b.id or b.kind == 'Promoted':
            continue
        root = b.short.split('::{')[0]
        if root.endswith(('with_persistence_with_hnsw_params', 'recover_with_hnsw_params_and_mode')):
            continue
        of3 = flow.Origin(b)
        for k3, c in enumerate(b.calls_to('Manifest::save')):
            src = of3.of_operand(c.args[0])
            loads = [x[3] for x in flow.walk(src) if x[0] == 'call' and len(x) > 3 and x[3] is not None and x[3].callee and x[3].callee.endswith('Manifest::load')]
            if not loads:
                # the manifest is a parameter (compact_old_wal_segments(&mut manifest)) or freshly built: the caller's instance covers it
                continue
            n_rmw += 1
            hs = lm.held_at(b, c.bb, must=True).get(MLOCK_)
            same = hs is not None and all((lm.held_at(b, l.bb, must=True).get(MLOCK_) or (None, None, '?'))[2] == hs[2] for l in loads)
            ctx.inst(rid, b.short, 'Manifest::save #%d writes back a manifest loaded in the same critical section' % k3, same,
                     'save at %s under the acquisition at %s; its manifest was loaded at %s under the acquisition(s) at %s' % (
                         c.loc, hs[2] if hs else 'none', [l.loc for l in loads], [(lm.held_at(b, l.bb, must=True).get(MLOCK_) or (None, None, 'none'))[2] for l in loads]))
    ctx.floor(rid, 'manifest read-modify-write pairs', n_rmw, 3, 'rotate_wal_if_needed (1) + create_snapshot (2)')


def alloc_to_apply(ctx, prog, lm, rid):
    """In every mutator the snapshot lock is held (shared) from the allocation of a sequence number to the in-memory apply (shared: C09.R1, and C01.R11 — a snapshot
    records last_wal_seq = next − 1 and recovery skips everything up to it, so an allocated number whose effect is not yet in the store when the snapshotter reads
    both is an acknowledged write that neither the snapshot nor the replay contains).  Returns the number of allocation sites."""
    def held(body, bb):
        return lm.held_at(body, bb, must=True)
    n_fa = 0
    for name in MUTATORS:
        f = ctx.body(rid, name)
        o = flow.Origin(f)
        fas = [c for c in f.calls if c.callee and re.search(r'Atomic.*::fetch_add$', c.callee) and c.args
               and 'PersistenceState.next_wal_seq' in flow.render(o.of_operand(c.args[0]))]
        for k, c in enumerate(fas):
            n_fa += 1
            h = held(f, c.bb)
            ok = SNAP in h
            ctx.inst(rid, f.short, 'snapshot_lock held at fetch_add #%d' % k, ok,
                     'next_wal_seq.fetch_add at %s: held = %s' % (c.loc, {k_: v[0] for k_, v in h.items()}))
        if not fas:
            ctx.missing(rid, '%s: next_wal_seq.fetch_add' % name)
        # the guard is an Option (no persistence → no lock, and no sequence / log either): it must be None ONLY when there is no persistence — any further
        # condition on it (a configuration switch, a fast path) lets a snapshot capture (seq, store) between this writer's allocation and its apply
        for c in fas[:1]:
            h = held(f, c.bb)
            if SNAP in h and h[SNAP][1]:
                prod = [x for x in f.calls if x.loc == h[SNAP][2] and x.dest is not None and f.locals[x.dest['l']].startswith('core::option::Option<') and 'Guard<' in f.locals[x.dest['l']]]
                src = flow.render(o.of_operand(prod[0].args[0])) if prod and prod[0].args else '?'
                ok = bool(prod) and prod[0].callee and flow.short(prod[0].callee).endswith('Option::map') and \
                    re.match(r'^(Option::as_ref\()?arg:self→HnswBackend\.persistence\)?$', src) is not None
                ctx.inst(rid, f.short, 'the optional snapshot-lock guard is absent only when persistence is absent', ok,
                         'guard produced by %s over %s%s' % (flow.short(prod[0].callee) if prod and prod[0].callee else '?', src[:120],
                                                             '' if ok else ' — the guard can be None while a sequence number is allocated and logged'))
        k = 0
        for bb, a in sorted(lm.body_acqs.get(f.id, {}).items()):
            if a.cls in ('HnswBackend.doc_store', 'HnswBackend.index') and a.mode in ('W', 'U'):
                h = held(f, bb)
                ok = SNAP in h
                ctx.inst(rid, f.short, 'snapshot_lock still held at %s.write() #%d' % (a.cls, k), ok,
                         '%s.write() at %s: held = %s' % (a.cls, a.call.loc, {k_: v[0] for k_, v in h.items()}))
                k += 1
    return n_fa


def name_parts(e):
    """The variable parts of a formatted file name: the operands of the fmt::Argument constructors below the origin tree `e`."""
    return [x[2][0] for x in flow.walk(e) if x[0] == 'call' and re.search(r'fmt::(rt::)?Argument(<.*>)?::new_\w+$', x[1]) and x[2]]


def is_file_id(e):
    return e[0] == 'call' and e[1].endswith('HnswBackend::file_id') and not e[2]


def snapshot_file_identity(ctx, prog, rid, cs):
    """C09.R7: two snapshotters never share a file."""
    o = flow.Origin(cs)
    saves = cs.calls_to('Snapshot::save')
    if len(saves) != 1:
        ctx.missing(rid, 'create_snapshot: exactly one Snapshot::save (found %d)' % len(saves))
        return
    path = o.of_operand(saves[0].args[1])
    parts = name_parts(path)
    ok = len(parts) == 1 and is_file_id(parts[0])
    ctx.inst(rid, cs.short, 'the snapshot file is named by an id minted for this call (file_id()), not by anything the snapshot contains', ok,
             'Snapshot::save(%s): variable part(s) of the name: %s%s' % (flow.render(path)[-150:], [flow.render(x)[-110:] for x in parts], '' if ok else
             ' — two snapshots whose content-derived number coincides (same second, same sequence) write the same temp file and the same final name; the one that loses the '
             'staleness test then unlinks the file the MANIFEST points to'))
    # what the stale branch unlinks is exactly the file this call saved
    rms = []
    for c in cs.calls_to('std::fs::remove_file'):
        t = o.of_operand(c.args[0])
        if any(x[0] == 'call' and re.search(r'Iterator>::next$', x[1]) for x in flow.walk(t)):
            continue   # the unlink loop over the covered segments (C01.R4)
        rms.append((c, t))
    if not rms:
        ctx.missing(rid, 'create_snapshot: removal of the stale candidate file')
    for c, t in rms:
        ctx.inst(rid, cs.short, 'the stale branch unlinks the file this call saved and nothing else', t == path,
                 'remove_file(%s) vs Snapshot::save(%s)' % (flow.render(t)[-120:], flow.render(path)[-120:]))


def gate_sections(ctx, prog, lm, rid):
    """C09.R6: slot lookup, log append and in-memory apply of a mutator are inside ONE write-gate critical section (identity of the acquisition, as in manifest_rmw).
    Returns the number of append sites examined."""
    GATE = 'HnswBackend.write_gate'
    n_app = 0
    for name in MUTATORS:
        f = ctx.body(rid, name)
        if f is None:
            continue
        sites = []
        for bb, a in sorted(lm.body_acqs.get(f.id, {}).items()):
            if a.cls == 'HnswBackend.doc_store':
                sites.append(('doc_store.%s()' % ('read' if a.mode == 'R' else 'write'), bb, a.call.loc))
        apps = [c for c in f.calls if c.is_('WalWriter::append', 'WalWriter::append_batch')]
        if not apps:
            ctx.missing(rid, '%s: WalWriter::append[_batch] call' % name)
            continue
        if len([s for s in sites if s[0] == 'doc_store.write()']) < 1 or len([s for s in sites if s[0] == 'doc_store.read()']) < 1:
            ctx.missing(rid, '%s: slot lookup (doc_store.read) and apply (doc_store.write) in the body of the mutator' % name)
            continue
        for k, c in enumerate(apps):
            n_app += 1
            g = lm.held_at(f, c.bb, must=True).get(GATE)
            ctx.inst(rid, f.short, 'write gate held at %s #%d' % (flow.short(c.callee), k), g is not None and not g[1],
                     '%s at %s: write gate %s' % (flow.short(c.callee), c.loc, ('held since ' + g[2]) if g is not None else
                                                  'NOT held — another writer of the same id can append and apply between this append and this writer\'s apply'))
            sites.append((flow.short(c.callee), c.bb, c.loc))
        acq = {}
        for what, bb, loc in sites:
            g = lm.held_at(f, bb, must=True).get(GATE)
            acq.setdefault(g[2] if g is not None and not g[1] else 'not held', []).append('%s at %s' % (what, loc.rsplit('/', 1)[-1]))
        ok = len(acq) == 1 and 'not held' not in acq
        ctx.inst(rid, f.short, 'slot lookup, log append and apply share one acquisition of the write gate', ok,
                 '; '.join(('gate NOT held: %s' % ', '.join(v)) if k_ == 'not held' else 'gate acquired at %s: %s' % (k_.rsplit('/', 1)[-1], ', '.join(v)) for k_, v in sorted(acq.items())) +
                 ('' if ok else ' — the gate is released between the log append and the apply (or between the lookup and the apply): log order and apply order of two '
                                'writers of the same id can differ'))
    return n_app


def run(ctx, prog):
    ctx.not_decided = ['the interleavings themselves; only the lock discipline that makes them safe']
    lm = LockModel(prog)

    def held(body, bb):
        return lm.held_at(body, bb, must=True)

    # ------------------------------------------------------------------ R1
    ctx.rule('C09.R1', 'in every mutator the snapshot lock is held (shared) at each next_wal_seq.fetch_add and is still held at '
                       'every exclusive acquisition of doc_store / index that follows (allocation → apply)')
    n_fa = alloc_to_apply(ctx, prog, lm, 'C09.R1')
    ctx.floor('C09.R1', 'next_wal_seq.fetch_add sites', n_fa, 5, '5 by hand (insert ×2, delete, update_metadata, batch_delete)')

    # the pre-flight is inside the critical section too: every acquisition of doc_store in a mutator — also the shared one that maps ids to slots and
    # decides what gets logged — happens with the snapshot lock (shared) and the write gate held; read before them, the decision can be overtaken
    # by an overwrite or by tombstone compaction (which renumbers slots) and the logged entry no longer matches what is applied
    n_pre = 0
    for name in MUTATORS:
        f = ctx.body('C09.R1', name)
        if f is None:
            continue
        for b in prog.family(f):
            for bb, a in sorted(lm.body_acqs.get(b.id, {}).items()):
                if a.cls != 'HnswBackend.doc_store':
                    continue
                n_pre += 1
                h = held(b, bb)
                k_ = sum(1 for x in ctx.instances if x.get('config') == ctx.config and x['rule'] == 'C09.R1' and x['key'].startswith('C09.R1 | %s | doc_store.%s' % (f.short, 'read' if a.mode == 'R' else 'write')))
                ctx.inst('C09.R1', f.short, 'doc_store.%s #%d inside the snapshot-lock / write-gate section' % ('read' if a.mode == 'R' else 'write', k_),
                         SNAP in h and 'HnswBackend.write_gate' in h, 'acquired at %s with %s held' % (a.call.loc, sorted(k2.split('.')[-1] for k2 in h)))
    ctx.floor('C09.R1', 'doc_store acquisitions in the mutators', n_pre, 8, '2 per mutator on the pinned tree')

    # ------------------------------------------------------------------ R2
    ctx.rule('C09.R2', 'create_snapshot reads next_wal_seq and copies the store while holding the snapshot lock exclusively: '
                       'the load and every point where the doc_store read guard is live lie inside the exclusive guard\'s live range')
    cs = util.pick(ctx, 'C09.R2', 'HnswBackend::create_snapshot', 'Snapshot::save', 'Manifest::save')
    o = flow.Origin(cs)
    loads = [c for c in cs.calls if c.callee and re.search(r'Atomic.*::load$', c.callee) and c.args
             and 'PersistenceState.next_wal_seq' in flow.render(o.of_operand(c.args[0]))]
    if not loads:
        ctx.missing('C09.R2', 'create_snapshot: next_wal_seq.load')
    for c in loads:
        h = held(cs, c.bb)
        ctx.inst('C09.R2', cs.short, 'exclusive snapshot_lock at next_wal_seq.load', h.get(SNAP, (None,))[0] == 'W',
                 'held at %s: %s' % (c.loc, {k_: v[0] for k_, v in h.items()}))
    may = lm.states.get(cs.id, {}).get('may') or lm._run_dataflow(cs, must=False)
    must = lm._run_dataflow(cs, must=True)
    bad = []
    n_pts = 0
    for bb, st in may.items():
        classes_may = {v[0]: v[1] for v in st.values()}
        if 'HnswBackend.doc_store' in classes_may:
            n_pts += 1
            cm = {v[0]: v[1] for v in must.get(bb, {}).values()}
            if cm.get(SNAP) != 'W':
                bad.append(bb)
    # the acquisition itself
    for bb, a in lm.body_acqs.get(cs.id, {}).items():
        if a.cls == 'HnswBackend.doc_store':
            n_pts += 1
            if held(cs, bb).get(SNAP, (None,))[0] != 'W':
                bad.append(bb)
    ctx.inst('C09.R2', cs.short, 'doc_store read guard live only inside the exclusive snapshot_lock', n_pts > 0 and not bad,
             '%d program points with the store guard live; outside the exclusive lock: %s' % (n_pts, [cs.loc_of(b) for b in bad[:4]]))

    # ------------------------------------------------------------------ R3
    ctx.rule('C09.R3', 'every Manifest::save reachable after construction and the Manifest::load it modifies run with manifest_lock held')
    n_ms = 0
    for b in prog.bodies.values():
        if 'hnsw_backend' not in b.id:
            continue
        root = b.short.split('::{')[0]
        for c in b.calls_to('Manifest::save', 'Manifest::load'):
            if root.endswith(('with_persistence_with_hnsw_params', 'recover_with_hnsw_params_and_mode')):
                ctx.exception('C09.R3', root, 'constructor: no sharing before Self exists')
                continue
            n_ms += 1
            h = held(b, c.bb)
            idx = sum(1 for i in ctx.instances if i['rule'] == 'C09.R3' and i['key'].startswith('C09.R3 | %s | %s' % (b.short, flow.short(c.callee))))
            ctx.inst('C09.R3', b.short, '%s #%d under manifest_lock' % (flow.short(c.callee), idx), MLOCK in h,
                     '%s at %s: held = %s' % (flow.short(c.callee), c.loc, sorted(h)))
    manifest_rmw(ctx, prog, 'C09.R3', lm)
    ctx.floor('C09.R3', 'Manifest::load/save sites after construction', n_ms, 5, '3 saves + 2 loads (rotate_wal_if_needed, create_snapshot)')

    # ------------------------------------------------------------------ R4
    ctx.rule('C09.R4', 'stale-snapshot refusal: the first Manifest::save of create_snapshot is dominated by the false edge of '
                       'manifest.latest_snapshot_wal_seq > last_wal_seq, and the true edge never saves the manifest')
    ov = flow.Origin(cs, stop_at_vars=True)
    st_edges = []
    for i, blk in enumerate(cs.blocks):
        if blk['t']['k'] == 'switch' and i in cs.live_blocks():
            for tg, p in named_bool_expanded(cs, flow.switch_edge_predicates(cs, i, ov), ov):
                if re.match(r'^!?cmp\[\+ var:last_wal_seq - var:latest_snapshot_seq (<=|>=) -?\d+\]$', p) or \
                        re.match(r'^!?cmp\[\+ var:latest_snapshot_seq - var:last_wal_seq (<=|>=) -?\d+\]$', p):
                    st_edges.append((i, tg, p))
    saves = [c.bb for c in cs.calls_to('Manifest::save')]
    if not st_edges or not saves:
        ctx.missing('C09.R4', 'create_snapshot: stale-snapshot guard / Manifest::save')
    else:
        # which edge is "newer snapshot already committed"?  latest > last  ≡  last - latest <= -1
        def is_stale(p):
            neg = p.startswith('!')
            core = p[1:] if neg else p
            m = re.match(r'^cmp\[\+ var:(\w+) - var:(\w+) (<=|>=) (-?\d+)\]$', core)
            a, b, op, c = m.group(1), m.group(2), m.group(3), int(m.group(4))
            # truth of "latest - last >= 1"
            if a == 'last_wal_seq':
                stale = (op == '<=' and c <= -1)
            else:
                stale = (op == '>=' and c >= 1)
            return stale != neg
        stale_e = [(i, tg) for i, tg, p in st_edges if is_stale(p)]
        fresh_e = [(i, tg) for i, tg, p in st_edges if not is_stale(p)]
        r = cs.reach([0], avoid_edges=fresh_e)
        dom = all(s not in r for s in saves)
        rs = cs.reach([e[1] for e in stale_e]) | set(e[1] for e in stale_e)
        no_save = all(s not in rs for s in saves)
        # the latest_snapshot_seq compared is the manifest's
        ls = cs.var_local('latest_snapshot_seq')
        orig = flow.render(flow.Origin(cs).of_local(ls[0])) if ls else '?'
        ctx.inst('C09.R4', cs.short, 'manifest saved only when the candidate is not older than the committed snapshot',
                 dom and no_save and 'Manifest.latest_snapshot_wal_seq' in orig,
                 'saves dominated by the not-stale edge: %s; stale edge reaches a save: %s; compared value: %s' % (dom, not no_save, orig[:160]))

    # ------------------------------------------------------------------ R5
    ctx.rule('C09.R5', 'compact_tombstones excludes the writers and the snapshotter at every exclusive acquisition of index / doc_store / metadata_index and at the '
                       'installation of the rebuilt index: it holds the snapshot lock (shared suffices against the snapshotter, who takes it exclusively) and, against '
                       'writers, either holds it exclusively or holds the write gate (which every writer keeps from its slot lookup to its apply)')
    ct = ctx.body('C09.R5', 'HnswBackend::compact_tombstones')
    k = 0
    for bb, a in sorted(lm.body_acqs.get(ct.id, {}).items()):
        if a.cls in ('HnswBackend.doc_store', 'HnswBackend.index', 'HnswBackend.metadata_index') and a.mode in ('W', 'U'):
            h = held(ct, bb)
            gate = h.get('HnswBackend.write_gate')
            ok5 = SNAP in h and (h[SNAP][0] == 'W' or (gate is not None and not gate[1]))
            ctx.inst('C09.R5', ct.short, 'writers and the snapshotter are excluded at %s.write()' % a.cls, ok5,
                     '%s at %s: held = %s (needs the snapshot lock — shared is enough against the snapshotter — and, against writers, either that lock exclusively or the write gate)'
                     % (a.cls, a.call.loc, {k_: v[0] for k_, v in h.items()}))
            k += 1
    ctx.floor('C09.R5', 'exclusive acquisitions in compact_tombstones', k, 3, 'index, doc_store, metadata_index')
    must_ct = lm._run_dataflow(ct, must=True)
    inst_blocks = []
    for i, blk in enumerate(ct.blocks):
        if i not in ct.live_blocks():
            continue
        for s in blk['s']:
            if 'rv' in s and s['pl'].get('p') == ['*'] and re.search(r'(HnswVectorIndex|MetadataInvertedIndex)$', ct.locals[s['pl']['l']].replace('&mut ', '')):
                inst_blocks.append(i)
    def _excl(b_):
        cm = {v[0]: v[1] for v in must_ct.get(b_, {}).values()}
        return cm.get(SNAP) == 'W' or (cm.get(SNAP) is not None and cm.get('HnswBackend.write_gate') is not None)
    okb = bool(inst_blocks) and all(_excl(b) for b in inst_blocks)
    ctx.inst('C09.R5', ct.short, 'rebuilt index / metadata index installed with writers and the snapshotter excluded', okb,
             'installation points: %s' % [ct.loc_of(b) for b in inst_blocks])
    # the guard is the first acquisition of the function (before the tombstone count)
    acqs = sorted(lm.body_acqs.get(ct.id, {}).items())
    first_canon = min([bb for bb, a in acqs if a.cls.startswith('HnswBackend.')] or [10 ** 9])
    snap_sites = [bb for bb, cbs in lm.sync_calls.get(ct.id, {}).items() for cb in cbs if cb.id in lm.ret_guard and lm.ret_guard[cb.id][0] == SNAP]
    ctx.inst('C09.R5', ct.short, 'snapshot_lock taken before any canonical lock', bool(snap_sites) and all(ct.dominates(s, first_canon) for s in snap_sites),
             'snapshot_lock acquired at %s; first canonical acquisition at %s' % ([ct.loc_of(s) for s in snap_sites], ct.loc_of(first_canon) if first_canon < 10 ** 9 else '?'))

    # ------------------------------------------------------------------ R6
    ctx.rule('C09.R6', 'log order = apply order: in every mutator the slot lookup (shared doc_store acquisition), every WalWriter::append[_batch] and the in-memory apply '
                       '(exclusive doc_store acquisition) happen inside ONE critical section of the write gate — the same acquisition is held at all of them. Replay '
                       'applies entries in file order, so a writer that releases the gate between its append and its apply can be overtaken by another writer of the '
                       'same id: the live collection ends with one version, the restart with the other (and both start from the same overwritten slot)')
    n_sec = gate_sections(ctx, prog, lm, 'C09.R6')
    # ------------------------------------------------------------------ R7
    ctx.rule('C09.R7', 'a stale snapshot never replaces a newer one ON DISK either: snapshotters run concurrently (the exclusive lock covers only the copy), each saves its file '
                       'before the staleness test and the loser unlinks its own file — so the file name must be an id minted for this call by file_id() (the generator of '
                       'every name in the data directory), not a function of the snapshot\'s content (its second-resolution timestamp or its sequence number can coincide '
                       'for two racing snapshots), and the stale branch must unlink exactly the path this call saved')
    snapshot_file_identity(ctx, prog, 'C09.R7', cs)
    ctx.floor('C09.R6', 'log appends inside the write-gate section of the mutators', n_sec, 5, 'insert ×2 (entry, compensating delete), delete, update_metadata, batch_delete')
    # ------------------------------------------------------------------ R8 what compaction deletes is in the snapshot
    ctx.rule('C09.R8', 'a snapshot taken while writers run (its (seq, store) pair is read before it is stamped and before it reaches the MANIFEST section) may delete a '
                       'segment only when every entry in it is in the snapshot: for numbered entries that is decided by the sequence comparison alone — the timestamp '
                       'comparison (whole seconds, stamped after the capture) may decide only for legacy entries without a number (same analysis as C02.R2)')
    from rules import C02 as _C02
    _C02.compaction_timestamp_legacy_only(ctx, prog, 'C09.R8')
    ctx.stat('functions_analysed', len(set(i['key'].split(' | ')[1] for i in ctx.instances)))
