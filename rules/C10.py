"""C10 — tenants are isolated end to end.

Decided statically: every data RPC derives its tenant from the authenticated context before reading the request, maps
client ids into the tenant's id range before they reach the engine and back before they leave, checks ownership (and the
namespace selector) before any mutation, positive answer or result push, overwrites the reserved metadata keys on every
write, sanitises every metadata map that leaves the server, scopes /usage, and installs the authenticating interceptor.
The tenant index is looked up under the authenticated id itself (R11), /usage reads no cross-tenant component of the server state
(R12) and a new index is handed out only after tenants.json is durable (R13).
Leaks through the number of results of a global k-NN that is filtered afterwards, and timing, are not decided.
"""
import json
import re

from kvstatic import flow, pathsens, rt, util, server

MANIFEST = {
    'text': 'Decides the structural clauses of tenant isolation over all 15 RPC handlers and the HTTP usage endpoint: closed RPC '
            'inventory with tenant derivation before the request body is read; sink-side id mapping (every doc id reaching the '
            'engine from a tenant-scoped handler originates from map_doc_id, every id in a response from the request or unmap_doc_id); '
            'path-sensitive ownership/namespace guard before each sensitive action; reserved-key table on the four write paths; '
            'sanitised metadata in every response aggregate; /usage scoping and closed sources of its report; interceptor shape and constant-time key '
            'validation; index lookup keyed by the validated tenant id as is; durable tenant map before an index is handed out. '
            'Necessary conditions; result-count and timing side channels of the global k-NN are not decided.',
    'design_ref': 'DESIGN.md §4.10',
    'note': 'Trusted base: rustc MIR, variable-level guard predicates, path-sensitive exploration per handler, origin tracing through '
            'Vec pushes (collection elements). tonic/axum dispatch is assumed to route only through the generated service and the '
            'registered routes.',
    'technique': 'closed inventories + path-sensitive guard dominance + sink-side origin checks on MIR',
}

EXPLANATION = 'INV/FLOW/GUARD/TABLE/DOM rules of DESIGN §4.10 over the server binary, auth.rs and tenant handling.'

TENANT_RPCS = ['insert', 'bulk_insert', 'bulk_load_hnsw', 'query', 'delete', 'update_metadata', 'search', 'bulk_search', 'bulk_query', 'batch_delete']
NON_TENANT = {'health': 'process-wide aggregate, outside the property', 'metrics': 'process-wide aggregate, outside the property',
              'flush_hot_tier': 'admin maintenance, returns a count only', 'create_snapshot': 'admin maintenance', 'get_config': 'static configuration'}
RESERVED = ['"__tenant_id__"', '"__tenant_idx__"', '"__namespace__"']

OWN_RX = r'^eq\[HashMap::get\((?:var|arg):\w+, "__tenant_idx__"\), option::Option::Some\{(.*)\}\]$'


def _explore(body, atoms, **kw):
    import kvstatic.pathsens as ps
    orig = ps.Origin
    try:
        ps.Origin = lambda b: flow.Origin(b, stop_at_vars=True)
        return ps.explore(body, atoms, **kw)
    finally:
        ps.Origin = orig


ATOMS = [
    pathsens.VariantAtom('tenant_some', r'^(var|arg):tenant$', 'Some'),
    pathsens.Atom('tenant_some', r'^bool\[Option::is_some\((var|arg):tenant\)\]$'),
    pathsens.Atom('own', OWN_RX),
    pathsens.Atom('ns_empty', r'^bool\[String::is_empty\(.*\.namespace\)\]$'),
    pathsens.Atom('has_ns', r'^bool\[var:has_namespace\]$'),
    pathsens.Atom('ns_eq', r'^eq\[var:doc_namespace, .*(\.namespace|var:namespace)\]$|^eq\[.*(\.namespace|var:namespace), var:doc_namespace\]$'),
    pathsens.Atom('needs_md', r'^bool\[var:needs_metadata\]$'),
]


# ------------------------------------------------------------------ roles
# The atoms above and the rules below write `var:tenant`, `var:filtered`, … for locals of /repo.  What is meant is the variable that PLAYS that role; it is
# found by what defines it and how it is used (types, fields, callees, constants: nothing a rename touches) and rendered under the role name, whatever
# it is called in the source (util.bind_role).  Where nothing, or something ambiguous, plays the role, the names are left alone: the rule then reads the
# source names as before and fails closed.
T_OPT_TENANT = r'^core::option::Option<kyrodb_server::TenantContext>$'
T_STRMAP = r'^std::collections::hash::map::HashMap<alloc::string::String, alloc::string::String>$'
T_IDS = r'^alloc::vec::Vec<u64>$'
NEW_VEC = r'^Vec::(with_capacity|new)\('
KEY_TABLE = r'^std::collections::hash::map::HashMap<alloc::string::String, kyrodb_engine::auth::TenantInfo>$'


def bind_each(body, role, type_rx, origin_rx, used_as=None):
    """util.bind_role for a role that several locals of one function play, one per branch or loop body (the three `filtered` lists and the two
    `doc_namespace` of batch_delete, the `if let Some(tenant) = &tenant` bindings): every user variable with that type and that variable-level definition
    (and, with used_as = (callee regex, argument index), handed to such a call, directly or by reference) renders as `var:<role>`.
    Nothing qualifies, or a variable that does not qualify already carries the name → nothing is changed (the rule keeps reading the source names)."""
    if body is None:
        return []
    ov = flow.Origin(body, stop_at_vars=True)
    used = None
    if used_as:
        used = set()
        for c in body.calls:
            if c.callee and re.search(used_as[0], flow.short(c.callee)) and len(c.args) > used_as[1] and c.args[used_as[1]].get('k') in ('mv', 'cp'):
                o = ov.of_operand(c.args[used_as[1]])
                if o[0] == 'var':
                    used.add(o[1])
                elif not c.args[used_as[1]]['pl'].get('p'):
                    used.add(c.args[used_as[1]]['pl']['l'])
    ls = []
    for l, names in list(body.varnames.items()):
        if not names or not re.search(type_rx, body.locals[l]) or (used is not None and l not in used):
            continue
        try:
            r = flow.render(ov.of_local(l))
        except Exception:
            continue
        if re.search(origin_rx, r):
            ls.append(l)
    if not ls or any(role in ns for l2, ns in body.varnames.items() if l2 not in ls):
        return []
    for l in ls:
        body.varnames[l] = [role]
    if hasattr(body, '_err_blocks'):
        delattr(body, '_err_blocks')
    return ls


def bind_handler_roles(b):
    """Roles common to the tenant-scoped RPC handlers (call before the first flow.Origin of the body)."""
    # the context unwrapped by `if let Some(tenant) = &tenant` is a role of its own: it shadows the Option in the source, it must not be taken for it here
    bind_each(b, 'tenant_ctx', r'^&kyrodb_server::TenantContext$', r'@Some→Some\.0$')
    # tenant: the Option<TenantContext> that tenant_context(&request)? produced and that the handler hands (as_ref) to the service's own methods
    # (rate limiter, id mapping, search); the `?` temporary with the same type and origin is never handed on
    util.bind_role(b, 'tenant', type_rx=T_OPT_TENANT, assigned_from=r'KyroDBServiceImpl::tenant_context', used_as=(r'KyroDBServiceImpl::\w+$', 1))
    bind_namespace_roles(b)


def bind_namespace_roles(b):
    # doc_namespace: the namespace recorded with the stored document, metadata.get("__namespace__")….unwrap_or("")
    bind_each(b, 'doc_namespace', r'^&str$', r'HashMap::get\(.*, "__namespace__"\)')
    # namespace: the request's namespace selector taken out as &str (req.namespace.as_str())
    bind_each(b, 'namespace', r'^&str$', r'^(?:var|arg):\w+→\w+Request\.namespace$')


def captured_value(prog, clo, cap):
    """What the parent put into the capture `cap` of the closure body `clo`: variable-level rendering in the parent ('' when it cannot be resolved).
    `cap:<name>` carries the name of a local of the parent; its position in the closure environment does not."""
    par = prog.bodies.get(clo.parent) if clo is not None and clo.parent else None
    m = re.search(r'"\^(\d+):%s"' % re.escape(cap), json.dumps(clo.blocks)) if par is not None else None
    if not m:
        return ''
    pv = None
    for blk in par.blocks:
        for s in blk['s']:
            rv = s.get('rv')
            if rv and rv['k'] == 'agg' and rv.get('ak') == 'closure' and rv.get('def') == clo.id and len(rv['ops']) > int(m.group(1)):
                pv = pv or flow.Origin(par, stop_at_vars=True)
                return flow.render(pv.of_operand(rv['ops'][int(m.group(1))]))
    return ''


def guard_ok(a, allow_no_metadata=False):
    t_ok = a.get('tenant_some') is False or a.get('own') is True
    n_ok = a.get('ns_empty') is True or a.get('has_ns') is False or a.get('ns_eq') is True
    if allow_no_metadata and a.get('needs_md') is False:
        # needs_metadata = tenant.is_some() || has_namespace || filter.is_some(): false only without tenant and selector
        return a.get('tenant_some') is False and a.get('has_ns') is False
    return t_ok and n_ok


def own_rhs_ok(body, ovfull):
    """the right-hand side of every ownership comparison originates from tenant.tenant_index"""
    ov = flow.Origin(body, stop_at_vars=True)
    res = []
    for i, blk in enumerate(body.blocks):
        if blk['t']['k'] == 'switch' and i in body.live_blocks():
            for tg, p in flow.switch_edge_predicates(body, i, ov):
                m = re.match(OWN_RX, p.lstrip('!'))
                if m:
                    rhs = m.group(1)
                    if 'TenantContext.tenant_index' in rhs:
                        res.append(True)
                    else:
                        mm = re.match(r'^var:(\w+)$', rhs)
                        full = ''
                        if mm:
                            for l in body.var_local(mm.group(1)):
                                full += flow.render(ovfull.of_local(l))
                        res.append('TenantContext.tenant_index' in full)
    return res


def pushed_values(body, vec_name, of, ov, depth=0):
    """origins (full) of the values pushed into the Vec variable `vec_name`."""
    out = []
    for c in body.calls:
        if c.callee and re.search(r'::push$|HashSet<.*>::insert$|HashSet::insert$', c.callee) and len(c.args) >= 2 and flow.render(ov.of_operand(c.args[0])) == 'var:' + vec_name:
            out.append((c, flow.render(of.of_operand(c.args[1])), flow.render(ov.of_operand(c.args[1]))))
    return out


def is_mapped(body, expr_full, expr_var, of, ov, depth=0):
    """The id expression originates from map_doc_id, directly or as an element of a Vec filled only with mapped ids."""
    if 'KyroDBServiceImpl::map_doc_id(' in expr_full:
        return True
    if depth > 7:
        return False
    # element of / reference to a named Vec
    names = re.findall(r'var:(\w+)', expr_var)
    for n in names:
        pv = pushed_values(body, n, of, ov)
        if pv and all(is_mapped(body, f, v, of, ov, depth + 1) for _, f, v in pv):
            return True
        # a variable bound from iterating another Vec / from a tuple element
        for l in body.var_local(n):
            f2 = flow.render(of.of_local(l))
            v2 = flow.render(ov.of_local(l))
            if f2 != expr_full and ('KyroDBServiceImpl::map_doc_id(' in f2):
                return True
            if v2 != expr_var and v2 != 'var:' + n and depth < 7 and is_mapped(body, f2, v2, of, ov, depth + 1):
                return True
    return False


def _literal_array(e):
    """e is an iterator that yields every element of an array of string literals exactly once (the array itself, by value or by reference — into_iter is
    transparent for origins —, `.iter()` on it, `.copied()` / `.cloned()` on that): the rendered literals, else None."""
    while e[0] == 'call' and len(e[2]) == 1 and re.search(r'^(slice::iter|Iterator::copied|Iterator::cloned)$', flow.short(e[1])):
        e = e[2][0]
    if e[0] == 'agg' and e[1] == 'array' and e[2] and all(o[0] == 'const' and o[2] is None and re.match(r'^"[^"]*"$', o[1]) for o in e[2]):
        return [o[1] for o in e[2]]
    return None


def _ref_root(body, op):
    """the local an operand `&mut *&mut it` refers to (follows reference temporaries with a single definition)"""
    l = op['pl']['l'] if op.get('k') in ('mv', 'cp') else None
    for _ in range(4):
        ds = body.defs.get(l, [])
        if len(ds) == 1 and ds[0][2] == 'assign' and ds[0][3]['rv']['k'] == 'ref' and not [x for x in ds[0][3]['rv']['pl'].get('p', []) if x != '*']:
            l = ds[0][3]['rv']['pl']['l']
        else:
            break
    return l


def removed_keys(prog, body, call):
    """The keys that the call `map.remove(key)` removes, rendered (C10.R4, sanitize_public_metadata).  A literal key names itself.  Written as a loop over the
    literals — `for key in ["a", "b", "c"] { map.remove(key); }` — the call removes every element of the array, provided it really is executed once per
    element: the key is the item the loop head yields (`next() = Some(item)`), nothing else advances the iterator, no path from the head's Some edge comes back
    to the head without passing the call, and none leaves the loop (break / return) before the iterator is exhausted.  `….into_iter().for_each(|key| {
    map.remove(key); })` likewise: the key is the closure's parameter and the call lies on every path through the closure.  Anything else renders as the
    expression it is (and is then not one of the reserved literals)."""
    of = flow.Origin(body)
    e = of.of_operand(call.args[1])
    plain = [flow.render(e)]
    if e[0] == 'field' and e[2].endswith('Option::Some.0') and e[1][0] == 'downcast' and e[1][2] == 'Some' and e[1][1][0] == 'call' and len(e[1][1]) > 3:
        head = e[1][1][3]
        lits = _literal_array(e[1][1][2][0]) if head.callee and re.search(r'iterator::Iterator>::next$', head.callee) and len(head.args) == 1 else None
        if lits is None or head.body is not body:
            return plain
        it = _ref_root(body, head.args[0])
        some_e = flow.outcome_edges(body, head)[0] or []
        # the iterator is advanced by the loop head only: every reference to it is taken in the head's block, and it is handed to no call as such
        elsewhere = [i for i, blk in enumerate(body.blocks) if i != head.bb and i in body.live_blocks() and
                     (any(s.get('rv', {}).get('k') in ('ref', 'rawptr') and s['rv']['pl']['l'] == it for s in blk['s']) or
                      any(a.get('k') in ('mv', 'cp') and a['pl']['l'] == it for a in (body.call_at(i).args if body.call_at(i) else [])))]
        starts = [t_ for _, t_ in some_e]
        if it is None or len(body.defs.get(it, [])) != 1 or elsewhere or not starts or call.bb == head.bb or call.to is None:
            return plain
        skips = head.bb in body.reach(starts, avoid_blocks={call.bb})
        leaves = any(x in body.reach(starts, avoid_blocks={head.bb}) for x in body.return_blocks())
        return lits if not skips and not leaves else plain
    if e[0] == 'arg' and body.kind == 'Closure' and e[1] == 2:
        par = prog.bodies.get(body.parent)
        drv = [c for c in (par.calls if par is not None else []) if c.callee and body.id in c.gc]
        if len(drv) != 1 or flow.short(drv[0].callee) != 'Iterator::for_each' or len(drv[0].args) != 2:
            return plain
        lits = _literal_array(flow.Origin(par).of_operand(drv[0].args[0]))
        if lits is None or call.to is None or not all(body.dominates(call.bb, x) for x in body.return_blocks()):
            return plain
        return lits
    return plain


def id_range_refusal(ctx, prog, rid):
    """to_global_doc_id refuses tenant-local ids above u32::MAX (C10.R2; shared with C15.R2: such a request must be answered INVALID_ARGUMENT without effect)."""
    tg = ctx.body(rid, 'TenantIdMapper::to_global_doc_id')
    tgv = flow.Origin(tg, stop_at_vars=True)
    guard = [(i, t_) for i, blk in enumerate(tg.blocks) if blk['t']['k'] == 'switch' for t_, p in flow.switch_edge_predicates(tg, i, tgv)
             if re.match(r'^cmp\[\+ arg:local_doc_id >= 4294967296\]$', p)]
    okg = bool(guard)
    if okg:
        errs = flow.err_blocks(tg)
        rr = tg.reach([e[1] for e in guard], avoid_blocks=errs) | (set(e[1] for e in guard) - errs)
        okg = not any(x in rr for x in tg.return_blocks())
    ret = flow.render(tgv.of_local(0))
    ctx.inst(rid, tg.short, 'refuses local ids above u32::MAX; global = (tenant_index << 32) | local', okg and bool(re.search(r'\(\(arg:tenant_index Shl 32\) BitOr arg:local_doc_id\)', ret)),
             'guard %s; returns %s' % (guard, ret[:120]))


def run(ctx, prog):
    ctx.not_decided = ['leaks through the number of results of a global k-NN that is filtered afterwards', 'timing side channels',
                       '64-bit collisions of the query-cache scope hash (responses are re-filtered per tenant anyway)']
    # ------------------------------------------------------------------ R1
    ctx.rule('C10.R1', 'RPC inventory: the 15 methods of the service are classified; each tenant-scoped data RPC calls tenant_context(&request) '
                       'with its error propagated before request.into_inner(); an unclassified method fails')
    methods = server.rpc_methods(prog)
    uncl = [m for m in methods if m not in TENANT_RPCS and m not in NON_TENANT]
    ctx.inst('C10.R1', 'KyroDbService', 'every RPC classified', not uncl and len(methods) >= 15, 'methods %s; unclassified %s' % (methods, uncl), nontrivial=False)
    for m_, why in NON_TENANT.items():
        ctx.exception('C10.R1', 'rpc ' + m_, why)
    bodies = {}
    for h in TENANT_RPCS:
        b = server.handler(ctx, 'C10.R1', h, 'KyroDBServiceImpl::tenant_context')
        bodies[h] = b
        bind_handler_roles(b)
        tc = b.calls_to('KyroDBServiceImpl::tenant_context')[0]
        use = util.result_use(b, tc)
        s_e = flow.success_edges(b, tc)
        inner = [c.bb for c in b.calls if c.callee and c.callee.endswith('Request::into_inner')]
        r0 = b.reach([0], avoid_edges=s_e)
        ctx.inst('C10.R1', 'rpc ' + h, 'tenant_context before into_inner, error propagated', use == 'propagated' and bool(inner) and all(x not in r0 for x in inner),
                 'tenant_context result %s; into_inner sites %d' % (use, len(inner)))
    tcb = ctx.body('C10.R1', 'KyroDBServiceImpl::tenant_context')
    tco = flow.Origin(tcb)
    en = util.option_edges(tcb, r'x^', 'None')
    auth_off = []
    tcv = flow.Origin(tcb, stop_at_vars=True)
    for i, blk in enumerate(tcb.blocks):
        if blk['t']['k'] == 'switch':
            for tg, p in flow.switch_edge_predicates(tcb, i, tcv):
                if re.match(r'^!bool\[.*AuthConfig\.enabled\]$', p):
                    auth_off.append((i, tg))
    ext = [c for c in tcb.calls if c.callee and re.search(r'Extensions::get$', c.callee)]
    r_ = tcb.reach([0], avoid_blocks=flow.err_blocks(tcb), avoid_edges=auth_off)
    ret = flow.render(tco.of_local(0))
    ctx.inst('C10.R1', tcb.short, 'with auth enabled the tenant comes from the request extensions or the call fails', bool(auth_off) and bool(ext) and 'Extensions::get' in ret and bool(tcb.calls_to('core::option::Option::ok_or_else')),
             'returns %s' % ret[:160])

    # ------------------------------------------------------------------ R2
    ctx.rule('C10.R2', 'id mapping: every document id that a tenant-scoped handler passes to the engine originates from map_doc_id (raw ids only '
                       'on the tenant = None edge); every doc_id in a response originates from the request or from unmap_doc_id; '
                       'to_global_doc_id refuses local ids above u32::MAX and builds (tenant_index << 32) | local; is_tenant_doc_id compares the high word')
    ID_SINKS = {'TieredEngine::insert': 1, 'TieredEngine::delete': 1, 'TieredEngine::update_metadata': 1, 'TieredEngine::query_with_source': 1,
                'TieredEngine::get_metadata': 1, 'TieredEngine::exists': 1, 'TieredEngine::bulk_query_with_source': 1, 'TieredEngine::batch_delete': 1,
                'TieredEngine::bulk_load_cold_tier': 1}
    n_sink = 0
    for h in TENANT_RPCS:
        for b in server.handler_family(prog, h):
            of = flow.Origin(b)
            ov = flow.Origin(b, stop_at_vars=True)
            tnone = []
            for i, blk in enumerate(b.blocks):
                if blk['t']['k'] == 'switch':
                    for tg, p in flow.switch_edge_predicates(b, i, ov):
                        if re.match(r'^variant\((var|arg|cap):tenant\) (= None|∉ \{Some\})$', p):
                            tnone.append((i, tg))
            r_wo_none = None
            for c in b.calls:
                if not c.callee:
                    continue
                for sink, argi in ID_SINKS.items():
                    if c.callee.endswith(sink) and len(c.args) > argi:
                        n_sink += 1
                        ef = flow.render(of.of_operand(c.args[argi]))
                        ev = flow.render(ov.of_operand(c.args[argi]))
                        # every alternative of the argument must be mapped (a phi with one raw leg is a leak)
                        alts_f = flow.top_alternatives(of.of_operand(c.args[argi]))
                        alts_v = flow.top_alternatives(ov.of_operand(c.args[argi]))
                        ok = all(is_mapped(b, flow.render(a), ev if len(alts_f) == 1 else flow.render(a), of, ov) for a in alts_f) and \
                            all(is_mapped(b, ef if len(alts_v) == 1 else '', flow.render(a), of, ov) or 'map_doc_id(' in flow.render(a) for a in alts_v)
                        why = 'mapped'
                        mv_ = re.match(r'^var:(\w+)$', ev)
                        if not ok and tnone and mv_:
                            # a variable with one definition per tenant branch: the raw definition may exist only on the tenant = None edge
                            if r_wo_none is None:
                                r_wo_none = b.reach([0], avoid_edges=tnone)
                            defs_ = [d for l_ in b.var_local(mv_.group(1)) for d in b.defs.get(l_, []) if d[2] in ('assign', 'call')]
                            good = bool(defs_)
                            for d in defs_:
                                fr = flow.render(of.of_rvalue(d[3]['rv'], 0, frozenset())) if d[2] == 'assign' else flow.render(of.of_call(d[3], 0, frozenset()))
                                vr = flow.render(ov.of_rvalue(d[3]['rv'], 0, frozenset({-1}))) if d[2] == 'assign' else flow.render(ov.of_call(d[3], 0, frozenset({-1})))
                                if not (is_mapped(b, fr, vr, of, ov) or d[0] not in r_wo_none):
                                    good = False
                            if good:
                                ok = True
                                why = 'mapped on the tenant path, raw only on the tenant = None edge'
                        if not ok and tnone:
                            if r_wo_none is None:
                                r_wo_none = b.reach([0], avoid_edges=tnone)
                            if c.bb not in r_wo_none:
                                ok = True
                                why = 'only on the tenant = None edge'
                        if not ok and b.kind == 'Closure' and re.search(r'^(\*?\(?(cap|arg):)', ev):
                            # closure over ids that were collected by the parent: check the captured / iterated collection in the parent
                            par = prog.bodies.get(b.parent)
                            if par is not None:
                                pof, pov = flow.Origin(par), flow.Origin(par, stop_at_vars=True)
                                srcs = [flow.render(pov.of_operand(a)) for cc in par.calls if b.id in cc.gc for a in cc.args[:1]]
                                srcs_f = [flow.render(pof.of_operand(a)) for cc in par.calls if b.id in cc.gc for a in cc.args[:1]]
                                if srcs and all(is_mapped(par, f_, v_, pof, pov) for f_, v_ in zip(srcs_f, srcs)):
                                    ok = True
                                    why = 'iterates a collection of mapped ids in the parent'
                        idx = sum(1 for x in ctx.instances if x.get('config') == ctx.config and x['rule'] == 'C10.R2' and x['key'].startswith('C10.R2 | rpc %s | %s' % (h, flow.short(c.callee))))
                        ctx.inst('C10.R2', 'rpc ' + h, '%s #%d gets a mapped id' % (flow.short(c.callee), idx), ok,
                                 '%s at %s: id argument %s [%s]' % (flow.short(c.callee), c.loc, ev[:90], why if ok else 'NOT derived from map_doc_id'))
    ctx.floor('C10.R2', 'engine id sinks in tenant-scoped handlers', n_sink, 14, 'measured on the pinned tree')
    # responses: doc_id fields
    n_resp = 0
    for b in prog.bodies.values():
        if b.crate != 'kyrodb_server':
            continue
        of = None
        for i, blk in enumerate(b.blocks):
            if i not in b.live_blocks():
                continue
            for s in blk['s']:
                rv = s.get('rv')
                if rv and rv['k'] == 'agg' and rv.get('ak') == 'adt' and re.search(r'proto::(QueryResponse|SearchResult)$', rv.get('adt', '')) and 'doc_id' in (rv.get('fields') or []):
                    if b.loc.startswith('engine/src/bin/kyrodb_server.rs') and b.end_line and int(b.loc.split(':')[-1]) > 4180:
                        continue  # (test module is not compiled into this configuration; guard kept for safety)
                    n_resp += 1
                    of = of or flow.Origin(b)
                    r = flow.render(of.of_operand(rv['ops'][rv['fields'].index('doc_id')]))
                    alts = flow.top_alternatives(of.of_operand(rv['ops'][rv['fields'].index('doc_id')]))
                    ok = all(bool(re.search(r'unmap_doc_id\(|Request\.doc_id|Request\.doc_ids|QueryRequest\.doc_id', flow.render(a))) for a in alts)
                    idx = sum(1 for x in ctx.instances if x.get('config') == ctx.config and x['rule'] == 'C10.R2' and x['key'].startswith('C10.R2 | %s | response' % b.short.split('::{')[0]))
                    ctx.inst('C10.R2', b.short.split('::{')[0], 'response doc_id #%d is the request id or an unmapped id' % idx, ok, 'doc_id = %s' % r[:140])
    ctx.floor('C10.R2', 'response aggregates carrying a doc_id', n_resp, 5, 'query ×4, bulk_query, search result')
    id_range_refusal(ctx, prog, 'C10.R2')
    it = ctx.body('C10.R2', 'TenantIdMapper::is_tenant_doc_id')
    ret = flow.render(flow.Origin(it, stop_at_vars=True).of_local(0))
    ctx.inst('C10.R2', it.short, 'compares the high word with the tenant index', bool(re.search(r'\(\(arg:global_doc_id Shr 32\) Eq arg:tenant_index\)', ret)), 'returns %s' % ret[:100])
    um = ctx.body('C10.R2', 'KyroDBServiceImpl::unmap_doc_id')
    umv = flow.Origin(um, stop_at_vars=True)
    chk = [p for i, blk in enumerate(um.blocks) if blk['t']['k'] == 'switch' for t_, p in flow.switch_edge_predicates(um, i, umv) if 'is_tenant_doc_id' in p]
    ctx.inst('C10.R2', um.short, 'unmap returns a local id only for the tenant\'s own range', bool(chk) and bool(um.calls_to('TenantIdMapper::to_local_doc_id')), 'guard: %s' % chk[:1])
    md = ctx.body('C10.R2', 'KyroDBServiceImpl::map_doc_id')
    ctx.inst('C10.R2', md.short, 'map_doc_id = to_global_doc_id(tenant.tenant_index, local) with the refusal propagated', bool(md.calls_to('TenantIdMapper::to_global_doc_id')) and
             util.result_use(md, md.calls_to('TenantIdMapper::to_global_doc_id')[0]) == 'propagated' and
             'TenantContext.tenant_index' in flow.render(flow.Origin(md).of_operand(md.calls_to('TenantIdMapper::to_global_doc_id')[0].args[0])), '')

    # ------------------------------------------------------------------ R3
    ctx.rule('C10.R3', 'ownership before action: each sensitive action (engine mutation, positive answer, result push, result count) is reached only '
                       'with (tenant = None ∨ stored __tenant_idx__ = tenant.tenant_index) and (no namespace selector ∨ stored __namespace__ = selector); '
                       'bulk_query clears embedding and metadata and resets `found` on every mismatch; filter deletes carry the tenant conjunct')
    SENS = {
        'query': lambda b: [i for i, blk in enumerate(b.blocks) for s in blk['s'] if s.get('rv', {}).get('k') == 'agg' and s['rv'].get('adt', '').endswith('proto::QueryResponse')
                            and s['rv']['ops'][s['rv']['fields'].index('found')].get('int') == 1],
        'delete': lambda b: [c.bb for c in b.calls_to('TieredEngine::delete')],
        'update_metadata': lambda b: [c.bb for c in b.calls_to('TieredEngine::update_metadata')],
    }
    for h, sens in SENS.items():
        b = bodies[h]
        sb = sens(b)
        if not sb:
            ctx.missing('C10.R3', 'rpc %s: sensitive action' % h)
            continue
        terms, seen = _explore(b, ATOMS, stop_blocks=set(sb), max_states=400000)
        arr = [t for t in terms if t[0] in sb]
        for nm in ('tenant_some', 'own', 'ns_eq'):
            if not seen.get(nm):
                ctx.inst('C10.R3', 'rpc ' + h, 'guard atom ' + nm, False, 'anchor missing: %s is not tested in a recognised form in %s' % (nm, h), nontrivial=False)
        bad = [a for (bb, via, a, p) in arr if not guard_ok(a)]
        rhs = own_rhs_ok(b, flow.Origin(b))
        ctx.inst('C10.R3', 'rpc ' + h, 'sensitive action only past the ownership and namespace guards', bool(arr) and not bad and bool(rhs) and all(rhs),
                 ('reached with %s' % bad[0]) if bad else '%d abstract arrivals; ownership compared with tenant.tenant_index: %s' % (len(arr), rhs))
    # batch_delete by ids
    b = bodies['batch_delete']
    # filtered: an id list built empty in the handler and handed to engine.batch_delete (one per branch); filters: the list of conjuncts of the filter delete;
    # combined: the filter handed to engine.batch_delete_by_metadata_filter
    bind_each(b, 'filtered', T_IDS, NEW_VEC, used_as=(r'TieredEngine::batch_delete$', 1))
    util.bind_role(b, 'filters', type_rx=r'^alloc::vec::Vec<kyrodb_engine::proto::MetadataFilter>$', origin_rx=NEW_VEC)
    util.bind_role(b, 'combined', type_rx=r'^kyrodb_engine::proto::MetadataFilter$', used_as=(r'TieredEngine::batch_delete_by_metadata_filter$', 1))
    ov = flow.Origin(b, stop_at_vars=True)
    pushes = [c.bb for c in b.calls if c.callee and c.callee.endswith('::push') and c.args and flow.render(ov.of_operand(c.args[0])) == 'var:filtered']
    raw = [c.bb for c in b.calls_to('TieredEngine::batch_delete') if 'filtered' not in flow.render(ov.of_operand(c.args[1]))]
    terms, seen = _explore(b, ATOMS, stop_blocks=set(pushes) | set(raw), max_states=400000)
    bad = []
    for (bb, via, a, p) in terms:
        if bb in pushes and not guard_ok(a):
            bad.append(('filtered.push', a))
        if bb in raw and not (a.get('tenant_some') is False and a.get('ns_empty') is True):
            bad.append(('engine.batch_delete(raw ids)', a))
    ctx.inst('C10.R3', 'rpc batch_delete', 'ids are deleted only after the ownership / namespace check (raw ids only without tenant and selector)',
             len(pushes) >= 3 and len(raw) == 1 and not bad and all(own_rhs_ok(b, flow.Origin(b))),
             ('%s reached with %s' % bad[0]) if bad else '%d guarded push sites, %d raw call' % (len(pushes), len(raw)))
    # what is deleted is the filtered list
    bdcalls = b.calls_to('TieredEngine::batch_delete')
    ctx.inst('C10.R3', 'rpc batch_delete', 'the engine receives the filtered list', sum(1 for c in bdcalls if flow.render(ov.of_operand(c.args[1])) == 'var:filtered') == len(bdcalls) - 1,
             'batch_delete arguments: %s' % [flow.render(ov.of_operand(c.args[1]))[:40] for c in bdcalls])
    # batch_delete by filter: tenant conjunct
    of = flow.Origin(b)
    fpush = [c for c in b.calls if c.callee and c.callee.endswith('::push') and c.args and flow.render(ov.of_operand(c.args[0])) == 'var:filters']
    exact_keys = []
    for c in fpush:
        r = flow.render(of.of_operand(c.args[1]))
        exact_keys.append(r)
    has_t = any('"__tenant_idx__"' in r and 'TenantContext.tenant_index' in r for r in exact_keys)
    has_ns = any('"__namespace__"' in r and 'BatchDeleteRequest.namespace' in r for r in exact_keys)
    tsome = [(i, tg_) for i, blk in enumerate(b.blocks) if blk['t']['k'] == 'switch' for tg_, p in flow.switch_edge_predicates(b, i, ov) if re.match(r'^variant\(var:tenant\) = Some$', p)]
    fd = b.calls_to('TieredEngine::batch_delete_by_metadata_filter')
    okf = has_t and has_ns and bool(fd)
    if okf:
        # on the tenant = Some path the conjunct push dominates the filter delete
        tpush = [c.bb for c in fpush if '"__tenant_idx__"' in flow.render(of.of_operand(c.args[1]))]
        terms, seen = _explore(b, ATOMS, stop_blocks=set(c.bb for c in fd), mark_blocks={'tconj': set(tpush)}, max_states=400000)
        okf = all((a.get('tenant_some') is False or a.get('tconj')) for (bb, via, a, p) in terms if bb in [c.bb for c in fd])
        comb = flow.render(ov.of_operand(fd[0].args[1]))
        okf = okf and comb == 'var:combined'
    ctx.inst('C10.R3', 'rpc batch_delete', 'filter delete carries Exact(__tenant_idx__, tenant_index) (and the namespace conjunct)', okf,
             'conjuncts pushed: tenant %s, namespace %s' % (has_t, has_ns))
    cmb = b.var_local('combined')
    if cmb:
        r = flow.render(of.of_local(cmb[0]))
        ctx.inst('C10.R3', 'rpc batch_delete', 'combined filter is the AND of all pushed filters', 'AndFilter' in r and 'Vec::pop' in r or 'AndFilter' in r, 'combined = %s' % r[:160])
    # bulk_query
    b = bodies['bulk_query']
    # query_responses: the list of per-document answers; found / embedding / metadata: the engine's result for one document, taken apart
    # (found = result.is_some(); (embedding, metadata, _) = result.unwrap_or(..)) before it is checked and put into the answer
    util.bind_role(b, 'query_responses', type_rx=r'^alloc::vec::Vec<kyrodb_engine::proto::QueryResponse>$', origin_rx=NEW_VEC)
    util.bind_role(b, 'found', type_rx=r'^bool$', origin_rx=r'Option::is_some\(')
    util.bind_role(b, 'embedding', type_rx=r'^alloc::vec::Vec<f32>$', origin_rx=r'Option::unwrap_or\(.*\)\.0$')
    util.bind_role(b, 'metadata', type_rx=T_STRMAP, origin_rx=r'Option::unwrap_or\(.*\)\.1\)?$')
    ov = flow.Origin(b, stop_at_vars=True)
    push = [c.bb for c in b.calls if c.callee and c.callee.endswith('::push') and c.args and flow.render(ov.of_operand(c.args[0])) == 'var:query_responses']
    mism = []
    own_edges, ns_edges, found_f, tnone = [], [], [], []
    for i, blk in enumerate(b.blocks):
        if blk['t']['k'] == 'switch' and i in b.live_blocks():
            for tg_, p in flow.switch_edge_predicates(b, i, ov):
                if re.match('^!' + OWN_RX[1:], p):
                    mism.append(('tenant', i, tg_))
                if re.match(OWN_RX, p.lstrip('!')):
                    own_edges.append((i, tg_))
                if re.match(r'^!eq\[var:doc_namespace, .*\.namespace\]$|^!eq\[.*\.namespace, var:doc_namespace\]$', p):
                    mism.append(('namespace', i, tg_))
                if re.match(r'^!?eq\[var:doc_namespace, .*\.namespace\]$|^!?eq\[.*\.namespace, var:doc_namespace\]$', p):
                    ns_edges.append((i, tg_))
                if p == '!bool[var:found]':
                    found_f.append((i, tg_))
                if re.match(r'^variant\(var:tenant\) (= None|∉ \{Some\})$', p):
                    tnone.append((i, tg_))
    fl = b.var_local('found')
    clears_f = [d[0] for l in fl for d in b.defs.get(l, []) if d[2] == 'assign' and flow.render(ov.of_rvalue(d[3]['rv'], 0, frozenset())) in ('0', 'false')]
    other_defs = [d for l in fl for d in b.defs.get(l, []) if d[2] in ('assign', 'call') and d[0] not in clears_f]
    clr_e = [c.bb for c in b.calls if c.callee and c.callee.endswith('::clear') and c.args and flow.render(ov.of_operand(c.args[0])) == 'var:embedding']
    clr_m = [c.bb for c in b.calls if c.callee and c.callee.endswith('::clear') and c.args and flow.render(ov.of_operand(c.args[0])) == 'var:metadata']
    okq = bool(push) and len(mism) >= 2
    detail = []
    for kind, i, tg_ in mism:
        for nm, blks in (('found = false', clears_f), ('embedding.clear()', clr_e), ('metadata.clear()', clr_m)):
            r = b.reach([tg_], avoid_blocks=blks) | ({tg_} - set(blks))
            if any(x in r for x in push):
                okq = False
                detail.append('%s mismatch at %s reaches the response without %s' % (kind, b.loc_of(i), nm))
    ctx.inst('C10.R3', 'rpc bulk_query', 'a tenant / namespace mismatch resets found and clears embedding and metadata', okq, '; '.join(detail) or '%d mismatch edges, each followed by the three resets' % len(mism))
    # the ownership test cannot be skipped while found is true and a tenant is present
    heads = [c for c in b.calls if c.callee and c.is_('re:Iterator>::next$') and push and b.dominates(c.bb, push[0]) and c.bb in b.reach([push[0]])]
    heads = sorted(heads, key=lambda h_: -sum(1 for g in heads if b.dominates(g.bb, h_.bb)))
    okc = False
    if heads and own_edges:
        start = [e[1] for e in flow.success_edges(b, heads[0])]
        r = b.reach(start, avoid_edges=set(own_edges) | set(found_f) | set(tnone))
        okc = not any(x in r for x in push) and len(other_defs) == 1
    ctx.inst('C10.R3', 'rpc bulk_query', 'ownership is tested for every found item of an authenticated tenant', okc,
             'response push reachable without the ownership test (¬found and tenant = None edges excepted): %s; definitions of `found` other than false: %d' % (not okc, len(other_defs)))
    # build_search_response
    bs = ctx.body('C10.R3', 'KyroDBServiceImpl::build_search_response')
    # has_namespace: the request carries a namespace selector; needs_metadata: tenant.is_some() || has_namespace || req.filter.is_some(); final_results: the
    # results of the response; total_found: its saturating counter; candidate: the engine result under inspection (the tenant is a parameter here)
    util.bind_role(bs, 'has_namespace', type_rx=r'^bool$', origin_rx=r'^Not\(String::is_empty\(.*Request\.namespace\)\)$')
    util.bind_role(bs, 'needs_metadata', type_rx=r'^bool$', origin_rx=r'^phi\(1 \| Option::is_some\(.*Request\.filter\)\)$')
    util.bind_role(bs, 'final_results', type_rx=r'^alloc::vec::Vec<kyrodb_engine::proto::SearchResult>$', origin_rx=NEW_VEC)
    util.bind_role(bs, 'total_found', type_rx=r'^u32$', origin_rx=r'^phi\(0 \| num::saturating_add\(_\d+, 1\)\)$')
    util.bind_role(bs, 'candidate', type_rx=r'^kyrodb_engine::hnsw_index::SearchResult$', origin_rx=r'Iterator>::next\(.*\)@Some→Some\.0$')
    bind_namespace_roles(bs)
    ov = flow.Origin(bs, stop_at_vars=True)
    of = flow.Origin(bs)
    rpush = [c.bb for c in bs.calls if c.callee and c.callee.endswith('::push') and c.args and flow.render(ov.of_operand(c.args[0])) == 'var:final_results']
    cnt = [c.bb for c in bs.calls if c.callee and c.callee.endswith('::saturating_add') and c.args and flow.render(ov.of_operand(c.args[0])) == 'var:total_found']
    terms, seen = _explore(bs, ATOMS, stop_blocks=set(rpush) | set(cnt), max_states=400000)
    arr = [t for t in terms if t[0] in rpush or t[0] in cnt]
    nm_l = bs.var_local('needs_metadata')
    nm_o = flow.render(of.of_local(nm_l[0])) if nm_l else ''
    nm_ok = bool(nm_l)
    bad = [a for (bb, via, a, p) in arr if not guard_ok(a, allow_no_metadata=nm_ok)]
    ctx.inst('C10.R3', bs.short, 'results are pushed and counted only past the ownership / namespace guards', bool(rpush) and bool(cnt) and bool(arr) and not bad and all(own_rhs_ok(bs, of)),
             ('reached with %s' % bad[0]) if bad else '%d abstract arrivals at %d push / %d count sites; needs_metadata = %s' % (len(arr), len(rpush), len(cnt), nm_o[:120]))
    # id-range pre-filter
    rng = [(i, tg_) for i, blk in enumerate(bs.blocks) if blk['t']['k'] == 'switch' for tg_, p in flow.switch_edge_predicates(bs, i, ov) if re.match(r'^bool\[TenantIdMapper::is_tenant_doc_id\(.*tenant_index, var:candidate→SearchResult\.doc_id\)\]$', p)]
    ctx.inst('C10.R3', bs.short, 'candidates outside the tenant\'s id range are skipped first', bool(rng), 'guard edges: %s' % rng[:1])

    # ------------------------------------------------------------------ R4
    ctx.rule('C10.R4', 'reserved keys on write: insert, bulk_insert, bulk_load_hnsw and update_metadata remove the three reserved keys from the '
                       'client map before the engine call and re-insert them from the tenant context (writes) or the stored document (update), never from the request')
    WR = {'insert': 'TieredEngine::insert', 'bulk_insert': 'TieredEngine::insert', 'bulk_load_hnsw': 'TieredEngine::bulk_load_cold_tier', 'update_metadata': 'TieredEngine::update_metadata'}
    for h, sink in WR.items():
        b = bodies[h]
        # metadata: the client's map, moved out of the request; documents: the queue of (id, embedding, metadata) rows that bulk_load_hnsw fills
        util.bind_role(b, 'metadata', type_rx=T_STRMAP, origin_rx=r'^(?:var|arg):\w+→\w+Request\.metadata$')
        if h == 'bulk_load_hnsw':
            util.bind_role(b, 'documents', type_rx=r'^alloc::vec::Vec<\(u64, alloc::vec::Vec<f32>, std::collections::hash::map::HashMap<alloc::string::String, alloc::string::String>\)>$', origin_rx=NEW_VEC)
        of = flow.Origin(b)
        ov = flow.Origin(b, stop_at_vars=True)
        sinks = [c.bb for c in b.calls_to(sink)]
        # for bulk_load_hnsw the metadata is queued first
        if h == 'bulk_load_hnsw':
            sinks = [c.bb for c in b.calls if c.callee and c.callee.endswith('::push') and c.args and flow.render(ov.of_operand(c.args[0])) == 'var:documents']
        rem = {}
        ins = {}
        for c in b.calls:
            if c.callee and re.search(r'HashMap<.*>::remove$|HashMap::remove$', c.callee) and len(c.args) >= 2 and flow.render(ov.of_operand(c.args[0])) == 'var:metadata':
                k = flow.render(of.of_operand(c.args[1]))
                rem.setdefault(k, []).append(c.bb)
            if c.callee and re.search(r'HashMap<.*>::insert$|HashMap::insert$', c.callee) and len(c.args) >= 3 and flow.render(ov.of_operand(c.args[0])) == 'var:metadata':
                k = flow.render(of.of_operand(c.args[1]))
                v = flow.render(of.of_operand(c.args[2]))
                ins.setdefault(k, []).append((c.bb, v))
        ok = bool(sinks)
        det = []
        for key in RESERVED:
            rb = [x for k, v in rem.items() if key in k for x in v]
            if not rb or not all(any(b.dominates(r_, s_) for r_ in rb) for s_ in sinks):
                ok = False
                det.append('%s is not removed before the engine call' % key)
            for k, vs in ins.items():
                if key in k:
                    for bb_, v in vs:
                        if not any(b.dominates(r_, bb_) for r_ in rb):
                            ok = False
                            det.append('%s re-inserted before the removal' % key)
                        src_ok = ('TenantContext.' in v) if h != 'update_metadata' else ('get_metadata' in v or 'existing' in v)
                        if key == '"__namespace__"' and h != 'update_metadata':
                            src_ok = 'Request.namespace' in v   # the namespace is the request's own selector (its tenant is fixed by the other two keys)
                        if not src_ok:
                            ok = False
                            det.append('%s re-inserted from %s' % (key, v[:60]))
        # the map handed to the engine is this map
        ctx.inst('C10.R4', 'rpc ' + h, 'reserved keys removed, then set from the server side', ok, '; '.join(det) or 'removes %s; inserts %s' % (sorted(k[:18] for k in rem), sorted(k[:18] for k in ins)))
    sp = ctx.body('C10.R4', 'KyroDBServiceImpl::sanitize_public_metadata')
    keys = sorted(k for b_ in prog.family(sp) for c in b_.calls if c.callee and c.callee.endswith('::remove') and len(c.args) >= 2 for k in removed_keys(prog, b_, c))
    ctx.inst('C10.R4', sp.short, 'sanitize removes exactly the three reserved keys', sorted(k.strip() for k in keys) == sorted(RESERVED), 'removed keys: %s' % keys)

    # ------------------------------------------------------------------ R5
    ctx.rule('C10.R5', 'sanitised responses: the metadata operand of every QueryResponse / SearchResult aggregate originates from '
                       'sanitize_public_metadata, an empty map, or a map cleared on the not-found path')
    n_md = 0
    for b in prog.bodies.values():
        if b.crate != 'kyrodb_server':
            continue
        of = None
        for i, blk in enumerate(b.blocks):
            if i not in b.live_blocks():
                continue
            for s in blk['s']:
                rv = s.get('rv')
                if rv and rv['k'] == 'agg' and rv.get('ak') == 'adt' and re.search(r'proto::(QueryResponse|SearchResult)$', rv.get('adt', '')) and 'metadata' in (rv.get('fields') or []):
                    n_md += 1
                    of = of or flow.Origin(b)
                    ov = flow.Origin(b, stop_at_vars=True)
                    r = flow.render(of.of_operand(rv['ops'][rv['fields'].index('metadata')]))
                    alts = re.sub(r'^phi\((.*)\)$', r'\1', r).split(' | ') if r.startswith('phi(') else [r]
                    ok = all(re.search(r'^KyroDBServiceImpl::sanitize_public_metadata\(|^HashMap::new\(\)$|^<.*Default>::default\(\)$', a) for a in alts)
                    why = ''
                    if not ok and b.root == server.SERVICE_PREFIX + 'bulk_query':
                        # named idiom: found ⇒ sanitised (assignment on the found edge); ¬found ⇒ cleared or the unwrap_or default
                        fe = [(j, tg_) for j, bl in enumerate(b.blocks) if bl['t']['k'] == 'switch' for tg_, p in flow.switch_edge_predicates(b, j, ov) if p == 'bool[var:found]']
                        san = [c.bb for c in b.calls_to('KyroDBServiceImpl::sanitize_public_metadata')]
                        fsw = set(j for j, _ in fe)
                        guard = [(j, tg_) for (j, tg_) in fe if san and san[0] in (b.reach([tg_], avoid_blocks=fsw - {j}) | {tg_})]
                        if guard and san:
                            j, tg_ = guard[0]
                            rr = b.reach([tg_], avoid_blocks=san) | ({tg_} - set(san))
                            ok = b.dominates(j, i) and i not in rr
                            why = ' (bulk_query idiom: the switch on `found` that guards sanitize dominates the response; its true edge always sanitises)'
                            ctx.exception('C10.R5', 'rpc bulk_query', 'metadata variable is sanitised on the `found` edge and cleared / defaulted on every ¬found path (C10.R3 checks the clears)')
                    idx = sum(1 for x in ctx.instances if x.get('config') == ctx.config and x['rule'] == 'C10.R5' and x['key'].startswith('C10.R5 | %s | ' % b.short.split('::{')[0]))
                    ctx.inst('C10.R5', b.short.split('::{')[0], 'response metadata #%d is sanitised or empty' % idx, ok, 'metadata = %s%s' % (r[:140], why))
    ctx.floor('C10.R5', 'response aggregates carrying metadata', n_md, 5, 'query ×4, bulk_query, search result')

    # ------------------------------------------------------------------ R6
    ctx.rule('C10.R6', '/usage scoping: get_all_snapshots is reached only with auth disabled or (scope=all ∧ requester.is_admin); get_snapshot is '
                       'called with the requester\'s own tenant id; the observability middleware requires authentication for /usage whenever auth is enabled')
    uh = [b for b in prog.family(ctx.body('C10.R6', 'kyrodb_server::usage_handler')) if b.calls_to('UsageTracker::get_all_snapshots')]
    if not uh:
        ctx.missing('C10.R6', 'usage_handler: get_all_snapshots')
    else:
        u = uh[0]
        # request_all: the flag the scope match yields (false / true); requester: the ObservabilityAuthContext taken out of the handler's
        # Option<Extension<_>> parameter — whatever the locals on the way are called, the fully expanded origin is parameter@Some.0→Extension.0
        util.bind_role(u, 'request_all', type_rx=r'^bool$', origin_rx=r'^phi\(0 \| 1\)$')
        uv = flow.Origin(u, stop_at_vars=True)
        uf = flow.Origin(u)
        EXT = r'(?:cap|arg):\w+@Some→Some\.0→Extension\.0'
        ctx_l = dict((l, bool(re.match('^' + EXT + '$', flow.render(uf.of_local(l))))) for l, ns in u.varnames.items() if ns and re.search(r'^kyrodb_server::ObservabilityAuthContext$', u.locals[l]))
        req_names = sorted(set(u.varnames[l][0] for l in ctx_l if all(ok_ for l2, ok_ in ctx_l.items() if u.varnames[l2][0] == u.varnames[l][0]))) or ['requester']
        alls = [c.bb for c in u.calls_to('UsageTracker::get_all_snapshots')]
        atoms = [pathsens.Atom('auth', r'^bool\[.*AuthConfig\.enabled\]$'), pathsens.Atom('all', r'^bool\[var:request_all\]$'),
                 pathsens.Atom('admin', r'^bool\[var:(?:%s)→ObservabilityAuthContext\.is_admin\]$' % '|'.join(re.escape(n) for n in req_names))]
        terms, seen = _explore(u, atoms, stop_blocks=set(alls))
        arr = [t for t in terms if t[0] in alls]
        bad = [a for (bb, via, a, p) in arr if not (a.get('auth') is False or (a.get('all') is True and a.get('admin') is True))]
        ctx.inst('C10.R6', 'usage_handler', 'all-tenant snapshots only without auth or for an admin asking for scope=all', bool(arr) and not bad and all(seen.get(n) for n in ('auth', 'all', 'admin')),
                 ('reached with %s' % bad[0]) if bad else '%d arrivals' % len(arr))
        gs = u.calls_to('UsageTracker::get_snapshot')
        a = flow.render(uv.of_operand(gs[0].args[1])) if gs else ''
        a_full = flow.render(uf.of_operand(gs[0].args[1])) if gs else ''
        ctx.inst('C10.R6', 'usage_handler', 'single snapshot is the requester\'s own',
                 bool(gs) and ('var:requester→ObservabilityAuthContext.tenant_id' in a or bool(re.match('^' + EXT + r'→ObservabilityAuthContext\.tenant_id$', a_full))), 'get_snapshot(%s)' % a)
    om = [b for b in prog.find(r'kyrodb_server::observability_auth_middleware') if b.calls]
    okm = False
    det = ''
    for b in om:
        ov = flow.Origin(b, stop_at_vars=True)
        preds = [p for i, blk in enumerate(b.blocks) if blk['t']['k'] == 'switch' for tg_, p in flow.switch_edge_predicates(b, i, ov)]
        if any('"/usage"' in p for p in preds):
            okm = True
            det = [p[:80] for p in preds if '"/usage"' in p][:2]
    ctx.inst('C10.R6', 'observability_auth_middleware', '/usage is treated as a protected path', okm, 'path tests: %s' % det)

    # ------------------------------------------------------------------ R7
    ctx.rule('C10.R7', 'interceptor: main serves the service produced by KyroDbServiceServer::with_interceptor; with auth enabled the interceptor '
                       'returns Ok only past AuthManager::validate = Some and after inserting the TenantContext; validate yields Some only for a '
                       'constant-time key match of an enabled tenant')
    m = server.main_body(ctx, 'C10.R7', 'TieredEngine::recover')
    wi = [c for c in m.calls if c.callee and c.callee.endswith('KyroDbServiceServer::with_interceptor')]
    adds = [c for c in m.calls if c.callee and c.is_('re:::add_service$')]
    mo = flow.Origin(m)
    ok = bool(wi) and bool(adds) and all('with_interceptor' in flow.render(mo.of_operand(a.args[1])) for a in adds)
    ctx.inst('C10.R7', 'kyrodb_server::main', 'the served gRPC service is the intercepted one', ok, 'add_service argument: %s' % [flow.render(mo.of_operand(a.args[1]))[:80] for a in adds])
    ic = [b for b in prog.family(m) if b.kind == 'Closure' and b.calls_to('AuthManager::validate')]
    if not ic:
        ctx.missing('C10.R7', 'main: interceptor closure calling AuthManager::validate')
    else:
        i_ = ic[0]
        iv = flow.Origin(i_, stop_at_vars=True)
        va = i_.calls_to('AuthManager::validate')[0]
        v_succ = flow.success_edges(i_, va)
        # the "auth disabled" edge tests a captured bool: the one into which the parent put ….auth.enabled (the capture is named after a local of main)
        off = [(j, tg_) for j, bl in enumerate(i_.blocks) if bl['t']['k'] == 'switch' for tg_, p in flow.switch_edge_predicates(i_, j, iv)
               for mc in [re.match(r'^!bool\[cap:(\w+)\]$', p)] if mc and (mc.group(1) == 'auth_enabled' or re.search(r'→AuthConfig\.enabled$', captured_value(prog, i_, mc.group(1))))]
        errs = flow.err_blocks(i_)
        ins = [c.bb for c in i_.calls if c.callee and c.callee.endswith('Extensions::insert') and 'TenantContext' in ' '.join(c.ga)]
        r1 = i_.reach([0], avoid_blocks=errs, avoid_edges=set(v_succ) | set(off))
        r2 = i_.reach([0], avoid_blocks=set(ins) | errs, avoid_edges=off)
        ctx.inst('C10.R7', 'interceptor', 'Ok only past validate = Some and the TenantContext insertion (auth disabled excepted)',
                 bool(off) and bool(ins) and not any(x in r1 for x in i_.return_blocks()) and not any(x in r2 for x in i_.return_blocks()) and util.result_use(i_, va) in ('propagated',),
                 'validate result %s; TenantContext inserts %d' % (util.result_use(i_, va), len(ins)))
        # the context is built from the validated tenant and the mapper
        agg = [s for bl in i_.blocks for s in bl['s'] if s.get('rv', {}).get('k') == 'agg' and s['rv'].get('adt', '').endswith('TenantContext')]
        if agg:
            rv = agg[0]['rv']
            io = flow.Origin(i_)
            tid = flow.render(io.of_operand(rv['ops'][rv['fields'].index('tenant_id')]))
            tix = flow.render(io.of_operand(rv['ops'][rv['fields'].index('tenant_index')]))
            ctx.inst('C10.R7', 'interceptor', 'TenantContext comes from the validated key', 'AuthManager::validate' in tid and 'ensure_tenant' in tix and 'AuthManager::validate' in tix,
                     'tenant_id = %s…; tenant_index = %s…' % (tid[:60], tix[:60]))
    av = ctx.body('C10.R7', 'AuthManager::validate')
    # tenant_info: the TenantInfo of the key-table entry under comparison; validated: the Option<TenantInfo> the function builds and returns
    util.bind_role(av, 'tenant_info', type_rx=r'^&kyrodb_engine::auth::TenantInfo$', origin_rx=r'Iterator>::next\(.*\)@Some→Some\.0\.1$')
    util.bind_role(av, 'validated', type_rx=r'^core::option::Option<kyrodb_engine::auth::TenantInfo>$', origin_rx=r'option::Option::None\{\}')
    avv = flow.Origin(av, stop_at_vars=True)
    ct = [(j, tg_) for j, bl in enumerate(av.blocks) if bl['t']['k'] == 'switch' for tg_, p in flow.switch_edge_predicates(av, j, avv) if re.match(r'^cmp\[\+ .*Choice::unwrap_u8\(.*ct_eq.*\) == 1\]$', p)]
    en = [(j, tg_) for j, bl in enumerate(av.blocks) if bl['t']['k'] == 'switch' for tg_, p in flow.switch_edge_predicates(av, j, avv) if re.match(r'^bool\[var:tenant_info→TenantInfo\.enabled\]$', p)]
    some = [d[0] for l in av.var_local('validated') for d in av.defs.get(l, []) if d[2] == 'assign' and 'Some' in flow.render(avv.of_rvalue(d[3]['rv'], 0, frozenset()))]
    # The answer may also be written straight into the return place (`return Some(tenant_info.clone())` / `return None` / a trailing `None` instead of
    # `validated = Some(..); break` … `validated`).  Every definition of the return place is then classified: a copy of the `validated` variable (whose Some
    # assignments are the ones above), the None aggregate, or a Some aggregate — which is a Some-assignment like the others and must sit behind both guards.
    # Anything else (the result of a call, a copy of another variable) is not a recognised way to answer and fails.
    ret_other = []
    for d in av.defs.get(0, []):
        r_ = flow.render(avv.of_rvalue(d[3]['rv'], 0, frozenset({0}))) if d[2] == 'assign' else None
        if r_ is not None and re.search(r'option::Option::Some\{', r_):
            some.append(d[0])
        elif r_ not in ('var:validated', 'option::Option::None{}'):
            ret_other.append(r_ if r_ is not None else '%s at bb%d' % (d[2], d[0]))
    r1 = av.reach([0], avoid_edges=ct)
    r2 = av.reach([0], avoid_edges=en)
    ret = flow.render(avv.of_local(0))
    ctx.inst('C10.R7', av.short, 'Some only for a constant-time match of an enabled tenant',
             bool(ct) and bool(en) and bool(some) and not any(x in r1 or x in r2 for x in some) and bool(av.defs.get(0)) and not ret_other,
             'ct_eq guard %s, enabled guard %s, Some-assignments %s%s' % (ct[:1], en[:1], sorted(set(some)), ('; the function also answers with %s' % [x[:80] for x in ret_other[:2]]) if ret_other else ''))
    # ------------------------------------------------------------------ R8 tenant indexes are unique
    ctx.rule('C10.R8', 'tenant index allocation is injective: the tenant → index map is either the persisted map unchanged, or a map created empty in the same '
                       'function and filled with the positions of a sorted, de-duplicated id list; afterwards the only insertion gives a new tenant the index '
                       'len(map) under the write lock (dense 0..len−1 ⇒ fresh), the only removal undoes that insertion when persisting fails, and nobody else '
                       'takes the map for writing. Every isolation mechanism (global id, reserved keys, cache scope) keys on this index')
    tm_bodies = [b for b in prog.bodies.values() if '::TenantIdMapper::' in b.id and b.kind != 'Promoted']
    n_w = 0
    for b in sorted(tm_bodies, key=lambda x: x.id):
        of8 = flow.Origin(b)
        for c in b.calls:
            if not (c.callee and c.args and re.search(r'HashMap<.*>::(insert|entry|extend|retain|clear|remove|drain|get_mut|iter_mut|values_mut)$|HashMap::(insert|entry|extend|retain|clear|remove|drain|get_mut|iter_mut|values_mut)$', flow.short(c.callee))):
                continue
            recv = flow.render(of8.of_operand(c.args[0]))
            if 'TenantIdMapper.map' not in recv and not re.match(r'^HashMap::(with_capacity|new)\(', recv) and 'de::from_slice' not in recv:
                continue
            n_w += 1
            meth = flow.short(c.callee).split('::')[-1]
            fn = b.short.split('::{')[0]
            k8 = sum(1 for x in ctx.instances if x.get('config') == ctx.config and x['rule'] == 'C10.R8' and x['key'].startswith('C10.R8 | %s | map.%s' % (fn, meth)))
            if meth == 'insert':
                val = flow.render(of8.of_operand(c.args[2]))
                fresh = bool(re.match(r'^<T as convert::TryInto<U>>::try_into\(HashMap::len\(%s\)\)@Continue→Continue\.0$' % re.escape(recv), val)) and 'RwLock::write(' in recv
                enum_ = bool(re.match(r'^HashMap::(with_capacity|new)\(', recv)) and bool(re.match(r'^<T as convert::TryInto<U>>::try_into\(<enumerate::Enumerate<I> as iterator::Iterator>::next\(Iterator::enumerate\(', val)) and val.endswith('@Some→Some.0.0)@Continue→Continue.0')
                dd = [x for x in b.calls if x.callee and x.callee.endswith('Vec::dedup') and b.dominates(x.bb, c.bb)]
                srt = [x for x in b.calls if x.callee and re.search(r'slice::sort(_unstable)?$', flow.short(x.callee)) and any(b.dominates(x.bb, d.bb) for d in dd)]
                ok = fresh or (enum_ and bool(dd) and bool(srt))
                ctx.inst('C10.R8', fn, 'map.insert #%d gives a fresh index' % k8, ok,
                         ('index = len(map) under the write lock' if fresh else 'fresh map filled with positions of the sorted, de-duplicated id list' if ok else
                          'insert into %s with index %s: neither len(map) under the write lock nor the position in a de-duplicated list filling an empty map — two tenants can share an index' % (recv[:50], val[:90])))
            elif meth == 'remove':
                # only to undo the insertion of this call when persisting failed
                ins = [x for x in b.calls if x.callee and flow.short(x.callee).endswith('HashMap::insert') and b.dominates(x.bb, c.bb)]
                per = [x for x in b.calls if x.callee and x.callee.endswith('TenantIdMapper::persist_map_atomic')]
                f_e = [e for x in per for e in (flow.failure_edges(b, x) or [])]
                on_fail = bool(f_e) and c.bb in (b.reach([e[1] for e in f_e]) | set(e[1] for e in f_e)) and c.bb not in b.reach([0], avoid_edges=f_e)
                same_key = bool(ins) and flow.render(of8.of_operand(c.args[1])) == 'arg:tenant_id'
                ctx.inst('C10.R8', fn, 'map.remove #%d only undoes this call\'s insertion after a failed persist' % k8, bool(ins) and on_fail and same_key, 'after insert: %s; on the persist failure edge only: %s' % (bool(ins), on_fail))
            else:
                ctx.inst('C10.R8', fn, 'map.%s #%d is not a recognised way to allocate an index' % (meth, k8), False,
                         '%s on %s at %s: the allocation must be insert(len(map)) or filling an empty map by position' % (meth, recv[:60], c.loc))
        for i_, blk in enumerate(b.blocks):
            for st in blk['s']:
                rv = st.get('rv')
                if rv and rv['k'] == 'agg' and rv.get('adt', '').endswith('TenantIdMapper') and 'map' in (rv.get('fields') or []):
                    mo = flow.render(of8.of_operand(rv['ops'][rv['fields'].index('map')]))
                    ok = bool(re.match(r'^RwLock::new\((de::from_slice\(fs::read\(arg:path\)@Continue→Continue\.0\)@Continue→Continue\.0|HashMap::(with_capacity|new)\(.*\))\)$', mo))
                    k8 = sum(1 for x in ctx.instances if x.get('config') == ctx.config and x['rule'] == 'C10.R8' and x['key'].startswith('C10.R8 | %s | mapper built' % b.short))
                    ctx.inst('C10.R8', b.short, 'mapper built #%d from the persisted map as is, or from a map created empty here' % k8, ok, 'map = %s' % mo[:110])
    ctx.floor('C10.R8', 'write calls on the tenant map', n_w, 3, 'load_or_create insert, ensure_tenant insert + remove')
    writers = sorted(set(c.body.short.split('::{')[0] for c in prog.all_calls() if c.callee and re.search(r'RwLock<.*>::write$|RwLock::write$', flow.short(c.callee)) and c.args and
                         'TenantIdMapper.map' in flow.render(flow.Origin(c.body).of_operand(c.args[0]))))
    ctx.inst('C10.R8', 'TenantIdMapper.map', 'write access only in ensure_tenant', [w.split('::', 1)[-1] for w in writers] == ['TenantIdMapper::ensure_tenant'], 'writers: %s' % writers)
    ctx.stat('functions_analysed', len(set(i['key'].split(' | ')[1] for i in ctx.instances)))

    # ------------------------------------------------------------------ R9
    ctx.rule('C10.R9', 'a filter names the documents it was evaluated on: BatchDelete-by-filter and filtered search resolve a tenant-scoped metadata filter '
                       'through the inverted index to internal slots; every function that renumbers or rewrites slots (tombstone compaction, upsert, delete) '
                       'maintains the index on every path to a normal return, so a posting never points at a slot that now holds another tenant\'s document '
                       '(same analysis as C11.R2)')
    from rules import C11 as _C11
    _C11.maintenance_pairing(ctx, prog, 'C10.R9')
    # ------------------------------------------------------------------ R10
    ctx.rule('C10.R10', 'a key carries the identity declared WITH it: every insertion into the key table (AuthManager::load_from_file, add_key) stores, under a key, '
                        'the TenantInfo of the same file entry / the caller\'s argument — not a value looked up by tenant id or shared between keys (enabled and is_admin '
                        'are per-key flags: a shared record lets a revoked key authenticate and a plain key pass the admin check of /usage); the table installed is '
                        'the one built')
    n10 = 0
    for b in prog.bodies.values():
        if 'auth::AuthManager::' not in b.id or b.kind != 'AssocFn':
            continue
        of10 = flow.Origin(b)
        for c in b.calls:
            if c.callee and flow.short(c.callee) == 'Iterator::collect' and c.args and c.ga and re.match(KEY_TABLE, c.ga[-1]):
                # the table built without an explicit insert: entries.into_iter().map(|entry| (key, value)).collect::<HashMap<String, TenantInfo>>() inserts
                # every pair the closure returns; the pair must be (entry.key, entry.tenant_info) of the closure's own argument
                n10 += 1
                src = flow.render(of10.of_operand(c.args[0]))
                mc = re.match(r'^Iterator::map\(.*, closure:[^,]*(\{closure#\d+\})\{[^{}]*\}\)$', src)
                clo = prog.bodies.get(b.id + '::' + mc.group(1)) if mc else None
                pair = flow.render(flow.Origin(clo).of_local(0)) if clo is not None else ''
                k10 = sum(1 for x in ctx.instances if x.get('config') == ctx.config and x['rule'] == 'C10.R10' and x['key'].startswith('C10.R10 | %s | key table insert' % b.short))
                ctx.inst('C10.R10', b.short, 'key table insert #%d stores the TenantInfo declared with the key' % k10,
                         bool(re.match(r'^tuple\{(arg:\w+)→ApiKeyEntry\.key, \1→ApiKeyEntry\.tenant_info\}$', pair)), 'collect(%s) with pairs %s' % (src[-90:], pair[:110] or '?'))
                continue
            if not (c.callee and re.search(r'HashMap(<.*>)?::insert$', flow.short(c.callee)) and len(c.args) == 3):
                continue
            if 'TenantInfo' not in b.locals[c.args[2]['pl']['l']] if c.args[2].get('k') in ('mv', 'cp') else True:
                continue
            n10 += 1
            kx = flow.render(of10.of_operand(c.args[1]))
            vx = flow.render(of10.of_operand(c.args[2]))
            same = False
            mk = re.match(r'^(.*)→ApiKeyEntry\.key$', kx)
            if mk and vx == mk.group(1) + '→ApiKeyEntry.tenant_info':
                same = True
            if kx == 'arg:key' and vx == 'arg:tenant_info':
                same = True
            k10 = sum(1 for x in ctx.instances if x.get('config') == ctx.config and x['rule'] == 'C10.R10' and x['key'].startswith('C10.R10 | %s | key table insert' % b.short))
            ctx.inst('C10.R10', b.short, 'key table insert #%d stores the TenantInfo declared with the key' % k10, same,
                     'insert(%s, %s)' % (kx[-70:], vx[-110:]))
    ctx.floor('C10.R10', 'insertions into the key table', n10, 2, 'load_from_file, add_key')
    lf = ctx.body('C10.R10', 'AuthManager::load_from_file')
    if lf is not None:
        # keys: the key table this function builds from the file (created empty here and filled, or collected)
        util.bind_role(lf, 'keys', type_rx=KEY_TABLE, origin_rx=r'^(HashMap::(new|with_capacity)|Iterator::collect)\(')
        ov10 = flow.Origin(lf, stop_at_vars=True)
        inst = []
        for i_, blk in enumerate(lf.blocks):
            for st in blk['s']:
                if 'rv' in st and st['pl'].get('p') == ['*'] and 'HashMap<alloc::string::String, ' in lf.locals[st['pl']['l']] and 'TenantInfo' in lf.locals[st['pl']['l']]:
                    inst.append(flow.render(ov10.of_rvalue(st['rv'], 0, frozenset({-1}))))
        ctx.inst('C10.R10', lf.short, 'the installed key table is the one built from the file', bool(inst) and set(inst) == {'var:keys'}, 'installed: %s' % sorted(set(inst)))
    index_key_is_the_authenticated_id(ctx, prog)
    usage_sources_closed(ctx, prog)
    tenant_map_durable(ctx, prog)
    ctx.stat('functions_analysed', len(set(i['key'].split(' | ')[1] for i in ctx.instances)))


# ---------------------------------------------------------------------- R11
def _validated_field(e, field):
    """e is `<AuthManager::validate(..) result>.field` read as is: the field of the validated TenantInfo below nothing but variant / tuple projections
    (clone, as_str, deref, `?` are transparent for origins; any other call — to_lowercase, trim, format! — is not)."""
    if e[0] != 'field' or not e[2].endswith(field):
        return False
    x = e[1]
    while x[0] in ('downcast', 'field') and (x[0] == 'downcast' or re.match(r'^\.\d+$', x[2]) or re.search(r'(Continue|Some|Ok)\.0$', x[2])):
        x = x[1]
    return x[0] == 'call' and bool(re.search(r'AuthManager::validate$', x[1]))


def index_key_is_the_authenticated_id(ctx, prog):
    ctx.rule('C10.R11', 'the index is looked up under the authenticated tenant id itself: in the auth interceptor the key handed to TenantIdMapper::ensure_tenant and the '
                        'tenant_id put into the TenantContext are the tenant_id of the TenantInfo that AuthManager::validate returned, unmodified, and ensure_tenant reads '
                        'and fills the map under its argument as is. R8 proves the allocation injective per MAP KEY; tenant ids are case-sensitive, so a key that is a '
                        'function of the id (lower-cased, trimmed, truncated) sends two tenants to one index — and with it to one id range, one __tenant_idx__ and one cache scope')
    m = ctx.body('C10.R11', 'kyrodb_server::main')
    ic = [b for b in prog.family(m) if b.kind == 'Closure' and b.calls_to('AuthManager::validate')]
    if not ic:
        ctx.missing('C10.R11', 'main: interceptor closure calling AuthManager::validate')
    else:
        i_ = ic[0]
        io = flow.Origin(i_)
        et = i_.calls_to('TenantIdMapper::ensure_tenant')
        if not et:
            ctx.missing('C10.R11', 'interceptor: call of TenantIdMapper::ensure_tenant')
        for k, c in enumerate(et):
            e = io.of_operand(c.args[1]) if len(c.args) > 1 else ('local', -1)
            ok = _validated_field(e, 'TenantInfo.tenant_id')
            r = flow.render(e)
            ctx.inst('C10.R11', 'interceptor', 'ensure_tenant #%d is keyed by the validated tenant id as is' % k, ok,
                     'key = %s%s' % ((r[:40] + ' … ' + r[-60:]) if len(r) > 110 else r, '' if ok else
                                     ' at %s: not the tenant_id of the validated TenantInfo itself — two tenants whose ids differ only in what the transformation drops share one index' % c.loc))
        agg = [s for bl in i_.blocks for s in bl['s'] if s.get('rv', {}).get('k') == 'agg' and s['rv'].get('adt', '').endswith('TenantContext')]
        for k, s in enumerate(agg):
            rv = s['rv']
            e = io.of_operand(rv['ops'][rv['fields'].index('tenant_id')])
            ok = _validated_field(e, 'TenantInfo.tenant_id')
            r = flow.render(e)
            ctx.inst('C10.R11', 'interceptor', 'TenantContext #%d carries the validated tenant id as is' % k, ok,
                     'tenant_id = %s' % ((r[:40] + ' … ' + r[-60:]) if len(r) > 110 else r))
    en = ctx.body('C10.R11', 'TenantIdMapper::ensure_tenant')
    oe = flow.Origin(en)
    n_k = 0
    bad = []
    for c in en.calls:
        sh = flow.short(c.callee or '')
        mm = re.search(r'HashMap(?:<.*>)?::(get|get_mut|contains_key|insert|entry|remove|get_key_value)$', sh)
        if not (mm and len(c.args) >= 2 and 'TenantIdMapper.map' in flow.render(oe.of_operand(c.args[0]))):
            continue
        n_k += 1
        kx = flow.render(oe.of_operand(c.args[1]))
        if kx not in ('arg:tenant_id', '<T as string::ToString>::to_string(arg:tenant_id)', 'String::from(arg:tenant_id)', 'str::to_string(arg:tenant_id)', 'str::to_owned(arg:tenant_id)'):
            bad.append('%s(%s) at %s' % (mm.group(1), kx[:80], c.loc))
    ctx.inst('C10.R11', en.short, 'the map is read and filled under the argument as is', n_k >= 3 and not bad,
             ('map access under a key that is not the argument itself: %s' % bad[:2]) if bad else '%d keyed map accesses, all under arg:tenant_id' % n_k)


# ---------------------------------------------------------------------- R12
USAGE_STATE_OK = {'usage_tracker': 'per-tenant snapshots, reached only under the guards of R6', 'app_config': 'static configuration', 'engine_config': 'static configuration',
                  'start_time': 'process start time', 'metrics': 'process-wide aggregate counters (outside the property)'}


def usage_sources_closed(ctx, prog):
    ctx.rule('C10.R12', 'closed sources of the /usage report: the handler touches the server state only through usage_tracker (whose two accessors R6 guards) and '
                        'static / process-wide components (app_config, engine_config, start_time, metrics); it reads no other component of ServerState (engine, auth, '
                        'rate limiter, tenant mapper, quota tables hold data of ALL tenants and nothing scopes them to the requester) and hands the state to no other '
                        'function. A number taken from there — e.g. totals.vector_count from engine.stats() — lets any tenant watch the others\' writes and deletes')
    uh = prog.family(ctx.body('C10.R12', 'kyrodb_server::usage_handler'))
    seen = {}
    handed = []
    n_state = 0
    for b in uh:
        st_locals = set(l for l, t in enumerate(b.locals) if re.search(r'kyrodb_server::ServerState\b', t))
        n_state += len(st_locals)

        def note(pl, loc):
            for x in (pl.get('p') or []):
                if isinstance(x, str):
                    mm = re.search(r'ServerState\.(\w+)$', x)
                    if mm:
                        seen.setdefault(mm.group(1), loc)
        for i in sorted(b.live_blocks()):
            blk = b.blocks[i]
            for s in blk['s']:
                if 'pl' in s:
                    note(s['pl'], s.get('loc', '?'))
                rv = s.get('rv')
                if rv:
                    for o in ([rv.get('a'), rv.get('b')] + list(rv.get('ops') or [])):
                        if o and o.get('k') in ('mv', 'cp'):
                            note(o['pl'], s.get('loc', '?'))
                    if rv.get('pl'):
                        note(rv['pl'], s.get('loc', '?'))
            t = blk['t']
            for o in list(t.get('args') or []) + ([t['on']] if t.get('on') else []):
                if o.get('k') in ('mv', 'cp'):
                    note(o['pl'], t.get('loc', '?'))
            if t.get('dest'):
                note(t['dest'], t.get('loc', '?'))
        for c in b.calls:
            if any(a.get('k') in ('mv', 'cp') and not a['pl'].get('p') and a['pl']['l'] in st_locals for a in c.args):
                g = prog.resolve_local(c.callee) if c.callee else None
                if g is not None or c.callee is None:
                    handed.append('%s at %s' % (flow.short(c.callee) if c.callee else 'an indirect callee', c.loc))
    foreign = sorted((f, loc) for f, loc in seen.items() if f not in USAGE_STATE_OK)
    ctx.inst('C10.R12', 'usage_handler', 'reads tenant data only through the usage tracker', bool(seen.get('usage_tracker')) and not foreign and not handed,
             ('; '.join(['ServerState.%s read at %s: holds data of every tenant, unscoped' % fl for fl in foreign[:3]] + ['server state handed to %s' % h for h in handed[:2]]))
             if (foreign or handed) else 'components of ServerState read: %s' % sorted(seen))
    ctx.floor('C10.R12', 'locals of usage_handler that hold the server state', n_state, 1, 'the AxumState extractor and its derefs')


# ---------------------------------------------------------------------- R13
def tenant_map_durable(ctx, prog):
    ctx.rule('C10.R13', 'an index is handed out only once the map that contains it is durable: persist_map_atomic is write_all(tmp) ≺ sync_all(tmp) ≺ rename(tmp → path) '
                        '≺ sync_all(parent directory) ≺ Ok, and ensure_tenant returns a newly allocated index only past persist_map_atomic = Ok. Documents are durable (WAL) '
                        'under the index; if a power failure can roll tenants.json back behind an index already in use, the next new tenant is given len(map) = that same '
                        'index and owns the documents')
    p = ctx.body('C10.R13', 'TenantIdMapper::persist_map_atomic')
    o = flow.Origin(p)
    wr = [c for c in p.calls if c.callee and re.search(r'Write(>)?::write_all$', c.callee)]
    syn = [c for c in p.calls if c.callee and re.search(r'fs::File::sync_(all|data)$', c.callee)]
    ren = [c for c in p.calls if c.callee and c.callee.endswith('std::fs::rename')]
    tmpf = [c for c in syn if 'OpenOptions::open(' in flow.render(o.of_operand(c.args[0])) or 'File::create(' in flow.render(o.of_operand(c.args[0]))]
    # the directory handle: opened read-only (File::open) on the parent of the path argument itself, not on something joined below it
    dirs = [c for c in syn if c.callee.endswith('sync_all') and (lambda r_: r_.startswith('File::open(') and 'Path::parent(arg:path)' in r_ and 'Path::join(' not in r_)(flow.render(o.of_operand(c.args[0])))]
    steps = [util.Step('write_all(tmp)', p, [c.bb for c in wr]), util.Step('sync_all(tmp)', p, [c.bb for c in tmpf]),
             util.Step('rename(tmp → path)', p, [c.bb for c in ren]), util.Step('sync_all(parent dir)', p, [c.bb for c in dirs])]
    WHY = {'write_all(tmp)': 'nothing is written to the temp file', 'sync_all(tmp)': 'the temp file is not fsynced before the rename: after a power failure tenants.json can be '
           'empty or cut short although the rename is on disk', 'rename(tmp → path)': 'the temp file is never moved onto the path argument',
           'sync_all(parent dir)': 'the rename itself is not made durable (no fsync of the parent directory): after a power failure the OLD tenants.json is back while documents '
           'written under the new index are in the WAL'}
    for st in steps:
        ctx.inst('C10.R13', p.short, 'step %s is present' % st.name, bool(st.blocks), ('%d call site(s)' % len(st.blocks)) if st.blocks else WHY[st.name])
    present = [st for st in steps if st.blocks]
    if len(present) >= 2:
        util.check_chain(ctx, 'C10.R13', p, present)
    if wr and tmpf and ren:
        wf = flow.render(o.of_operand(wr[0].args[0]))
        sf = flow.render(o.of_operand(tmpf[0].args[0]))
        src = flow.render(o.of_operand(ren[0].args[0]))
        dst = flow.render(o.of_operand(ren[0].args[1]))
        opened = [flow.render(o.of_operand(c.args[1])) for c in p.calls if c.callee and c.callee.endswith('OpenOptions::open') and len(c.args) > 1]
        ctx.inst('C10.R13', p.short, 'the file written is the file synced and renamed onto the path argument', wf == sf and src in opened and dst == 'arg:path',
                 'write_all/sync_all on the same handle: %s; rename(source is the opened temp: %s → %s)' % (wf == sf, src in opened, dst))
    en = ctx.body('C10.R13', 'TenantIdMapper::ensure_tenant')
    oe = flow.Origin(en)
    ins = [c for c in en.calls if c.callee and re.search(r'HashMap(<.*>)?::insert$', flow.short(c.callee)) and c.args and 'TenantIdMapper.map' in flow.render(oe.of_operand(c.args[0]))]
    per = en.calls_to('TenantIdMapper::persist_map_atomic')
    if not ins or not per:
        ctx.missing('C10.R13', 'ensure_tenant: map insert followed by persist_map_atomic')
        return
    s_e = [e for c in per for e in flow.success_edges(en, c)]
    tested = all(flow.outcome_edges(en, c)[0] is not None for c in per)
    r = en.reach([c.bb for c in ins], avoid_blocks=flow.err_blocks(en), avoid_edges=s_e)
    okr = tested and not any(x in r for x in en.return_blocks())
    ctx.inst('C10.R13', en.short, 'a new index is returned only past persist_map_atomic = Ok', okr,
             'Ok return reachable from the insertion without a successful persist: %s' % (not okr))
