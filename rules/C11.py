"""C11 — metadata filters select exactly the matching documents.

Decided statically: the compiled (inverted-index) evaluation and the reference predicate induce the same finite table —
per range-bound variant the comparison operator on the numeric and on the lexicographic branch versus the BTreeMap range
bounds of the two index lookups (16 cells), per filter variant the combinator; every write of document metadata or
liveness is paired with index maintenance; the selected ids are intersected with the live set and mapped through the
live id table; uncompilable shapes fall back to the reference predicate; both sides parse the stored value / the bound
untouched; OrderedF64 keys order like the f64 values on a finite table of IEEE edge values (MIR of from_f64 evaluated, ±0 share a
key); the pre-image handed to remove_doc / replace_doc is the slot's stored metadata.  OrderedF64's order outside that table and
behaviour over histories are not decided.
"""
import re

from kvstatic import flow, rt, util
from kvstatic.facts import strip_generics as facts_strip

MANIFEST = {
    'text': 'Decides table agreement between the two sibling implementations of filter semantics (metadata_filter::matches* '
            'versus compile_filter_to_bitmap / bitmap_for_range_*): 4 bound variants × {numeric, lexical} × {reference operator, '
            'index range bounds} = 16 cells plus the 7-row combinator table (Exact, In, And, Or, Not, Range, None incl. the empty '
            'forms), the shared number parser, and the numeric/lexical split; plus index-maintenance pairing with every metadata / '
            'liveness write and alive-intersection + id mapping of the result. Cell-by-cell agreement is a necessary condition of '
            'the property. Added after the gap audit: the parsed strings are untransformed on both sides, OrderedF64::from_f64 is evaluated on a '
            'table of IEEE edge values (order embedding, −0.0/+0.0 share a key; outside the table not decided), and every pre-image given to '
            'remove_doc / replace_doc originates from DocumentStore.metadata[slot].',
    'design_ref': 'DESIGN.md §4.11',
    'note': 'Trusted base: rustc MIR; operators are read from the value assigned to the return place in each variant arm, range '
            'bounds from the tuple passed to BTreeMap::range.',
    'technique': 'variant-table extraction from switch arms and cell-by-cell comparison of sibling implementations on MIR',
}

EXPLANATION = 'TABLE/DOM/FLOW rules of DESIGN §4.11 on metadata_filter.rs and the inverted index in hnsw_backend.rs.'

CANON = {'Gte': ('Ge', ('Included', 'Unbounded')), 'Lte': ('Le', ('Unbounded', 'Included')),
         'Gt': ('Gt', ('Excluded', 'Unbounded')), 'Lt': ('Lt', ('Unbounded', 'Excluded'))}


def variant_switches(body, origin, place_rx, variants):
    """Switch blocks whose edges test `variant(place) = V` for the given variants; returns list of {V: target}."""
    out = []
    rx = re.compile(place_rx)
    for i, blk in enumerate(body.blocks):
        if blk['t']['k'] != 'switch' or i not in body.live_blocks():
            continue
        m = {}
        for tg, p in flow.switch_edge_predicates(body, i, origin):
            mm = re.match(r'^variant\((.*)\) = (\w+)$', p)
            if mm and rx.search(mm.group(1)) and mm.group(2) in variants:
                m[mm.group(2)] = tg
        if m:
            out.append((i, m))
    return out


def arm_blocks(body, sw, target, all_targets):
    others = [t for t in all_targets if t != target]
    r = body.reach([target], avoid_blocks=others + [sw]) | {target}
    # cut where the arms join: blocks reachable from another arm too
    joined = set()
    for o in others:
        joined |= body.reach([o], avoid_blocks=[sw]) | {o}
    return [b for b in r if b not in joined]


def _aligned_shape(body, e):
    """Item shape of an iterator expression (origin tree) whose k-th item belongs to slot k: `slice::iter(arg:X)` (or the slice argument itself, handed to an
    IntoIterator parameter) yields X[0], X[1], … in order; `zip` pairs the k-th items of both sides and ends with the shorter one; `enumerate` numbers the items from 0.
    Returns (shape, [calls of the adaptor chain]) with shape = ('slot', 'X') | ('idx',) | ('pair', a, b); None when anything else takes part (skip, rev, filter,
    step_by, chain, take, a range, a collection that is not a slice parameter …): nothing is concluded about which slot an item belongs to."""
    if e[0] == 'arg' and re.match(r'^&\[.*\]$', body.locals[e[1]] or ''):
        return ('slot', e[2]), []
    if e[0] != 'call' or len(e) < 4 or e[3] is None:
        return None
    c = e[3]
    if c.orig == 'core::slice::iter' and len(e[2]) == 1 and e[2][0][0] == 'arg' and re.match(r'^&\[.*\]$', body.locals[e[2][0][1]] or ''):
        return ('slot', e[2][0][2]), [c]
    if c.orig == 'core::iter::traits::iterator::Iterator::zip' and len(e[2]) == 2:
        a, b = _aligned_shape(body, e[2][0]), _aligned_shape(body, e[2][1])
        return (('pair', a[0], b[0]), a[1] + b[1] + [c]) if a and b else None
    if c.orig == 'core::iter::traits::iterator::Iterator::enumerate' and len(e[2]) == 1:
        a = _aligned_shape(body, e[2][0])
        return (('pair', ('idx',), a[0]), a[1] + [c]) if a else None
    return None


def _shape_leaves(s):
    return [s] if s[0] != 'pair' else _shape_leaves(s[1]) + _shape_leaves(s[2])


def _mentions_iterator(x, nxc, chain):
    """Does the origin tree x hold the iterator built by the adaptor calls `chain` itself (not an item the `next` call nxc took out of it)?"""
    t = x[0]
    if t == 'call':
        if len(x) > 3 and x[3] is nxc:
            return False
        if len(x) > 3 and x[3] in chain:
            return True
        return any(_mentions_iterator(a, nxc, chain) for a in x[2])
    if t in ('field', 'index', 'downcast', 'discr', 'cast', 'set'):
        return _mentions_iterator(x[1], nxc, chain)
    if t == 'bin':
        return _mentions_iterator(x[2], nxc, chain) or _mentions_iterator(x[3], nxc, chain)
    if t == 'un':
        return _mentions_iterator(x[2], nxc, chain)
    if t == 'agg':
        return any(_mentions_iterator(a, nxc, chain) for a in x[2])
    if t == 'phi':
        return any(_mentions_iterator(a, nxc, chain) for a in x[1])
    return False


def _aligned_next(body, e):
    """e = the result of `Iterator::next` on an aligned iterator (above): (the next call, item shape, chain calls); None otherwise."""
    if e[0] != 'call' or len(e) < 4 or e[3] is None or e[3].orig != 'core::iter::traits::iterator::Iterator::next' or len(e[2]) != 1:
        return None
    sh = _aligned_shape(body, e[2][0])
    return (e[3], sh[0], sh[1]) if sh else None


def _aligned_item(body, e):
    """e = a component of the item bound by `Some(item) = it.next()` (tuple projections of the Some payload; an integer widening `as` on top is looked through):
    (the next call, the leaf shape that component is); None otherwise."""
    while e[0] == 'cast':
        e = e[1]
    path = []
    while e[0] == 'field' and re.match(r'^\.\d+$', e[2]):
        path.append(int(e[2][1:]))
        e = e[1]
    if not (e[0] == 'field' and e[2].endswith('Option::Some.0') and e[1][0] == 'downcast' and e[1][2] == 'Some'):
        return None
    nx = _aligned_next(body, e[1][1])
    if not nx:
        return None
    sh = nx[1]
    for k in reversed(path):
        if sh[0] != 'pair' or k > 1:
            return None
        sh = sh[1 + k]
    return nx[0], sh


def maintenance_pairing(ctx, prog, rid):
    """Every HnswBackend function that writes DocumentStore.metadata / .internal_to_external reaches the inverted-index maintenance on every path to a normal
    return.  Shared: C11.R2 (filter answers agree with the reference predicate) and C10.R9 (a filter-resolved id set names the documents that were filtered —
    a stale posting after slot renumbering resolves one tenant's filter to another tenant's documents)."""
    MAINT = ['MetadataInvertedIndex::insert_doc', 'MetadataInvertedIndex::remove_doc', 'MetadataInvertedIndex::replace_doc', 'MetadataInvertedIndex::rebuild_from']
    n_w = 0
    for b in prog.bodies.values():
        if 'hnsw_backend::HnswBackend::' not in b.id or b.kind != 'AssocFn':
            continue
        of = flow.Origin(b)
        wblocks = []
        for c in b.calls:
            if c.callee and c.args and re.search(r'::(push|clear|insert|remove|take|index_mut)$', c.callee):
                r = flow.render(of.of_operand(c.args[0]))
                if re.search(r'DocumentStore\.(metadata|internal_to_external)(\[\])?\)*$', r):
                    wblocks.append(c.bb)
        for i, blk in enumerate(b.blocks):
            if i not in b.live_blocks():
                continue
            for s in blk['s']:
                if 'rv' in s and s['pl'].get('p'):
                    fs = [x for x in s['pl']['p'] if isinstance(x, str) and x != '*']
                    if fs and re.search(r'DocumentStore\.(metadata|internal_to_external)$', fs[-1]):
                        wblocks.append(i)
                    elif any(isinstance(x, dict) and ('ix' in x) for x in s['pl']['p']) and any(isinstance(x, str) and re.search(r'DocumentStore\.(metadata|internal_to_external)$', x) for x in s['pl']['p']):
                        wblocks.append(i)
        if not wblocks:
            continue
        n_w += 1
        mb = [c.bb for c in b.calls if c.callee and c.is_(*MAINT)]
        errs = flow.err_blocks(b)
        # deferred-maintenance idiom: writes queue (id, old metadata) into a Vec that a later loop drains through the index;
        # then `queue.is_empty()` cannot be true after a push, and every write must be followed by a push
        ovb = flow.Origin(b, stop_at_vars=True)
        queues = set()
        for mcall in [c for c in b.calls if c.callee and c.is_(*MAINT)]:
            hs = [h for h in b.calls if h.callee and h.is_('re:Iterator>::next$') and b.dominates(h.bb, mcall.bb) and h.bb in b.reach([mcall.bb])]
            for h in hs:
                src = util.loop_source(b, h)
                if src.startswith('var:'):
                    queues.add(src)
        q_push = [c.bb for c in b.calls if c.callee and c.callee.endswith('::push') and c.args and flow.render(ovb.of_operand(c.args[0])) in queues]
        q_empty = []
        for i, blk in enumerate(b.blocks):
            if blk['t']['k'] == 'switch' and queues:
                for tg, p in flow.switch_edge_predicates(b, i, ovb):
                    if any(re.match(r'^bool\[.*::is_empty\(%s\)\]$' % re.escape(q), p) for q in queues):
                        q_empty.append((i, tg))
        drain_heads = []
        for mcall in [c for c in b.calls if c.callee and c.is_(*MAINT)]:
            for h in b.calls:
                if h.callee and h.is_('re:Iterator>::next$') and b.dominates(h.bb, mcall.bb) and h.bb in b.reach([mcall.bb]) and util.loop_source(b, h) in queues:
                    drain_heads.append(h.bb)   # reaching the drain loop over a non-empty queue = maintenance happens
        bad = []
        for w in sorted(set(wblocks)):
            r = b.reach(b.succ(w), avoid_blocks=set(mb) | set(drain_heads) | errs, avoid_edges=q_empty if q_push else ())
            if any(x in r for x in b.return_blocks()):
                bad.append(w)
                continue
            if q_push and drain_heads:
                # queued maintenance: the write must be followed by a push before the scan loop continues or ends
                heads = [h.bb for h in b.calls if h.callee and h.is_('re:Iterator>::next$') and w in b.reach([h.bb]) and h.bb in b.reach([w])]
                r2 = b.reach(b.succ(w), avoid_blocks=set(q_push) | set(mb))
                if any(h in r2 for h in heads):
                    bad.append(w)
        if queues:
            ctx.exception(rid, b.short, 'deferred maintenance through the queue %s drained by a loop calling the index' % sorted(queues))
        ctx.inst(rid, b.short, 'metadata/liveness writes are followed by index maintenance', bool(mb) and not bad,
                 ('write at %s can reach an Ok return without touching the inverted index' % [b.loc_of(w) for w in bad[:3]]) if bad or not mb else
                 '%d write sites, %d maintenance calls' % (len(set(wblocks)), len(mb)))
    ctx.floor(rid, 'functions writing document metadata / liveness', n_w, 7, 'insert, update_metadata, delete, batch_delete, compact_tombstones, 2 constructors, recovery')


class _NoEval(Exception):
    pass


_INT_BITS = {'u8': 8, 'u16': 16, 'u32': 32, 'u64': 64, 'u128': 128, 'usize': 64, 'i8': 8, 'i16': 16, 'i32': 32, 'i64': 64, 'i128': 128, 'isize': 64}


def eval_pure(prog, body, args, depth=0):
    """Value-level evaluation of the MIR of a small pure function on concrete arguments (ints, bools, f64 as Python floats = IEEE doubles): statements use / bin /
    un / cast / aggregate, terminators goto / switch / assert / return, calls to the f64 bit accessors and to functions of the analysed crates (recursively).
    Nothing of /repo is executed.  Anything outside this fragment raises _NoEval (the caller fails closed)."""
    import struct
    if depth > 4:
        raise _NoEval('call depth')
    env = {i + 1: v for i, v in enumerate(args)}

    def ty_of(op):
        if op.get('k') == 'c':
            return op.get('ty', '')
        pl = op['pl']
        return body.locals[pl['l']] if not pl.get('p') else ''

    def wrap(v, ty):
        if ty in _INT_BITS and isinstance(v, int) and not isinstance(v, bool):
            v &= (1 << _INT_BITS[ty]) - 1
            if ty.startswith('i') and v >> (_INT_BITS[ty] - 1):
                v -= 1 << _INT_BITS[ty]
        return v

    def place(pl):
        if pl['l'] not in env:
            raise _NoEval('read of unset local _%d' % pl['l'])
        v = env[pl['l']]
        for e in pl.get('p') or []:
            if e == '*':
                continue
            if isinstance(e, str) and isinstance(v, tuple):
                m = re.search(r'\.(\d+)$', e)
                if m and int(m.group(1)) < len(v):
                    v = v[int(m.group(1))]
                    continue
            raise _NoEval('projection %s' % (e,))
        return v

    def operand(op):
        if op.get('k') == 'c':
            ty = op.get('ty', '')
            if 'fbits' in op:
                return struct.unpack('<d', struct.pack('<Q', op['fbits']))[0] if op.get('fsize') == 64 else struct.unpack('<f', struct.pack('<I', op['fbits']))[0]
            if ty in ('f64', 'f32'):
                try:
                    return float(op.get('v', '')[:-3].replace('_', ''))
                except ValueError:
                    raise _NoEval('float constant %s' % op.get('v'))
            if ty == 'bool':
                return bool(op.get('int'))
            if 'int' in op:
                return wrap(op['int'], ty)
            raise _NoEval('constant %s' % op.get('v'))
        if op.get('k') in ('cp', 'mv'):
            return place(op['pl'])
        raise _NoEval('operand %s' % op.get('k'))

    def binop(o, a, b, ty):
        cmpf = {'Eq': lambda: a == b, 'Ne': lambda: a != b, 'Lt': lambda: a < b, 'Le': lambda: a <= b, 'Gt': lambda: a > b, 'Ge': lambda: a >= b}
        if o in cmpf:
            return cmpf[o]()
        if isinstance(a, float) or isinstance(b, float):
            f = {'Add': lambda: a + b, 'Sub': lambda: a - b, 'Mul': lambda: a * b}.get(o)
            if f is None:
                raise _NoEval('float op %s' % o)
            return f()
        base = o.replace('WithOverflow', '').replace('Unchecked', '')
        f = {'Add': lambda: a + b, 'Sub': lambda: a - b, 'Mul': lambda: a * b, 'BitOr': lambda: a | b, 'BitAnd': lambda: a & b, 'BitXor': lambda: a ^ b,
             'Shl': lambda: a << (b & 127), 'Shr': lambda: a >> (b & 127)}.get(base)
        if f is None:
            raise _NoEval('integer op %s' % o)
        if isinstance(a, bool) and isinstance(b, bool) and base in ('BitOr', 'BitAnd', 'BitXor'):
            return bool(f())
        r = f()
        if o.endswith('WithOverflow'):
            return (wrap(r, ty), wrap(r, ty) != r)
        return wrap(r, ty)

    def rvalue(rv, dst_ty):
        k = rv['k']
        if k == 'use':
            return operand(rv['a'])
        if k == 'bin':
            a, b = operand(rv['a']), operand(rv['b'])
            return binop(rv['op'], a, b, ty_of(rv['a']) or dst_ty)
        if k == 'un':
            a = operand(rv['a'])
            if rv['op'] == 'Not':
                return (not a) if isinstance(a, bool) else wrap(~a, ty_of(rv['a']) or dst_ty)
            if rv['op'] == 'Neg':
                return -a if isinstance(a, float) else wrap(-a, dst_ty)
            raise _NoEval('unary %s' % rv['op'])
        if k == 'cast':
            a = operand(rv['a'])
            ck, ty = rv.get('ck', ''), rv.get('ty', '')
            if ck == 'IntToInt':
                return wrap(int(a), ty)
            if ck == 'IntToFloat':
                return float(a)
            if ck == 'Transmute' and isinstance(a, float) and ty == 'u64':
                return struct.unpack('<Q', struct.pack('<d', a))[0]
            if ck == 'Transmute' and isinstance(a, int) and ty == 'f64':
                return struct.unpack('<d', struct.pack('<Q', a))[0]
            raise _NoEval('cast %s' % ck)
        if k == 'agg' and rv.get('ak') in ('adt', 'tuple'):
            return tuple(operand(o) for o in rv['ops'])
        raise _NoEval('rvalue %s' % k)

    def call(t):
        fn = (t['f'].get('fn') or {}) if t['f'].get('k') == 'c' else {}
        name = facts_strip(fn.get('r') or fn.get('o') or '')
        a = [operand(x) for x in t.get('args', [])]
        if name.endswith('f64::to_bits') and len(a) == 1 and isinstance(a[0], float):
            return struct.unpack('<Q', struct.pack('<d', a[0]))[0]
        if name.endswith('f64::from_bits') and len(a) == 1:
            return struct.unpack('<d', struct.pack('<Q', a[0]))[0]
        if name.endswith('f64::is_nan') and len(a) == 1:
            return a[0] != a[0]
        if name.endswith('f64::is_sign_negative') and len(a) == 1:
            return bool(struct.unpack('<Q', struct.pack('<d', a[0]))[0] >> 63)
        if name.endswith('f64::abs') and len(a) == 1:
            return abs(a[0])
        cb = prog.resolve_local(name)
        if cb is not None and cb.kind in ('Fn', 'AssocFn'):
            return eval_pure(prog, cb, a, depth + 1)
        raise _NoEval('call to %s' % (name or 'an indirect callee'))

    bb, steps = 0, 0
    while True:
        steps += 1
        if steps > 400:
            raise _NoEval('step limit')
        blk = body.blocks[bb]
        for st in blk['s']:
            if 'rv' not in st:
                continue
            if st['pl'].get('p'):
                raise _NoEval('assignment to a projection')
            env[st['pl']['l']] = rvalue(st['rv'], body.locals[st['pl']['l']])
        t = blk['t']
        k = t['k']
        if k == 'return':
            if 0 not in env:
                raise _NoEval('return without a value')
            return env[0]
        if k in ('goto', 'falseedge', 'falseunwind', 'drop'):
            bb = t['to']
        elif k == 'assert':
            if bool(operand(t['cond'])) != bool(t.get('expected', True)):
                raise _NoEval('assertion fails (panic): %s' % t.get('msg', ''))
            bb = t['to']
        elif k == 'switch':
            v = operand(t['on'])
            v = int(v) if isinstance(v, bool) else v
            bb = next((tg for val, tg in t['tg'] if val == v), t['else'])
        elif k == 'call':
            if t.get('dest', {}).get('p') or 'to' not in t:
                raise _NoEval('call shape')
            env[t['dest']['l']] = call(t)
            bb = t['to']
        else:
            raise _NoEval('terminator %s' % k)


def run(ctx, prog):
    ctx.not_decided = ['OrderedF64::from_f64 preserves f64 order outside the evaluated table of IEEE edge values (C11.R5 decides the table only)', 'behaviour over histories of inserts / updates / compaction']
    # ------------------------------------------------------------------ R1a/b range table
    ctx.rule('C11.R1', 'table agreement: per range-bound variant the reference operator (numeric and lexical branch of matches_range) '
                       'corresponds to the BTreeMap range bounds of bitmap_for_range_numeric / bitmap_for_range_lex '
                       '(Gte↔(Included,Unbounded), Lte↔(Unbounded,Included), Gt↔(Excluded,Unbounded), Lt↔(Unbounded,Excluded)); every '
                       'FilterType variant and None is handled on both sides with the corresponding combinator; both sides parse numbers '
                       'with str::parse::<f64>; the numeric branch replaces the lexical verdict exactly for numerically indexed documents')
    mr = ctx.body('C11.R1', 'metadata_filter::matches_range')
    # the four compared locals are found by what they ARE (a rename in /repo must not matter): the document's value under the filter key (the &String looked up in
    # `metadata` that is also what gets parsed as a number — the match-arm binding it is copied from is not), that value parsed as f64, the filter's bound string,
    # and the bound parsed as f64
    VAL_FULL = r'HashMap::get\(arg:metadata, arg:filter→RangeMatch\.key\)@Some→Some\.0'
    util.bind_role(mr, 'val_str', type_rx=r'^&alloc::string::String$', origin_rx='^%s$' % VAL_FULL, full=True, used_as=(r'str::parse$', 0))
    util.bind_role(mr, 'val_num', type_rx=r'^f64$', origin_rx=r'^str::parse\(%s\)@Ok→Ok\.0$' % VAL_FULL, full=True)
    util.bind_role(mr, 'bound_str', type_rx=r'^alloc::string::String$', origin_rx=r'^metadata_filter::get_bound_value\(arg:filter\)$', full=True)
    util.bind_role(mr, 'bound_num', type_rx=r'^f64$', origin_rx=r'^str::parse\(metadata_filter::get_bound_value\(arg:filter\)\)@Ok→Ok\.0$', full=True)
    mo = flow.Origin(mr, stop_at_vars=True)
    sws = variant_switches(mr, mo, r'RangeMatch\.bound@Some→Some\.0$', CANON)
    ref = {}  # (branch, variant) -> op
    for sw, m in sws:
        for v, tg in m.items():
            arm = arm_blocks(mr, sw, tg, list(m.values()))
            op = None
            operands = None
            for b in arm:
                for s in mr.blocks[b]['s']:
                    if 'rv' in s and s['pl']['l'] == 0 and not s['pl'].get('p') and s['rv']['k'] == 'bin':
                        op = s['rv']['op']
                        operands = (flow.render(mo.of_operand(s['rv']['a'])), flow.render(mo.of_operand(s['rv']['b'])))
                c = mr.call_at(b)
                if c is not None and c.dest and c.dest['l'] == 0 and c.callee:
                    mm = re.search(r'::(lt|le|gt|ge)$', c.callee)
                    if mm:
                        op = mm.group(1).capitalize()
                        operands = (flow.render(mo.of_operand(c.args[0])), flow.render(mo.of_operand(c.args[1])))
            branch = 'numeric' if operands and 'val_num' in operands[0] else ('lexical' if operands and 'val_str' in operands[0] else '?')
            ref[(branch, v)] = (op, operands)
    idx = {}
    idx_full = {}   # the same cells on the fully expanded origin: (bound values, ranged map) — names no local
    TUPLE_RX = r'^tuple\{range::Bound::(\w+)\{(.*?)\}, range::Bound::(\w+)\{(.*?)\}\}$'
    for fn, branch in (('MetadataInvertedIndex::bitmap_for_range_numeric', 'numeric'), ('MetadataInvertedIndex::bitmap_for_range_lex', 'lexical')):
        f = ctx.body('C11.R1', fn)
        # the ranged-over map = the &BTreeMap local that is the receiver of BTreeMap::range
        util.bind_role(f, 'values', type_rx=r'^&alloc::collections::btree::map::BTreeMap<', used_as=(r'BTreeMap::range$', 0))
        fo = flow.Origin(f, stop_at_vars=True)
        ff = flow.Origin(f)
        for sw, m in variant_switches(f, fo, r'arg:bound$', CANON):
            for v, tg in m.items():
                arm = arm_blocks(f, sw, tg, list(m.values()))
                for b in arm:
                    c = f.call_at(b)
                    if c is not None and c.callee and c.callee.endswith('BTreeMap::range') and len(c.args) >= 2:
                        r = flow.render(fo.of_operand(c.args[1]))
                        mm = re.match(TUPLE_RX, r)
                        if mm:
                            idx[(branch, v)] = ((mm.group(1), mm.group(3)), (mm.group(2), mm.group(4)), flow.render(fo.of_operand(c.args[0])))
                            mf = re.match(TUPLE_RX, flow.render(ff.of_operand(c.args[1])))
                            idx_full[(branch, v)] = ((mf.group(2), mf.group(4)) if mf else ('', ''), flow.render(ff.of_operand(c.args[0])))
    cells = 0
    for branch in ('numeric', 'lexical'):
        for v, (cop, cbounds) in CANON.items():
            r_ = ref.get((branch, v))
            i_ = idx.get((branch, v))
            okr = r_ is not None and r_[0] == cop and r_[1] is not None and (
                (branch == 'numeric' and r_[1] == ('var:val_num', 'var:bound_num')) or (branch == 'lexical' and r_[1][0] == 'var:val_str' and 'bound_str' in r_[1][1]))
            ctx.inst('C11.R1', mr.short, 'cell reference/%s/%s = %s' % (branch, v, cop), okr, 'reference: %s' % (r_,))
            cells += 1
            bound_src = 'var:num_key' if branch == 'numeric' else 'var:v'
            # what the bound of the range IS, whatever the locals are called: the numeric bound as an index key; in the lexical lookup the string carried by the
            # bound variant of this very arm
            bound_full = 'OrderedF64::from_f64(arg:bound_num)' if branch == 'numeric' else 'arg:bound@%s→%s.0' % (v, v)
            f_ = idx_full.get((branch, v), (('', ''), ''))
            oki = i_ is not None and i_[0] == cbounds and (bound_src in ''.join(i_[1]) or ''.join(f_[0]) == bound_full) and (
                ('by_key_numeric' in i_[2] or 'values' in i_[2] or 'MetadataInvertedIndex.by_key_numeric' in f_[1]) if branch == 'numeric' else True)
            ctx.inst('C11.R1', 'MetadataInvertedIndex::bitmap_for_range_%s' % ('numeric' if branch == 'numeric' else 'lex'), 'cell index/%s/%s = %s' % (branch, v, cbounds), oki, 'index: %s' % (i_,))
            cells += 1
    ctx.floor('C11.R1', 'range table cells', cells, 16, '4 variants × 2 branches × 2 sides')
    # index sources: the numeric lookup reads by_key_numeric, the lexical one by_key_lex
    for fn, fld in (('MetadataInvertedIndex::bitmap_for_range_numeric', 'by_key_numeric'), ('MetadataInvertedIndex::bitmap_for_range_lex', 'by_key_lex')):
        f = ctx.body('C11.R1', fn)
        fo = flow.Origin(f)
        vl = f.var_local('values')
        r = flow.render(fo.of_local(vl[0])) if vl else ''
        ctx.inst('C11.R1', f.short, 'ranges over %s[key]' % fld, ('MetadataInvertedIndex.' + fld) in r and 'arg:key' in r, 'values = %s' % r[:140])
    # number parser
    pn = ctx.body('C11.R1', 'hnsw_backend::parse_indexable_numeric')
    same_parser = any(c.callee and c.callee.endswith('::parse') and 'f64' in ' '.join(c.ga) for c in pn.calls) and \
        sum(1 for c in mr.calls if c.callee and c.callee.endswith('::parse') and 'f64' in ' '.join(c.ga)) == 2
    # (`.ok()` or an explicit match on the parse result: what is returned is the parse's Ok value or None)
    pn_ret = flow.render(flow.Origin(pn).of_local(0))
    ctx.inst('C11.R1', 'number parsing', 'both sides use str::parse::<f64>', same_parser and (bool(pn.calls_to('core::result::Result::ok')) or bool(re.search(r'Option::Some\{str::parse\(arg:\w+\)@Ok→Ok\.0\}', pn_ret))),
             'parse_indexable_numeric = str::parse::<f64>().ok(); matches_range parses value and bound with parse::<f64>')
    # "numeric" means the same on both sides: the reference calls a value numeric exactly when parse::<f64> succeeds, so the index parser may answer None only when
    # that parse failed — every return of parse_indexable_numeric lies behind the parse call (no early None for a class of values: a length cap, a prefix test, …)
    pcalls = [c.bb for c in pn.calls if c.callee and c.callee.endswith('::parse') and 'f64' in ' '.join(c.ga)]
    r_np = pn.reach([0], avoid_blocks=pcalls)
    early = [x for x in pn.return_blocks() if x in r_np]
    ctx.inst('C11.R1', 'number parsing', 'the index parser decides by the parse alone: no return before the parse', bool(pcalls) and not early,
             'a return of parse_indexable_numeric is reachable without calling parse::<f64> (a value the reference treats as a number is filed as a string only)' if early
             else 'every return is behind parse::<f64>')
    # ... and both sides hand the parser the SAME string: the stored value / the bound as it is.  A string transformation in front of the parse on one side only
    # (trim, case folding, a slice) makes a value numeric for the index and a string for the reference, or the other way round
    def _str_transforms(b_, e_, depth=0):
        out = []
        for x in flow.calls_in(e_):
            cal = x[1]
            nm = cal.rsplit('::', 1)[-1]
            if re.search(r'(^|[< ])(core::str::|alloc::str::|alloc::string::)', cal) and nm not in (
                    'new', 'from', 'to_string', 'to_owned', 'clone', 'as_str', 'as_ref', 'borrow', 'deref', 'into', 'as_mut_str', 'default', 'parse'):
                out.append(flow.short(cal))
            cb_ = prog.resolve_local(cal)
            if cb_ is not None and depth < 2 and cb_.kind in ('Fn', 'AssocFn'):
                out += _str_transforms(cb_, flow.Origin(cb_).of_local(0), depth + 1)
        return out
    pno = flow.Origin(pn)
    pn_parse = [c for c in pn.calls if c.callee and c.callee.endswith('::parse') and 'f64' in ' '.join(c.ga)]
    pn_args = [flow.render(pno.of_operand(c.args[0])) for c in pn_parse]
    pn_tr = [t_ for c in pn_parse for t_ in _str_transforms(pn, pno.of_operand(c.args[0]))]
    idx_calls = prog.callers_of('hnsw_backend::parse_indexable_numeric')
    idx_tr = [(c.body.short.split('::')[-1], t_) for c in idx_calls for t_ in _str_transforms(c.body, flow.Origin(c.body).of_operand(c.args[0]))]
    ok_idx = bool(pn_parse) and all(re.match(r'^arg:\w+$', a) for a in pn_args) and not pn_tr and not idx_tr and bool(re.search(r'str::parse\(arg:\w+\)', flow.render(pno.of_local(0)))) and len(idx_calls) >= 3
    ctx.inst('C11.R1', 'number parsing', 'the index parses the stored value and the bound as they are', ok_idx,
             ('parse_indexable_numeric parses %s%s' % (pn_args, '; callers transform their argument: %s' % idx_tr if idx_tr else '')) if not ok_idx else
             'parse_indexable_numeric = parse(<its argument>); %d callers pass the map value / the bound string unchanged' % len(idx_calls))
    mro = flow.Origin(mr)
    mr_parse = [c for c in mr.calls if c.callee and c.callee.endswith('::parse') and 'f64' in ' '.join(c.ga)]
    mr_args = sorted(flow.render(mro.of_operand(c.args[0])) for c in mr_parse)
    mr_tr = [t_ for c in mr_parse for t_ in _str_transforms(mr, mro.of_operand(c.args[0]))]
    ok_ref = len(mr_parse) == 2 and not mr_tr and any(re.match(r'^HashMap::get\(arg:\w+, arg:\w+→RangeMatch\.key\)@Some→Some\.0$', a) for a in mr_args) and any(re.match(r'^metadata_filter::get_bound_value\(arg:\w+\)$', a) for a in mr_args)
    ctx.inst('C11.R1', 'number parsing', 'the reference parses the stored value and the bound as they are', ok_ref,
             'matches_range parses %s%s' % ([a[:90] for a in mr_args], '; through %s' % mr_tr if mr_tr else ''))
    for fn_, rx_ in (('hnsw_backend::range_bound_value', r'^arg:\w+@(Gte|Gt|Lte|Lt)→\1\.0$'),
                     ('metadata_filter::get_bound_value', r'^arg:\w+→RangeMatch\.bound@Some→Some\.0@(Gte|Gt|Lte|Lt)→\1\.0$|^String::new\(\)$')):
        gb = ctx.body('C11.R1', fn_)
        alts_ = [flow.render(a) for a in flow.top_alternatives(flow.Origin(gb).of_local(0))]
        ctx.inst('C11.R1', gb.short, 'the bound string of every variant is returned as it is', len(alts_) >= 4 and all(re.match(rx_, a) for a in alts_),
                 'returns %s' % sorted(alts_))
    # NaN handling of the numeric index agrees with IEEE comparisons being false
    bn = ctx.body('C11.R1', 'MetadataInvertedIndex::bitmap_for_range_numeric')
    bno = flow.Origin(bn, stop_at_vars=True)
    nan_guard = [p for i, blk in enumerate(bn.blocks) if blk['t']['k'] == 'switch' for tg, p in flow.switch_edge_predicates(bn, i, bno) if re.match(r'^bool\[f64::is_nan\(arg:bound_num\)\]$', p)]
    ctx.inst('C11.R1', bn.short, 'NaN bound selects nothing numerically', bool(nan_guard), 'guard: %s' % nan_guard[:1])

    # ------------------------------------------------------------------ R1c combinator table
    ms = ctx.body('C11.R1', 'metadata_filter::matches')
    mso = flow.Origin(ms, stop_at_vars=True)
    FT = ['Exact', 'Range', 'InMatch', 'AndFilter', 'OrFilter', 'NotFilter']
    REF_CALL = {'Exact': 'matches_exact', 'Range': 'matches_range', 'InMatch': 'matches_in', 'AndFilter': 'matches_and', 'OrFilter': 'matches_or', 'NotFilter': 'matches_not'}
    sw = variant_switches(ms, mso, r'MetadataFilter\.filter_type@Some→Some\.0$', FT)
    got = {}
    for s_, m in sw:
        for v, tg in m.items():
            arm = arm_blocks(ms, s_, tg, list(m.values()))
            got[v] = sorted(set(c.callee.split('::')[-1] for b in arm for c in [ms.call_at(b)] if c is not None and c.callee and 'metadata_filter::' in c.callee))
    for v in FT:
        ctx.inst('C11.R1', ms.short, 'reference %s → %s' % (v, REF_CALL[v]), got.get(v) == [REF_CALL[v]], 'arm calls %s' % got.get(v))
    none_true = any(p.endswith('= None') and any(s.get('rv', {}).get('a', {}).get('int') == 1 for s in ms.blocks[tg]['s'] if 'rv' in s and s['pl']['l'] == 0) or
                    (p.endswith('= None') and any(s.get('rv', {}).get('a', {}).get('int') == 1 for b in (ms.reach([tg]) | {tg}) for s in ms.blocks[b]['s'] if 'rv' in s and s['pl']['l'] == 0 and len(ms.reach([tg])) < 6))
                    for i, blk in enumerate(ms.blocks) if blk['t']['k'] == 'switch' for tg, p in flow.switch_edge_predicates(ms, i, mso))
    ctx.inst('C11.R1', ms.short, 'reference None → true', none_true, 'empty filter matches everything')
    cf = ctx.body('C11.R1', 'hnsw_backend::compile_filter_to_bitmap')
    cfo = flow.Origin(cf, stop_at_vars=True)
    sw = variant_switches(cf, cfo, r'MetadataFilter\.filter_type@Some→Some\.0$', FT)
    WANT = {'Exact': {'bitmap_for_exact'}, 'Range': {'compile_range_filter_to_bitmap'}, 'InMatch': {'bitmap_for_exact', 'bitor_assign'},
            'AndFilter': {'compile_filter_to_bitmap', 'bitand_assign'}, 'OrFilter': {'compile_filter_to_bitmap', 'bitor_assign'},
            'NotFilter': {'compile_filter_to_bitmap', 'sub_assign'}}
    FORBID = {'InMatch': {'bitand_assign', 'sub_assign'}, 'AndFilter': {'bitor_assign', 'sub_assign'}, 'OrFilter': {'bitand_assign', 'sub_assign'},
              'NotFilter': {'bitand_assign', 'bitor_assign'}, 'Exact': {'bitand_assign', 'bitor_assign', 'sub_assign'}, 'Range': {'bitand_assign', 'bitor_assign', 'sub_assign'}}
    arms = {}
    for s_, m in sw:
        for v, tg in m.items():
            arm = arm_blocks(cf, s_, tg, list(m.values()))
            arms[v] = arm
            names = set(c.callee.split('::')[-1] for b in arm for c in [cf.call_at(b)] if c is not None and c.callee)
            ok = WANT[v] <= names and not (FORBID[v] & names)
            ctx.inst('C11.R1', cf.short, 'compiled %s → %s' % (v, '+'.join(sorted(WANT[v]))), ok, 'arm calls %s' % sorted(n for n in names if n in WANT[v] | FORBID[v]))
    for v in FT:
        if v not in arms:
            ctx.inst('C11.R1', cf.short, 'compiled %s handled' % v, False, 'no arm for %s' % v)
    # empty forms and None
    def arm_returns(arm, what_rx):
        for b in arm:
            for s in cf.blocks[b]['s']:
                rv = s.get('rv')
                if rv and rv['k'] == 'agg' and rv.get('variant') == 'Some' and s['pl']['l'] == 0:
                    r = flow.render(flow.Origin(cf).of_operand(rv['ops'][0]))
                    if re.search(what_rx, r):
                        return True
        return False
    def empty_edge_returns(arm, what_rx):
        # the `filters.is_empty()` true edge returns Some(<what>)
        for b in arm:
            if cf.blocks[b]['t']['k'] == 'switch':
                for tg, p in flow.switch_edge_predicates(cf, b, cfo):
                    if re.match(r'^bool\[.*::is_empty\(.*filters\)\]$', p):
                        reg = [x for x in (cf.reach([tg]) | {tg}) if x in arm]
                        if arm_returns(reg, what_rx):
                            return True
        return False
    if 'AndFilter' in arms:
        ctx.inst('C11.R1', cf.short, 'empty And ↔ all live documents', empty_edge_returns(arms['AndFilter'], r'MetadataInvertedIndex\.alive'), 'reference: empty And is true')
    if 'OrFilter' in arms:
        ctx.inst('C11.R1', cf.short, 'empty Or ↔ ∅', empty_edge_returns(arms['OrFilter'], r'^(inherent|RoaringTreemap)::new\(\)$'), 'reference: empty Or is false')
    if 'NotFilter' in arms:
        of_ = flow.Origin(cf)
        sub = [c for b in arms['NotFilter'] for c in [cf.call_at(b)] if c is not None and c.callee and c.callee.endswith('sub_assign')]
        base = flow.render(of_.of_operand(sub[0].args[0])) if sub else ''
        ctx.inst('C11.R1', cf.short, 'Not ↔ alive − sub', bool(sub) and 'MetadataInvertedIndex.alive' in base, 'minuend: %s' % base[:120])
    none_alive = False
    for i, blk in enumerate(cf.blocks):
        if blk['t']['k'] == 'switch':
            for tg, p in flow.switch_edge_predicates(cf, i, cfo):
                if re.match(r'^variant\(arg:filter→MetadataFilter\.filter_type\) = None$', p):
                    reg = list(cf.reach([tg], avoid_blocks=[x for a_ in arms.values() for x in a_]) | {tg})
                    none_alive = arm_returns([x for x in reg if len(reg) < 12], r'MetadataInvertedIndex\.alive')
    ctx.inst('C11.R1', cf.short, 'None ↔ all live documents', none_alive, 'reference: None is true')
    # reference sub-predicates
    for fn, want_rx, what in (('metadata_filter::matches_and', None, 'And'), ('metadata_filter::matches_or', None, 'Or'), ('metadata_filter::matches_not', None, 'Not')):
        f = ctx.body('C11.R1', fn)
        rec = f.calls_to('metadata_filter::matches')
        ctx.inst('C11.R1', f.short, '%s recurses through matches' % what, bool(rec), '')
    # numeric / lexical split
    cr = ctx.body('C11.R1', 'hnsw_backend::compile_range_filter_to_bitmap')
    cro = flow.Origin(cr)
    crv = flow.Origin(cr, stop_at_vars=True)
    lex = cr.calls_to('MetadataInvertedIndex::bitmap_for_range_lex')
    num = cr.calls_to('MetadataInvertedIndex::bitmap_for_range_numeric')
    pres = cr.calls_to('MetadataInvertedIndex::bitmap_for_key_presence')
    pn_call = cr.calls_to('hnsw_backend::parse_indexable_numeric')
    ok = bool(lex and num and pres and pn_call)
    detail = 'lex/numeric/presence/parse calls: %d/%d/%d/%d' % (len(lex), len(num), len(pres), len(pn_call))
    if ok:
        s_e, f_e = flow.outcome_edges(cr, pn_call[0])
        subs = [c for c in cr.calls if c.callee and c.callee.endswith('sub_assign')]
        ors = [c for c in cr.calls if c.callee and c.callee.endswith('bitor_assign')]
        r0 = cr.reach([0], avoid_edges=s_e or [])
        ok = bool(subs) and bool(ors) and all(c.bb not in r0 for c in subs + ors + num) and bool(s_e)
        sub_arg = flow.render(cro.of_operand(subs[0].args[1])) if subs else ''
        ok = ok and 'MetadataInvertedIndex.numeric_docs_by_key' in sub_arg
        # ... and unconditionally so: from the Some edge of numeric_docs_by_key.get(key) the numeric union is not reachable without the subtraction
        getc = [c for c in cr.calls if c.callee and re.search(r'HashMap<.*>::get$|HashMap::get$', c.callee) and c.args and 'numeric_docs_by_key' in flow.render(cro.of_operand(c.args[0]))]
        if getc:
            gs, gf = flow.outcome_edges(cr, getc[0])
            rr = cr.reach([e[1] for e in (gs or [])], avoid_blocks=[c.bb for c in subs]) | (set(e[1] for e in (gs or [])) - set(c.bb for c in subs))
            if any(c.bb in rr for c in ors) or not gs:
                ok = False
        else:
            ok = False
        bound_arg = flow.render(cro.of_operand(pn_call[0].args[0]))
        ok = ok and 'range_bound_value' in bound_arg
        detail += '; numeric docs removed from the lexical verdict and numeric range added only when the bound parses: %s (subtrahend %s)' % (ok, sub_arg[:80])
    ctx.inst('C11.R1', cr.short, 'bound parses ⇒ numeric docs leave the lexical branch', ok, detail)
    none_b = util.option_edges(cr, r'RangeMatch\.bound\)?$|Option::as_ref\(arg:range→RangeMatch\.bound\)$', 'None')
    okp = False
    if pres and none_b:
        okp = pres[0].bb not in cr.reach([0], avoid_edges=none_b)
    ctx.inst('C11.R1', cr.short, 'bound-less range ↔ key presence', okp, 'bitmap_for_key_presence only on the bound = None edge')

    # ------------------------------------------------------------------ R2 maintenance pairing
    ctx.rule('C11.R2', 'maintenance pairing: every function that writes DocumentStore.metadata or .internal_to_external reaches '
                       'MetadataInvertedIndex::{insert_doc, remove_doc, replace_doc, rebuild_from} on every path from the write to a normal return')
    maintenance_pairing(ctx, prog, 'C11.R2')
    rb = ctx.body('C11.R2', 'MetadataInvertedIndex::rebuild_from')
    rbo = flow.Origin(rb, stop_at_vars=True)
    skip = [p for i, blk in enumerate(rb.blocks) if blk['t']['k'] == 'switch' for tg, p in flow.switch_edge_predicates(rb, i, rbo) if 'is_none' in p or 'variant(' in p and 'alive' in p]
    if not skip:
        # the tested slot bound to a pattern variable (`for (.., owner) in ..zip(alive.iter())` + `let Some(_) = owner else { continue }`): the same test on the expanded origin
        skip = [p for i, blk in enumerate(rb.blocks) if blk['t']['k'] == 'switch' for tg, p in flow.switch_edge_predicates(rb, i, flow.Origin(rb))
                if re.match(r'^variant\(.*\barg:alive\b.*\)@Some→Some\.0[.\d]*\) = (Some|None)$', p)]
    ctx.inst('C11.R2', rb.short, 'rebuild indexes live documents only', bool(skip) and bool(rb.calls_to('MetadataInvertedIndex::insert_doc')), 'liveness test: %s' % skip[:1])
    rp = ctx.body('C11.R2', 'MetadataInvertedIndex::replace_doc')
    ctx.inst('C11.R2', rp.short, 'replace = remove(old) then insert(new)', bool(rp.calls_to('MetadataInvertedIndex::remove_doc')) and bool(rp.calls_to('MetadataInvertedIndex::insert_doc'))
             and rp.dominates(rp.calls_to('MetadataInvertedIndex::remove_doc')[0].bb, rp.calls_to('MetadataInvertedIndex::insert_doc')[0].bb), '')
    # insert_doc / remove_doc maintain the same four structures
    FIELDS = ['by_key_value', 'by_key_lex', 'by_key_numeric', 'numeric_docs_by_key', 'alive']
    for fn in ('MetadataInvertedIndex::insert_doc', 'MetadataInvertedIndex::remove_doc'):
        f = ctx.body('C11.R2', fn)
        txt = ' '.join(str(s.get('rv', '')) for blk in f.blocks for s in blk['s'])
        touched = [x for x in FIELDS if ('MetadataInvertedIndex.' + x) in txt]
        ctx.inst('C11.R2', f.short, 'touches all five index structures', touched == FIELDS, 'touched: %s' % touched)

    # ------------------------------------------------------------------ R3
    ctx.rule('C11.R3', 'ids_for_metadata_filter intersects the compiled bitmap with the live set, maps ids through internal_to_external on '
                       'the Some edge, and evaluates uncompilable filters with the reference predicate')
    idf = ctx.body('C11.R3', 'HnswBackend::ids_for_metadata_filter')
    fam = prog.family(idf)
    io = flow.Origin(idf)
    andc = [c for c in idf.calls if c.callee and c.callee.endswith('bitand_assign')]
    a1 = flow.render(io.of_operand(andc[0].args[1])) if andc else ''
    ctx.inst('C11.R3', idf.short, 'bitmap ∩ alive', bool(andc) and 'MetadataInvertedIndex.alive' in a1, 'intersected with %s' % a1[:100])
    cl = [b for b in fam if b.kind == 'Closure']
    maps = any('DocumentStore.internal_to_external' in str(s.get('rv', '')) or any('internal_to_external' in flow.render(flow.Origin(b).of_operand(a)) for c in b.calls for a in c.args[:1])
               for b in cl for blk in b.blocks for s in blk['s'])
    ctx.inst('C11.R3', idf.short, 'ids mapped through internal_to_external', maps, 'filter_map closure reads store.internal_to_external')
    sc = idf.calls_to('HnswBackend::scan')
    pred_cl = [b for b in cl if b.calls_to('metadata_filter::matches')]
    comp = idf.calls_to('hnsw_backend::compile_filter_to_bitmap')
    ok = bool(sc and pred_cl and comp)
    if ok:
        s_e, f_e = flow.outcome_edges(idf, comp[0])
        ok = bool(f_e) and sc[0].bb in (idf.reach([e[1] for e in f_e]) | set(e[1] for e in f_e)) and sc[0].bb not in (idf.reach([0], avoid_edges=f_e))
    ctx.inst('C11.R3', idf.short, 'uncompilable filter ⇒ scan with the reference predicate', ok, 'scan only on the None edge of compile_filter_to_bitmap, closure calls metadata_filter::matches')
    users = sorted(set(c.body.short.split('::{')[0] for c in prog.callers_of('HnswBackend::ids_for_metadata_filter')))
    ctx.inst('C11.R3', 'ids_for_metadata_filter', 'used by filtered batch delete and the start-up recount', any('batch_delete_by_metadata_filter' in u for u in users) and any('main' in u for u in users), 'callers: %s' % users)
    # ------------------------------------------------------------------ R4 posting symmetry
    ctx.rule('C11.R4', 'posting symmetry: for every posting structure of MetadataInvertedIndex, remove_doc takes the document out under exactly the value '
                       'conditions under which insert_doc put it in (conditions on the key/value pair: numeric-parsable, NaN; presence tests on the maps are '
                       'ignored), and both walk the same metadata map — otherwise an update that reuses the internal id leaves a stale posting that later '
                       'filters include or subtract')
    ins = ctx.body('C11.R4', 'MetadataInvertedIndex::insert_doc')
    rem = ctx.body('C11.R4', 'MetadataInvertedIndex::remove_doc')

    def _postings(b, method):
        of_ = flow.Origin(b)
        preds = [(i, tg, p) for i, blk in enumerate(b.blocks) if blk['t']['k'] == 'switch' and i in b.live_blocks() for tg, p in flow.switch_edge_predicates(b, i, of_)]
        value_edges = [(i, tg, p) for i, tg, p in preds if 'arg:self' not in p]
        out = {}
        for c in b.calls:
            if not (c.callee and re.search(r'roaring::treemap::\w+::%s$' % method, c.callee) and c.args):
                continue
            r = flow.render(of_.of_operand(c.args[0]))
            m = re.search(r'arg:self→MetadataInvertedIndex\.(\w+)', r)
            if not m:
                continue
            doc = flow.render(of_.of_operand(c.args[1])) if len(c.args) > 1 else ''
            must = set()
            for i, tg, p in value_edges:
                if c.bb not in b.reach([0], avoid_edges=[(i, tg)]):
                    must.add(p)
            out.setdefault(m.group(1), []).append((c, frozenset(must), doc))
        return out
    if ins is not None and rem is not None:
        pi = _postings(ins, 'insert')
        pr = _postings(rem, 'remove')
        ctx.inst('C11.R4', 'MetadataInvertedIndex', 'insert_doc and remove_doc maintain the same posting structures', sorted(pi) == sorted(pr) and len(pi) >= 5,
                 'insert_doc: %s; remove_doc: %s' % (sorted(pi), sorted(pr)))
        for f in sorted(set(pi) | set(pr)):
            ci = set(m for _, m, _ in pi.get(f, []))
            cr = set(m for _, m, _ in pr.get(f, []))
            docs_ok = all(d == 'arg:doc_id' for _, _, d in pi.get(f, []) + pr.get(f, []))
            def _fmt(cs):
                return ' | '.join(sorted('{' + ', '.join(sorted(re.sub(r"<map::Iter<'a, K, V> as iterator::Iterator>::next\(HashMap::iter\(arg:metadata\)\)@Some→Some\.0", 'kv', x) for x in m)) + '}' for m in cs)) or 'never'
            ctx.inst('C11.R4', 'MetadataInvertedIndex.%s' % f, 'removed under the conditions it is inserted under', bool(ci) and ci == cr and docs_ok,
                     'insert_doc: %s; remove_doc: %s' % (_fmt(ci), _fmt(cr)))
    # rebuild completeness: the rebuild (recovery, preloaded construction, tombstone compaction) indexes EVERY live slot — the only slots it may skip are
    # tombstones (alive[i] is None); any further skip condition (empty metadata, …) drops a live document from the alive set and from Not / empty filters
    rb = ctx.body('C11.R4', 'MetadataInvertedIndex::rebuild_from')
    if rb is not None:
        ro = flow.Origin(rb)
        ic = rb.calls_to('MetadataInvertedIndex::insert_doc')
        if len(ic) != 1:
            ctx.missing('C11.R4', 'rebuild_from: exactly one insert_doc call (found %d)' % len(ic))
        else:
            must_e = [(i_, tg, p) for i_, blk in enumerate(rb.blocks) if blk['t']['k'] == 'switch' and i_ in rb.live_blocks() for tg, p in flow.switch_edge_predicates(rb, i_, ro)
                      if ic[0].bb not in rb.reach([0], avoid_edges=[(i_, tg)])]
            must = [p for _, _, p in must_e]
            allowed = [r'^variant\(range::next\(range::Range::Range\{0, cmp::min\(slice::len\(arg:metadata\), slice::len\(arg:alive\)\)\}\)\) = Some$',
                       r'^!bool\[Option::is_none\(arg:alive\[\]\)\]$', r'^bool\[Option::is_some\(arg:alive\[\]\)\]$', r'^variant\(arg:alive\[\]\) = Some$']
            extra = [p for p in must if not any(re.match(a, p) for a in allowed)]
            args = [flow.render(ro.of_operand(a)) for a in ic[0].args[1:]]
            ok4 = len(must) >= 2 and not extra and args[1:] == ['arg:metadata[]']
            det4 = ('additional skip condition(s): %s' % [e[:90] for e in extra]) if extra else 'guards: %s; insert_doc(%s)' % ([m[:50] for m in must], ', '.join(a[:40] for a in args))
            if not ok4:
                # the same walk written with iterators instead of indices — `for (doc_id, (map, owner)) in metadata.iter().zip(alive.iter()).enumerate()`: zip ends
                # with the shorter slice (= min of the two lengths), the k-th item pairs metadata[k] with alive[k], enumerate gives k.  Accepted when ONE `next` call
                # on such an aligned iterator over exactly {position, metadata, alive} feeds everything: its Some edge is the loop guard, the only other condition
                # in front of insert_doc is the tombstone test on the alive component, insert_doc gets the position and the metadata component, and nothing else
                # advances the iterator (a second next / nth / skip on it would shift the slots)
                guards, nexts, unrec = {'loop': [], 'tomb': []}, [], []
                for i_, tg, p in must_e:
                    e_ = ro.of_operand(rb.blocks[i_]['t']['on'])
                    kind = None
                    if e_[0] == 'discr' and p.endswith(' = Some'):
                        nx = _aligned_next(rb, e_[1])
                        it = _aligned_item(rb, e_[1])
                        if nx:
                            kind, who = 'loop', nx
                        elif it and it[1] == ('slot', 'alive'):
                            kind, who = 'tomb', it
                    elif rb.blocks[i_]['t'].get('onty') == 'bool' and (p.startswith('!bool[Option::is_none(') or p.startswith('bool[Option::is_some(')):
                        while e_[0] == 'un' and e_[1] == 'Not':
                            e_ = e_[2]
                        if e_[0] == 'call' and len(e_) > 3 and e_[3] is not None and e_[3].orig in ('core::option::Option::is_none', 'core::option::Option::is_some') and len(e_[2]) == 1:
                            it = _aligned_item(rb, e_[2][0])
                            if it and it[1] == ('slot', 'alive'):
                                kind, who = 'tomb', it
                    if kind is None:
                        unrec.append(p)
                    else:
                        guards[kind].append(who)
                        nexts.append(who[0])
                ia = [_aligned_item(rb, ro.of_operand(a)) for a in ic[0].args[1:]]
                if len(guards['loop']) == 1 and guards['tomb'] and not unrec and len(ia) == 2 and all(ia):
                    nxc, shape, chain = guards['loop'][0]
                    nexts += [ia[0][0], ia[1][0]]
                    leaves = sorted(_shape_leaves(shape))
                    others = []
                    for c_ in rb.calls:
                        if c_ is nxc or c_ in chain or c_.bb not in rb.live_blocks() or rb.is_cleanup(c_.bb) or flow._is_transparent(c_):
                            continue
                        if any(_mentions_iterator(ro.of_operand(a), nxc, chain) for a in c_.args):
                            others.append('%s at %s' % (flow.short(c_.callee or '<indirect>'), c_.loc))
                    ok4 = (all(n is nxc for n in nexts) and leaves == sorted([('idx',), ('slot', 'alive'), ('slot', 'metadata')])
                           and ia[0][1] == ('idx',) and ia[1][1] == ('slot', 'metadata') and not others)
                    if ok4:
                        det4 = 'one aligned iterator %s: loop guard, tombstone test on the alive component, insert_doc(position, metadata component)' % (
                            flow.render(ro.of_operand(nxc.args[0]))[:120])
                    elif others:
                        det4 = 'the zipped iterator is also advanced / consumed by %s' % others[:3]
            ctx.inst('C11.R4', rb.short, 'every live slot is indexed: the only skip is the tombstone test', ok4, det4)
        users = sorted(set(c.body.short.split('::{')[0].split('::')[-1] for c in prog.callers_of('MetadataInvertedIndex::rebuild_from')))
        ctx.inst('C11.R4', rb.short, 'used by construction, recovery and tombstone compaction', set(users) >= {'recover_with_hnsw_params_and_mode', 'compact_tombstones'}, 'callers: %s' % users)
    # ------------------------------------------------------------------ R5 index keys order like the numbers they stand for (finite table)
    ctx.rule('C11.R5', 'the numeric index is a BTreeMap over OrderedF64 keys while the reference predicate compares f64 values (cells of C11.R1), so key order must embed '
                       'f64 order: for all a, b of a fixed table of IEEE-754 edge values (±0, ±subnormal, ±1, decimals, ±f64::MAX, ±inf)  key(a) < key(b) ⇔ a < b  and  '
                       'key(a) = key(b) ⇔ a == b — in particular −0.0 and +0.0, equal for the reference, share one key. Decided by evaluating the MIR of '
                       'OrderedF64::from_f64 on the table (nothing is executed); keys are compared the way the derived Ord does (unsigned integer order of field 0). A '
                       'failing pair is a stored value / range bound on which index and reference disagree; order outside the table is not decided')
    kf = ctx.body('C11.R5', 'OrderedF64::from_f64')
    TABLE5 = [float('-inf'), -1.7976931348623157e308, -1e300, -2.5, -1.0, -2.2250738585072014e-308, -5e-324, -0.0, 0.0, 5e-324, 2.2250738585072014e-308, 0.1, 1.0,
              2.5, 3.0, 1e300, 1.7976931348623157e308, float('inf')]
    keys5 = {}
    why5 = None
    try:
        for n_, v_ in enumerate(TABLE5):
            r_ = eval_pure(prog, kf, [v_])
            while isinstance(r_, tuple) and len(r_) == 1:
                r_ = r_[0]
            if not isinstance(r_, int) or isinstance(r_, bool):
                raise _NoEval('the key is not a single integer: %r' % (r_,))
            keys5[n_] = r_
    except _NoEval as e_:
        why5 = str(e_)
    if why5 is not None:
        ctx.missing('C11.R5', 'OrderedF64::from_f64 in the evaluable MIR fragment (%s)' % why5)
    else:
        import math
        def _f(v_):
            return ('-0.0' if v_ == 0 and math.copysign(1, v_) < 0 else repr(v_))
        eq_bad = [(a_, b_) for a_ in keys5 for b_ in keys5 if a_ < b_ and (TABLE5[a_] == TABLE5[b_]) != (keys5[a_] == keys5[b_])]
        lt_bad = [(a_, b_) for a_ in keys5 for b_ in keys5 if a_ != b_ and (TABLE5[a_] < TABLE5[b_]) != (keys5[a_] < keys5[b_])]
        lt_bad = [x for x in lt_bad if x not in eq_bad and (x[1], x[0]) not in eq_bad]
        ctx.inst('C11.R5', kf.short, 'values equal for the reference share one index key (-0.0 and +0.0)', not eq_bad,
                 ('key(%s) = %#018x but key(%s) = %#018x although the reference compares them equal: a range bound of the one sign misses / wrongly takes a stored zero of the other' % (
                     _f(TABLE5[eq_bad[0][0]]), keys5[eq_bad[0][0]], _f(TABLE5[eq_bad[0][1]]), keys5[eq_bad[0][1]])) if eq_bad else
                 'key(-0.0) = key(0.0) = %#018x; %d table values, distinct values have distinct keys' % (keys5[TABLE5.index(0.0)], len(TABLE5)))
        ctx.inst('C11.R5', kf.short, 'key order agrees with f64 order on the table of IEEE edge values', not lt_bad,
                 ('%s < %s is %s but key order says %s (keys %#018x, %#018x)' % (_f(TABLE5[lt_bad[0][0]]), _f(TABLE5[lt_bad[0][1]]), TABLE5[lt_bad[0][0]] < TABLE5[lt_bad[0][1]],
                                                                             keys5[lt_bad[0][0]] < keys5[lt_bad[0][1]], keys5[lt_bad[0][0]], keys5[lt_bad[0][1]])) if lt_bad else
                 '%d ordered pairs agree' % (len(TABLE5) * (len(TABLE5) - 1)))
    oc = [b_ for b_ in prog.bodies.values() if re.search(r'^<.*hnsw_backend::OrderedF64 as core::cmp::Ord>::cmp$', b_.id)]
    if not oc:
        ctx.missing('C11.R5', 'impl Ord for OrderedF64')
    for b_ in oc:
        o5 = flow.Origin(b_)
        cs = [c for c in b_.calls if c.callee and re.search(r'cmp::(impls::)?(Ord::)?cmp$|Ord>::cmp$', c.callee)]
        a5 = [flow.render(o5.of_operand(a)) for a in cs[0].args] if len(cs) == 1 else []
        ctx.inst('C11.R5', 'OrderedF64', 'keys are compared as the integers they wrap (self.0 with other.0, in this order)', a5 == ['arg:self→OrderedF64.0', 'arg:other→OrderedF64.0'],
                 'Ord::cmp compares %s' % (a5 or 'something else than one integer comparison'))
    # ... and it is this key function that both sides of the numeric index use: postings are filed and removed under from_f64(value), ranges are taken from from_f64(bound)
    users5 = sorted(set(c.body.short.split('::')[-1] for c in prog.callers_of('OrderedF64::from_f64')))
    ctx.inst('C11.R5', 'OrderedF64::from_f64', 'one key function for filing, removing and ranging', set(users5) >= {'insert_doc', 'remove_doc', 'bitmap_for_range_numeric'}, 'callers: %s' % users5)
    # ------------------------------------------------------------------ R6 what is taken out of the index is what was put in
    ctx.rule('C11.R6', 'remove_doc / replace_doc take a slot\'s postings out by walking the map they are GIVEN (C11.R4: under the conditions insert_doc filed them), so that map '
                       'must be the slot\'s stored metadata, read from DocumentStore.metadata[slot] before it is overwritten: at every call site in HnswBackend the pre-image '
                       'argument originates, on every path, from a read of DocumentStore.metadata (directly, through the closure that clones it, or through the queue of '
                       '(slot, old map) pairs a later loop drains) — never a fresh map or the caller\'s new map. With an empty pre-image the old postings stay filed for a '
                       'live slot: Exact / In / Range / Not over the replaced values keep selecting the document and a filtered batch delete removes it')

    def _spine_is_store(e):
        """Receiver chain of e (first argument of calls, base of projections) ends in a read of the field DocumentStore.metadata."""
        for _ in range(12):
            t_ = e[0]
            if t_ == 'field' and e[2].endswith('DocumentStore.metadata'):
                return True
            if t_ in ('field', 'index', 'downcast', 'cast'):
                e = e[1]
            elif t_ == 'call' and e[2]:
                e = e[2][0]
            else:
                return False
        return False

    def _is_queue(b_, ovb, l_):
        return any(c.callee and c.callee.endswith('::push') and c.args and ovb.of_operand(c.args[0])[:2] == ('var', l_) for c in b_.calls)

    def _expand(b_, ovb, e, depth=0):
        """The variable-level origin with named copies substituted by their definitions (a local that is pushed into — a queue — keeps its identity)."""
        t_ = e[0]
        if depth > 10:
            return e
        if t_ == 'var':
            if _is_queue(b_, ovb, e[1]):
                return e
            n_ = ovb.of_local(e[1])
            return _expand(b_, ovb, n_, depth + 1) if n_ != e else e
        if t_ in ('field', 'downcast', 'cast', 'index'):
            base = _expand(b_, ovb, e[1], depth + 1)
            if t_ == 'field' and base[0] == 'agg' and base[1] == 'tuple' and re.match(r'^\.\d+$', e[2]) and int(e[2][1:]) < len(base[2]):
                return base[2][int(e[2][1:])]
            return (t_, base) + tuple(e[2:])
        if t_ == 'call':
            return ('call', e[1], [_expand(b_, ovb, a, depth + 1) for a in e[2]]) + tuple(e[3:])
        if t_ == 'agg':
            return ('agg', e[1], [_expand(b_, ovb, a, depth + 1) for a in e[2]]) + tuple(e[3:])
        if t_ == 'phi':
            return ('phi', [_expand(b_, ovb, a, depth + 1) for a in e[1]])
        return e

    def _preimage_leaves(b_, ovb, e, depth=0):
        """Alternatives of a value with named copies expanded, Option::map closures entered and queue elements traced back to what was pushed: list of (is_store, text)."""
        if depth > 6:
            return [(False, flow.render(e)[:80])]
        out = []
        for a in flow.top_alternatives(_expand(b_, ovb, e)):
            while a[0] == 'cast':
                a = a[1]
            if _spine_is_store(a):
                out.append((True, 'DocumentStore.metadata[..]'))
                continue
            # peel the projections down to  <something>@Some→Some.0
            proj, cur = [], a
            while cur[0] in ('field', 'index', 'cast') and not (cur[0] == 'field' and cur[1][0] == 'downcast'):
                proj.append(cur[2] if cur[0] == 'field' else '[]')
                cur = cur[1]
            if cur[0] == 'field' and cur[1][0] == 'downcast' and cur[1][2] == 'Some':
                proj = list(reversed(proj))
                srcs = [x for x in flow.top_alternatives(cur[1][1])]
                handled = bool(srcs)
                sub = []
                for src in srcs:
                    if src[0] == 'agg' and src[1].endswith('Option::Some') and len(src[2]) == 1 and not proj:
                        sub += _preimage_leaves(b_, ovb, src[2][0], depth + 1)      # Some(x) built right here
                    elif src[0] == 'agg' and src[1].endswith('Option::None'):
                        pass                                                          # no pre-image on this path: nothing is removed
                    elif src[0] == 'call' and flow.short(src[1]) == 'Option::map' and len(src[2]) == 2 and src[2][1][0] == 'agg' and src[2][1][1].startswith('closure:') and not proj:
                        cid = src[2][1][1].split(':', 1)[1]
                        cb_ = prog.bodies.get(cid) or next((q for q in prog.family(b_) if q.id == cid), None)
                        if cb_ is None:
                            handled = False
                        else:
                            oc_ = flow.Origin(cb_, stop_at_vars=True)
                            sub += _preimage_leaves(cb_, oc_, oc_.of_local(0), depth + 1)
                    elif src[0] == 'call' and src[1].endswith('::next') and src[2] and src[2][0][0] == 'var':
                        pushes = [c for c in b_.calls if c.callee and c.callee.endswith('::push') and len(c.args) > 1 and ovb.of_operand(c.args[0])[:2] == ('var', src[2][0][1])]
                        if not pushes:
                            handled = False
                        for c in pushes:
                            v_ = _expand(b_, ovb, ovb.of_operand(c.args[1]))
                            ok_ = True
                            for pj in proj:
                                if re.match(r'^\.\d+$', pj) and v_[0] == 'agg' and v_[1] == 'tuple' and int(pj[1:]) < len(v_[2]):
                                    v_ = v_[2][int(pj[1:])]
                                else:
                                    ok_ = False
                            sub += _preimage_leaves(b_, ovb, v_, depth + 1) if ok_ else [(False, 'component %s of what is pushed at %s' % (''.join(proj), c.loc))]
                    else:
                        handled = False
                if handled:
                    out += sub
                    continue
            out.append((False, flow.render(a)[:90]))
        return out
    n_pre = 0
    for c in sorted(prog.callers_of('MetadataInvertedIndex::remove_doc', 'MetadataInvertedIndex::replace_doc'), key=lambda c: (c.body.short, c.loc)):
        if 'hnsw_backend::HnswBackend::' not in c.body.id or len(c.args) < 3:
            continue
        n_pre += 1
        ovb = flow.Origin(c.body, stop_at_vars=True)
        leaves = _preimage_leaves(c.body, ovb, ovb.of_operand(c.args[2]))
        bad6 = sorted(set(t_ for ok_, t_ in leaves if not ok_))
        ctx.inst('C11.R6', c.body.short, 'the map given to %s as pre-image is the stored metadata of the slot' % flow.short(c.callee).split('::')[-1], bool(leaves) and not bad6,
                 ('on some path the pre-image is %s — not what insert_doc filed for the slot: its postings are not taken out' % ' / '.join(bad6)) if bad6 or not leaves else
                 'every alternative is read from DocumentStore.metadata[slot] (%d)' % len(leaves))
    ctx.floor('C11.R6', 'pre-image arguments of remove_doc / replace_doc in HnswBackend', n_pre, 4, 'insert (overwrite), update_metadata, delete, batch_delete')
    ctx.stat('functions_analysed', len(set(i['key'].split(' | ')[1] for i in ctx.instances)))
