"""C12 — restoring a backup reproduces the collection as of that backup.

Decided statically: every archive of the restore chain is verified before the target is cleared and only verified
archives are extracted; unlinking target files requires the explicit confirmation and no dry-run; verification returns Ok
only on an equal checksum and member names are validated before they become paths; pruning consults parent links; full
and incremental backups agree on the archive protocol, an incremental ships the snapshot its MANIFEST names and every listed / selected log
segment is archived; restore targets are opened truncating and the point-in-time chain is recorded base first; nothing in the product sets the
confirmation variable.
Equality of the restored collection and detection of metadata edits other than the checksum are not decided.
"""
import re

from kvstatic import flow, pathsens, rt, util
from kvstatic.effects import Effects

MANIFEST = {
    'text': 'Decides the structural clauses of safe restore and retention: verify-all-before-clear and extract-only-verified in '
            'both restore entry points, confirmation (allow_clear ∨ BACKUP_ALLOW_CLEAR=true) ∧ ¬dry_run dominating every unlink of '
            'the target directory, checksum gate, validated member names, closed inventory of unlink sites in backup.rs, prune '
            'retaining the parent chain of retained backups, full/incremental sibling agreement incl. shipping the snapshot the '
            'archived MANIFEST names and every log segment it lists, truncating restore targets and base-first recording of the point-in-time chain, '
            'no writer of the confirmation variable in the product. Necessary conditions; equality of the restored collection is not decided.',
    'design_ref': 'DESIGN.md §4.12, §5 F4/F5',
    'note': 'Trusted base: rustc MIR, loop-exit dominance for "all verified", path-sensitive exploration for the confirmation guard.',
    'technique': 'loop-exit dominance, path-sensitive guard check, origin tracing and closed inventories on MIR',
}

EXPLANATION = 'ORD/GUARD/INV/FLOW/TABLE rules of DESIGN §4.12 over backup.rs and the backup CLI.'


def _explore(body, atoms, **kw):
    import kvstatic.pathsens as ps
    orig = ps.Origin
    try:
        ps.Origin = lambda b: flow.Origin(b, stop_at_vars=True)
        return ps.explore(body, atoms, **kw)
    finally:
        ps.Origin = orig


def loop_head_for(body, inner_bb):
    """Innermost `Iterator::next` call block that dominates inner_bb and is reachable from it (a loop around inner_bb)."""
    hs = [c for c in body.calls if c.callee and c.is_('re:Iterator>::next$') and body.dominates(c.bb, inner_bb) and c.bb in body.reach([inner_bb])]
    hs = sorted(hs, key=lambda h: -sum(1 for g in hs if body.dominates(g.bb, h.bb)))
    return hs[0] if hs else None


def iterated(src):
    """`for x in &v`, `for x in v.iter()`, `for x in v.into_iter()` all walk the whole of v: the variable behind the adaptor"""
    m = re.match(r"^(?:[\w:<>&', ]*::(?:iter|into_iter)\()?(var:\w+)\)?$", src)
    return m.group(1) if m and src.count('(') == src.count(')') else src


def named_bool(body, ov, p):
    """A test kept in a named bool with a single definition (`let spared = set.contains(..); if !spared {`): the predicate of the switch on it,
    rewritten over the definition (variable level), so that it reads like the test written in place."""
    m = re.match(r'^(!?)bool\[var:(\w+)\]$', p)
    ls = body.var_local(m.group(2)) if m else []
    if len(ls) != 1 or body.locals[ls[0]] != 'bool':
        return p
    if len([d for d in body.defs.get(ls[0], []) if d[2] in ('assign', 'call', 'pcall', 'passign')]) != 1:
        return p
    return '%sbool[%s]' % (m.group(1), flow.render(ov.of_local(ls[0])))


def loop_source_full(body, head_call):
    """util.loop_source with every variable expanded: the fully expanded origin of what a `for` loop iterates"""
    a = head_call.args[0]
    l = a['pl']['l'] if a.get('pl') else None
    for _ in range(4):
        nxt = None
        for d in body.defs.get(l, []):
            if d[2] == 'assign' and d[3]['rv']['k'] == 'ref':
                nxt = d[3]['rv']['pl']['l']
        if nxt is None:
            break
        l = nxt
    return flow.render(flow.Origin(body).of_local(l))


class CollectSite:
    """One verification written in iterator form: `<chain>.iter().map(|m| { .. verify_backup_archive(m)? .. Ok(..) }).collect::<Result<Vec<_>, _>>()` —
    the closure body plays the part of the loop body, the `collect` call that of the whole loop (what follows its success edge follows the loop's exit)."""
    def __init__(self, collect, closure, call, src):
        self.collect = collect   # the Iterator::collect call in the function body
        self.closure = closure   # the map closure (a Body)
        self.call = call         # the verify call inside the closure
        self.src = src           # variable-level rendering of what the map runs over


def collect_sites(prog, f, callee):
    """Call sites of `callee` that sit in the closure of a `map(..)` whose items are collected into a `Result<Vec<_>, _>` in `f`.  Trusted (library semantics, as
    `Iterator::next` is for a `for` loop): `Iterator::map` calls its closure once per element of the underlying iterator, in order, when the adaptor is
    consumed; `collect` into `Result<V, E>` consumes it element by element, stops at the first `Err` item and returns that `Err`, and returns `Ok` only when
    every item was `Ok`.  Only this exact shape qualifies: the collect's receiver IS the map adaptor (no filter / skip / take / rev in between: those show as
    another call around or below and are left to fail the source test), the target type is `Result<Vec<..>, ..>` (a `Vec<Result<..>>` stops nothing), the
    closure is a closure of `f`.  What the closure must do is checked by the caller."""
    out = []
    ov = flow.Origin(f, stop_at_vars=True)
    for c in f.calls:
        if c.callee != 'core::iter::traits::iterator::Iterator::collect' or not c.args or not c.dest or c.dest.get('p'):
            continue
        if not re.match(r'^core::result::Result<alloc::vec::Vec<', f.locals[c.dest['l']]):
            continue
        t = ov.of_operand(c.args[0])
        if not (t[0] == 'call' and t[1] == 'core::iter::traits::iterator::Iterator::map' and len(t[2]) == 2):
            continue
        src_t, cl_t = t[2]
        if not (cl_t[0] == 'agg' and isinstance(cl_t[1], str) and cl_t[1].startswith('closure:')):
            continue
        cl = prog.bodies.get(cl_t[1][len('closure:'):])
        if cl is None or cl.kind != 'Closure' or cl.parent != f.id:
            continue
        for v in cl.calls_to(callee):
            out.append(CollectSite(c, cl, v, flow.render(src_t)))
    return out


def closure_ok_payloads(cl):
    """(origin trees of the payloads of the closure's `Ok(..)` returns, everything else it may return — other than a propagated `?` residual)"""
    t = flow.Origin(cl).of_local(0)
    oks, other = [], []
    for a in (t[1] if t[0] == 'phi' else [t]):
        if a[0] == 'agg' and isinstance(a[1], str) and a[1].endswith('Result::Ok') and len(a[2]) == 1:
            oks.append(a[2][0])
        elif a[0] == 'call' and isinstance(a[1], str) and a[1].endswith('from_residual'):
            continue
        else:
            other.append(a)
    return oks, other


def through_named_copy(body, tree):
    """`let parent_timestamp = parent_metadata.timestamp;` — a plain copy of a place kept under a name.  When the variable has that one definition and the
    variable copied FROM is never written again (a single whole definition, no field assignment, no `&mut` borrow), the copy equals the place wherever both are
    in scope: the variable-level origin of the definition.  Otherwise the tree itself."""
    if tree[0] != 'var':
        return tree
    ds = body.defs.get(tree[1], [])
    if len(ds) != 1 or ds[0][2] != 'assign' or ds[0][3]['rv']['k'] != 'use' or ds[0][3]['rv']['a'].get('k') not in ('cp', 'mv'):
        return tree
    src = ds[0][3]['rv']['a']['pl']['l']
    if len(body.defs.get(src, [])) != 1 or '*' in ds[0][3]['rv']['a']['pl'].get('p', []):
        return tree   # (copied through a reference: what it points to is not this body's to vouch for)
    for blk in body.blocks:
        for s in blk['s']:
            rv = s.get('rv')
            if rv and rv['k'] in ('ref', 'rawptr') and rv['pl']['l'] == src and (rv.get('mut') or rv['k'] == 'rawptr'):
                return tree
    return flow.Origin(body, stop_at_vars=True).of_local(tree[1])


def file_opens(prog, body, tree, depth=2):
    """[(body, origin tree of the call)] — the file-opening calls from which the value `tree` (a writer) obtains its file: through wrappers (BufWriter::new(..)), `?`,
    alternatives, and local helper functions that return the File; the arguments of an opening call or of such a helper (the path) are not searched"""
    t = tree
    if t[0] == 'call':
        if re.search(r'(^|::)(OpenOptions::open|File::create|File::create_new|File::open)$', flow.short(t[1])):
            return [(body, t)]
        g = prog.resolve_local(t[1])
        if g is not None and g is not body and re.search(r'\bfs::File\b', g.locals[0]):
            return file_opens(prog, g, flow.Origin(g).of_local(0), depth - 1) if depth > 0 else []
        return [x for a_ in t[2] for x in file_opens(prog, body, a_, depth)]
    if t[0] in ('field', 'downcast', 'cast', 'index', 'set'):
        return file_opens(prog, body, t[1], depth)
    if t[0] == 'phi':
        return [x for a_ in t[1] for x in file_opens(prog, body, a_, depth)]
    return []


def opens_truncating(t):
    """File::create, or an OpenOptions chain with write(true) and truncate(true) and without append"""
    sh = flow.short(t[1])
    if sh.endswith('File::create'):
        return True
    if not sh.endswith('OpenOptions::open') or not t[2]:
        return False
    on = {}
    for x in flow.walk(t[2][0]):
        if x[0] == 'call' and len(x[2]) == 2 and x[2][1][0] == 'const':
            on[flow.short(x[1]).rsplit('::', 1)[-1]] = x[2][1][2]
    return on.get('truncate') == 1 and on.get('write') == 1 and not on.get('append')


def _body(prog, ident):
    try:
        return prog.body(ident)
    except KeyError:
        return None


def _captures(prog, closure):
    """(enclosing body, variable-level origin trees of what `closure` captures, in capture order) — read off the closure's construction
    site in the enclosing body."""
    parent = prog.bodies.get(closure.parent) if closure is not None and closure.parent else None
    if parent is None:
        return None, []
    ov = flow.Origin(parent, stop_at_vars=True)
    for blk in parent.blocks:
        for s in blk['s']:
            rv = s.get('rv')
            if rv and rv['k'] == 'agg' and rv.get('ak') == 'closure' and rv.get('def') == closure.id:
                return parent, [ov.of_operand(o) for o in rv['ops']]
    return parent, []


def _cap_index(tree):
    """capture number of an origin tree that is a capture of the body it was computed in (`cap:x`), else None"""
    if tree[0] == 'field' and isinstance(tree[2], str) and tree[2].startswith('^') and tree[1][0] == 'arg' and tree[1][1] == 1:
        m = re.match(r'^\^(\d+):', tree[2])
        return int(m.group(1)) if m else None
    return None


def cap_of(prog, closure, local, default):
    """How `closure` renders the capture of variable `local` of its enclosing body.  A capture carries the SOURCE name of the captured variable
    (`cap:<name>`), so a rename of that variable renames the capture: find the capture by position at the construction site instead.
    `default` (the historical name) when the variable is not known or not captured."""
    if local is None:
        return default
    parent, trees = _captures(prog, closure)
    for i, t in enumerate(trees):
        while t[0] in ('field', 'downcast', 'index') and _cap_index(t) is None:
            t = t[1]
        if t[0] == 'var' and t[1] == local:
            for v in closure.vars:
                for e in v['pl'].get('p', []):
                    if isinstance(e, str) and e.startswith('^%d:' % i):
                        return e.split(':', 1)[1]
    return default


def capture_source(prog, closure, idx, depth=4):
    """Rendering, in the body that owns the variable, of what capture `idx` of `closure` captures (followed outwards through enclosing closures that
    merely pass their own capture on — also across a helper fn inlined into such a closure (kvstatic/inline.py): the helper's parameter carries no name, so
    the inner closure's capture of it renders as the enclosing closure's own capture); '' when it cannot be resolved."""
    parent, trees = _captures(prog, closure)
    if parent is None or idx is None or idx >= len(trees):
        return ''
    t = trees[idx]
    j = _cap_index(t)
    if j is not None and depth > 0:
        return capture_source(prog, parent, j, depth - 1)
    # (a value read once into a named temporary before the closure is built — `let since = parent.timestamp;` — is that value: through_named_copy)
    return flow.render(through_named_copy(parent, t))


def bind_roles(prog):
    """The locals of /repo these rules talk about, found by what they ARE (type, defining callee / field, how they are used) and made to render under
    the role name, so that a rename in /repo changes nothing here (util.bind_role; a role that is not found leaves the name-based behaviour).
    Must run before any Origin of these bodies is built.  Returns {(function, role): local} for the roles the rules address by local number
    (their role name differs from the source name because a later `let` shadows it under the same name)."""
    R = {}
    rb = _body(prog, 'RestoreManager::restore_from_backup_with_options')
    pit = _body(prog, 'RestoreManager::restore_point_in_time_with_options')
    meta = r'(?:\w+::)*BackupMetadata'
    uuid = r'(?:\w+::)*Uuid'
    for f in (rb, pit):
        # the (id, archive path) pairs recorded by the verification and consumed by the extraction
        if util.bind_role(f, 'verified_archives', type_rx=r'Vec<\(%s, (?:\w+::)*PathBuf\)>$' % uuid, used_as=(r'Vec(<.*>)?::push$', 0)) is None:
            # .. or collected from an iterator over the chain (the iterator form of the verification loop, collect_sites)
            util.bind_role(f, 'verified_archives', type_rx=r'Vec<\(%s, (?:\w+::)*PathBuf\)>$' % uuid, origin_rx=r'^Iterator::collect\(Iterator::map\(', full=True)
    # restore by id: what is restored is either the requested backup alone or the ancestry chain built in another variable
    util.bind_role(rb, 'restore_chain', type_rx=r'Vec<%s>$' % meta, origin_rx=r'^phi\(.* \| var:\w+\)$')
    # .. and the walk follows the Some payload of the current element's parent link
    util.bind_role(rb, 'parent_id', type_rx=r'^%s$' % uuid, origin_rx=r'^var:\w+→BackupMetadata\.parent_id@Some→Some\.0$')
    # point in time: the hops collected (by reference), the hop candidate produced by a search over the list, the id the walk stands on,
    # the slot that receives the base
    util.bind_role(pit, 'incrementals', type_rx=r'Vec<&%s>$' % meta, used_as=(r'Vec(<.*>)?::push$', 0))
    util.bind_role(pit, 'next', type_rx=r'^core::option::Option<&%s>$' % meta, assigned_from=r'Iterator>?::\w+$')
    R['pit', 'current_id'] = util.bind_role(pit, 'current_id', type_rx=r'^%s$' % uuid, origin_rx=r'^phi\(\S+→BackupMetadata\.id \| \S+→BackupMetadata\.id\)$')
    R['pit', 'base'] = util.bind_role(pit, 'base_slot', type_rx=r'^core::option::Option<&%s>$' % meta,
                                      origin_rx=r'^phi\(option::Option::None\{\} \| option::Option::Some\{.*\}\)$')
    # .. and the base itself: the backup whose archive is verified directly (not through the loop over the hops)
    R['pit', 'base_ref'] = util.bind_role(pit, 'full_backup', type_rx=r'^&%s$' % meta, used_as=(r'RestoreManager::verify_backup_archive$', 1))
    # clear: the boolean read from the environment
    util.bind_role(_body(prog, 'RestoreManager::clear_data_directory'), 'env_confirm', type_rx=r'^bool$', origin_rx=r'env::var\(', full=True)
    # verify: the checksum recomputed from the archive
    util.bind_role(_body(prog, 'RestoreManager::verify_backup_archive'), 'computed_checksum', type_rx=r'^u32$', assigned_from=r'backup::compute_backup_checksum')
    # prune: the set whose membership spares a backup
    util.bind_role(_body(prog, 'BackupManager::prune_backups'), 'to_keep', type_rx=r'HashSet<%s>$' % uuid, used_as=(r'HashSet(<.*>)?::contains$', 0))
    inc = _body(prog, 'BackupManager::create_incremental_backup')
    for nm, f in (('full', _body(prog, 'BackupManager::create_full_backup')), ('inc', inc)):
        # the slot that receives the checksum of the archive written, and the snapshot name recorded in the metadata
        R[nm, 'checksum'] = util.bind_role(f, 'checksum_slot', type_rx=r'^core::option::Option<u32>$', origin_rx=r'write_backup_archive\(', full=True)
        util.bind_role(f, 'snapshot_file', type_rx=r'^core::option::Option<(?:\w+::)*String>$', origin_rx=r'Manifest\.latest_snapshot', full=True)
    # incremental: the parent's decoded metadata, its highest segment id, the "modified since the parent" test
    R['inc', 'parent_metadata'] = util.bind_role(inc, 'parent_metadata', type_rx=r'^%s$' % meta, assigned_from=r'(?:serde_json::)?de::from_str')
    R['inc', 'parent_max'] = util.bind_role(inc, 'parent_max', type_rx=r'^u64$', origin_rx=r'→BackupMetadata\.max_wal_file_id@Some→Some\.0$', full=True)
    return R


def run(ctx, prog):
    ctx.not_decided = ['equality of the restored collection with the collection at backup time',
                       'detection of metadata (.json) edits other than through the archive checksum']
    eff = Effects(prog)
    roles = bind_roles(prog)
    # ------------------------------------------------------------------ R1
    ctx.rule('C12.R1', 'verify before clear: in both restore entry points every iteration of the verification loop crosses the success '
                       'edge of verify_backup_archive, clear_data_directory is reached only through that loop\'s exit, extraction happens only '
                       'after a successful clear on the ¬dry_run edge and only for archives recorded by the verification loop')
    for fn in ('RestoreManager::restore_from_backup_with_options', 'RestoreManager::restore_point_in_time_with_options'):
        f = ctx.body('C12.R1', fn)
        ov = flow.Origin(f, stop_at_vars=True)
        ver = f.calls_to('RestoreManager::verify_backup_archive')
        # .. and the verify sites of the iterator form `chain.iter().map(|m| { .. verify(m)? .. Ok(..) }).collect::<Result<Vec<_>>>()?` (collect_sites)
        cver = collect_sites(prog, f, 'RestoreManager::verify_backup_archive')
        clr = f.calls_to('RestoreManager::clear_data_directory')
        ext = f.calls_to('RestoreManager::extract_backup_archive')
        if not (ver or cver) or not clr or not ext:
            ctx.missing('C12.R1', '%s: verify/clear/extract calls (%d/%d/%d)' % (fn, len(ver) + len(cver), len(clr), len(ext)))
            continue
        # each verify site: in a loop ⇒ every iteration verifies and the clear is behind the loop exit; straight-line ⇒ its
        # success edge dominates the clear
        gate_edges = []
        for k, v in enumerate(ver):
            use = util.result_use(f, v)
            h = loop_head_for(f, v.bb)
            v_succ = flow.success_edges(f, v)
            if h is None:
                gate_edges.append(set(v_succ))
                r0 = f.reach([0], avoid_edges=v_succ)
                ctx.inst('C12.R1', f.short, 'verify #%d succeeds before the clear' % k, all(c.bb not in r0 for c in clr) and use == 'propagated',
                         'verify_backup_archive at %s (straight-line), result %s' % (v.loc, use))
            else:
                s_e, f_e = flow.outcome_edges(f, h)
                body_start = [e[1] for e in s_e]
                r = f.reach(body_start, avoid_edges=v_succ) | set(body_start)
                ctx.inst('C12.R1', f.short, 'verify #%d: every iteration verifies its archive' % k, h.bb not in r and use == 'propagated',
                         'next iteration reachable without a successful verify: %s; verify result: %s' % (h.bb in r, use))
                r0 = f.reach([0], avoid_edges=f_e)
                ctx.inst('C12.R1', f.short, 'verify #%d: clear only after the verification loop finished' % k, all(c.bb not in r0 for c in clr) and bool(f_e),
                         'clear_data_directory %s' % ('reachable without the loop exit' if any(c.bb in r0 for c in clr) else 'dominated by the loop exit'))
                src = util.loop_source(f, h)
                ctx.inst('C12.R1', f.short, 'verify #%d: the loop covers the chain' % k, iterated(src) in ('var:restore_chain', 'var:incrementals'), 'verification loop iterates %s' % src)
        # the iterator form: the closure body is the loop body (its Ok return = "next iteration", its Err return = leaving the function through the `?` on the
        # collected Result), the success edge of that `?` is the loop's exit
        for k, cs in enumerate(cver, len(ver)):
            cl, v = cs.closure, cs.call
            use = util.result_use(cl, v)
            v_succ = flow.success_edges(cl, v)
            r = cl.reach([0], avoid_blocks=flow.err_blocks(cl), avoid_edges=v_succ)
            oks, other = closure_ok_payloads(cl)
            elem = flow.Origin(cl).of_operand(v.args[1]) if len(v.args) == 2 else ('?',)
            this_elem = elem[0] == 'arg' and elem[1] == 2   # (closure locals: _1 environment, _2 the element handed in by map)
            ctx.inst('C12.R1', f.short, 'verify #%d: every iteration verifies its archive' % k,
                     not any(x in r for x in cl.return_blocks()) and use == 'propagated' and bool(oks) and not other and this_elem,
                     'map closure %s: an Ok item without a successful verify: %s; verify result: %s; verifies the element it is handed: %s; returns other than Ok(..) / `?`: %d' % (
                         cl.short.split('::')[-1], any(x in r for x in cl.return_blocks()), use, this_elem, len(other)))
            c_use = util.result_use(f, cs.collect)
            c_ok = flow.success_edges(f, cs.collect) if c_use == 'propagated' else []
            r0 = f.reach([0], avoid_edges=c_ok)
            ctx.inst('C12.R1', f.short, 'verify #%d: clear only after the verification loop finished' % k, all(c.bb not in r0 for c in clr) and bool(c_ok),
                     'collected Result %s; clear_data_directory %s' % (c_use, 'reachable without its Ok edge' if any(c.bb in r0 for c in clr) or not c_ok else 'dominated by its Ok edge'))
            ctx.inst('C12.R1', f.short, 'verify #%d: the loop covers the chain' % k, iterated(cs.src) in ('var:restore_chain', 'var:incrementals'), 'map(..).collect() runs over %s' % cs.src)
        # what is extracted is what was verified
        eh = loop_head_for(f, ext[0].bb)
        esrc = util.loop_source(f, eh) if eh is not None else '?'
        ctx.inst('C12.R1', f.short, 'only verified archives are extracted', iterated(esrc) == 'var:verified_archives', 'extraction loop iterates %s' % esrc)
        push = [c for c in f.calls if c.callee and c.callee.endswith('::push') and c.args and flow.render(ov.of_operand(c.args[0])) == 'var:verified_archives']
        pv = [flow.render(flow.Origin(f).of_operand(c.args[1])) for c in push]
        rec_ok, rec_d = bool(push) and len(push) == len(ver) and all('verify_backup_archive' in x for x in pv), '%d pushes for %d verify sites' % (len(push), len(ver))
        if cver:
            # iterator form: verified_archives IS the collected Vec (its one definition is the Ok payload of the collect), and every item the closure yields is
            # a pair whose path is what verify_backup_archive returned for the element; direct sites (if any) push as before
            va = f.var_local('verified_archives')
            t_ = flow.Origin(f).of_local(va[0]) if len(va) == 1 else ('?',)
            while t_[0] in ('field', 'downcast'):
                t_ = t_[1]
            is_collected = len(set(id(cs.collect) for cs in cver)) == 1 and t_[0] == 'call' and t_[3] is cver[0].collect
            items = []
            for cl in set(cs.closure for cs in cver):
                oks, other = closure_ok_payloads(cl)
                items += [flow.render(x) for x in oks] + ['?' for _ in other]
            pair = r'^tuple\{arg:\w+→BackupMetadata\.id, RestoreManager::verify_backup_archive\(cap:self, arg:\w+\)@Continue→Continue\.0\}$'
            rec_ok = (rec_ok if ver else not push) and is_collected and bool(items) and all(re.match(pair, x) for x in items)
            rec_d += '; verified_archives is the collected Vec: %s; items: %s' % (is_collected, [x[:90] for x in items[:2]])
        ctx.inst('C12.R1', f.short, 'verified_archives records exactly the verified paths', rec_ok, rec_d)
        c_succ = flow.success_edges(f, clr[0])
        dry = []
        for i, blk in enumerate(f.blocks):
            if blk['t']['k'] == 'switch':
                for tg, p in flow.switch_edge_predicates(f, i, ov):
                    if re.match(r'^!bool\[arg:clear_options→ClearDirectoryOptions\.dry_run\]$', p):
                        dry.append((i, tg))
        r1 = f.reach([0], avoid_edges=c_succ)
        r2 = f.reach([0], avoid_edges=dry)
        ctx.inst('C12.R1', f.short, 'extract only after a successful clear and not in dry-run', all(e.bb not in r1 and e.bb not in r2 for e in ext) and bool(dry),
                 'extract reachable without clear success: %s; without the ¬dry_run edge: %s' % (any(e.bb in r1 for e in ext), any(e.bb in r2 for e in ext)))

    # ------------------------------------------------------------------ R2
    ctx.rule('C12.R2', 'confirmation guard: in clear_data_directory remove_file is reached only with (allow_clear ∨ BACKUP_ALLOW_CLEAR=true) '
                       'and ¬dry_run; unlink sites of backup.rs are exactly own-archive cleanup ×2, prune ×2, clear ×1; nothing outside tests sets allow_clear, and nothing '
                       'in the product writes the environment variable the guard reads (it is the operator\'s confirmation only if the product cannot supply it itself)')
    cd = ctx.body('C12.R2', 'RestoreManager::clear_data_directory')
    rm = [c.bb for c in cd.calls_to('std::fs::remove_file')]
    atoms = [pathsens.Atom('allow', r'^bool\[arg:options→ClearDirectoryOptions\.allow_clear\]$'),
             # (the environment test through its variable, or written in place)
             pathsens.Atom('envc', r'^bool\[var:env_confirm\]$|^bool\[Result::unwrap_or\(Result::map\(env::var\("BACKUP_ALLOW_CLEAR"\), closure:[^()]*\), 0\)\]$'),
             pathsens.Atom('dry', r'^bool\[arg:options→ClearDirectoryOptions\.dry_run\]$')]
    terms, seen = _explore(cd, atoms, stop_blocks=set(rm))
    arr = [t for t in terms if t[0] in rm]
    for nm in ('allow', 'envc', 'dry'):
        if not seen.get(nm):
            ctx.inst('C12.R2', cd.short, 'guard atom ' + nm, False, 'anchor missing: %s is not tested in a recognised form' % nm, nontrivial=False)
    bad = [a for (bb, via, a, p) in arr if not ((a.get('allow') is True or a.get('envc') is True) and a.get('dry') is False)]
    ctx.inst('C12.R2', cd.short, 'unlink only with confirmation and without dry-run', bool(arr) and not bad,
             'remove_file reached with %s' % bad[:2] if bad else '%d abstract arrivals at the unlink, all confirmed' % len(arr))
    ec = cd.var_local('env_confirm')
    eo = flow.render(flow.Origin(cd).of_local(ec[0])) if ec else ''
    if not ec:
        # no variable for it: the value tested in place
        eo = ([r_ for r_ in (flow.render(flow.Origin(cd).of_local(c.dest['l'])) for c in cd.calls if c.callee and c.is_('re:Result.*::unwrap_or$') and c.dest and not c.dest.get('p'))
               if 'env::var(' in r_] + [''])[0]
    # the same value written as a match: false on Err, on Ok the comparison in place — phi(0 | eq(to_lowercase(var(..)@Ok), "true"))
    as_match = bool(re.match(r'^phi\(0 \| <[^|]*PartialEq<[^|]*>>::eq\(str::to_lowercase\(env::var\("BACKUP_ALLOW_CLEAR"\)@Ok→Ok\.0\), "true"\)\)$', eo))
    ctx.inst('C12.R2', cd.short, 'env confirmation = BACKUP_ALLOW_CLEAR equals "true"', '"BACKUP_ALLOW_CLEAR"' in eo and ('unwrap_or' in eo or as_match),
             'env_confirm = %s' % eo[:200])
    cl = [b for b in prog.family(cd) if b.kind == 'Closure']
    lit = False
    for b in cl:
        for pb in [b] + b.promoted:
            for blk in pb.blocks:
                for s in blk['s']:
                    if '"true"' in str(s.get('rv', '')):
                        lit = True
        for c in b.calls:
            for a in c.args:
                if a.get('k') == 'c' and a.get('v', '').endswith('"true"'):
                    lit = True
                if 'promoted' in a:
                    pv = flow.promoted_value(b.promoted[a['promoted']]) if a['promoted'] < len(b.promoted) else None
                    if pv and '"true"' in flow.render(pv):
                        lit = True
    ctx.inst('C12.R2', cd.short, 'compares the lower-cased value with "true"', (lit and any(b.calls_to('re:to_lowercase$') for b in cl)) or as_match,
             'closure compares with the literal "true": %s%s' % (lit, '; compared in place' if as_match else ''))
    sites = {}
    for c in prog.callers_of('std::fs::remove_file', 'std::fs::remove_dir_all', 'std::fs::remove_dir'):
        if c.loc.startswith('engine/src/backup.rs') or 'kyrodb_backup' in c.body.id:
            k = c.body.short.split('::{')[0]
            sites[k] = sites.get(k, 0) + 1
    want = {'backup::BackupManager::create_full_backup': 1, 'backup::BackupManager::create_incremental_backup': 1,
            'backup::BackupManager::prune_backups': 2, 'backup::RestoreManager::clear_data_directory': 1}
    ctx.inst('C12.R2', 'backup.rs', 'unlink inventory = {archive cleanup ×2, prune ×2, clear ×1}', sites == want, 'unlink sites: %s' % sites)
    ac = [c for c in prog.callers_of('ClearDirectoryOptions::with_allow_clear')]
    ctx.inst('C12.R2', 'ClearDirectoryOptions::with_allow_clear', 'never called by the product (CLI confirms through the environment only)', not ac,
             'callers: %s' % [str(c) for c in ac])
    aggs = []
    for b in prog.bodies.values():
        for i, blk in enumerate(b.blocks):
            for s in blk['s']:
                rv = s.get('rv')
                if rv and rv['k'] == 'agg' and rv.get('adt', '').endswith('backup::ClearDirectoryOptions'):
                    v = rv['ops'][rv['fields'].index('allow_clear')]
                    if b.impl_trait and b.impl_trait.endswith('clone::Clone'):
                        continue  # derived Clone copies an existing value
                    val = flow.render(flow.Origin(b).of_operand(v))
                    if not ((v.get('k') == 'c' and v.get('int') == 0) or val in ('0', 'false') or re.search(r'bool as .*Default>::default\(\)$|Default::default\(\)$', val)):
                        aggs.append('%s: %s' % (b.short, val))
    ctx.inst('C12.R2', 'ClearDirectoryOptions', 'constructed with allow_clear = false only', not aggs, 'other constructions: %s' % aggs)
    # the second disjunct of the guard is the process environment: it is the OPERATOR's confirmation only as long as the product never writes it itself
    km = re.search(r'env::var\("([^"]+)"\)', eo)
    key = km.group(1) if km else None
    setters = []
    for c in prog.callers_of('std::env::set_var', 'std::env::remove_var'):
        k_ = flow.render(flow.Origin(c.body).of_operand(c.args[0])) if c.args else '?'
        if not re.match(r'^"[^"]*"$', k_) or (key is not None and k_ == '"%s"' % key) or key is None:
            setters.append('%s: %s(%s) at %s' % (c.body.short, flow.short(c.callee), k_[:60], c.loc))
    ctx.inst('C12.R2', 'process environment', 'nothing in the product sets the confirmation variable', key is not None and not setters,
             ('the product itself writes the variable the guard reads as the operator\'s confirmation (or a variable it cannot name): %s' % '; '.join(setters)[:300]) if setters else
             'no env::set_var / remove_var of %s (or of a computed name) in the workspace crates' % key)

    # ------------------------------------------------------------------ R3
    ctx.rule('C12.R3', 'checksum gate: verify_backup_archive returns Ok only past computed == metadata.checksum; every member name is '
                       'validated before it is joined to the target directory')
    vb = ctx.body('C12.R3', 'RestoreManager::verify_backup_archive')
    vv = flow.Origin(vb, stop_at_vars=True)
    rx = r'cmp\[\+ (arg:metadata→BackupMetadata\.checksum - var:computed_checksum|var:computed_checksum - arg:metadata→BackupMetadata\.checksum) == 0\]$'
    fail, pas = [], []
    for i, blk in enumerate(vb.blocks):
        if blk['t']['k'] == 'switch':
            for tg, p in flow.switch_edge_predicates(vb, i, vv):
                if re.match('^!' + rx, p):
                    fail.append((i, tg))
                if re.match('^' + rx, p):
                    pas.append((i, tg))
    in_place = ''
    if not fail or not pas:
        # the same comparison with either side behind a named temporary, or the recomputed checksum not kept in a variable: on the fully expanded predicate
        ccx = r'backup::compute_backup_checksum\([^|]*\)@Continue→Continue\.0'
        rxf = r'cmp\[\+ (arg:metadata→BackupMetadata\.checksum - %s|%s - arg:metadata→BackupMetadata\.checksum) == 0\]$' % (ccx, ccx)
        vf = flow.Origin(vb)
        fail, pas = [], []
        for i, blk in enumerate(vb.blocks):
            if blk['t']['k'] == 'switch':
                for tg, p in flow.switch_edge_predicates(vb, i, vf):
                    if re.match('^!' + rxf, p):
                        fail.append((i, tg))
                    if re.match('^' + rxf, p):
                        pas.append((i, tg))
                        in_place = re.search(ccx, p).group(0)
    if not fail or not pas:
        ctx.inst('C12.R3', vb.short, 'Ok only on an equal checksum', False, 'anchor missing: checksum comparison not in a recognised form')
    else:
        errs = flow.err_blocks(vb)
        r = vb.reach([0], avoid_blocks=errs, avoid_edges=pas)
        rf = vb.reach([e[1] for e in fail], avoid_blocks=errs) | (set(e[1] for e in fail) - errs)
        cc = flow.render(flow.Origin(vb).of_local(vb.var_local('computed_checksum')[0])) if vb.var_local('computed_checksum') else in_place
        ctx.inst('C12.R3', vb.short, 'Ok only on an equal checksum', not any(x in r for x in vb.return_blocks()) and not any(x in rf for x in vb.return_blocks()) and 'compute_backup_checksum' in cc,
                 'computed = %s' % cc[:120])
    rh = ctx.body('C12.R3', 'backup::read_archive_member_header')
    vn = rh.calls_to('backup::validate_backup_member_name')
    okv = bool(vn) and util.result_use(rh, vn[0]) == 'propagated'
    if okv:
        s_e = flow.success_edges(rh, vn[0])
        r = rh.reach([0], avoid_blocks=flow.err_blocks(rh), avoid_edges=s_e)
        okv = not any(x in r for x in rh.return_blocks())
    ctx.inst('C12.R3', rh.short, 'member header returns Ok only past validate_backup_member_name', okv, '')
    ex = ctx.body('C12.R3', 'RestoreManager::extract_backup_archive')
    eo = flow.Origin(ex)
    joins = [c for c in ex.calls if c.is_('std::path::Path::join')]
    names = [flow.render(eo.of_operand(c.args[1])) for c in joins]
    ctx.inst('C12.R3', ex.short, 'output paths derive from validated member names', bool(names) and all('read_archive_member_header' in n for n in names),
             'joined names: %s' % [n[:100] for n in names])
    vm = ctx.body('C12.R3', 'backup::validate_backup_member_name')
    ctx.inst('C12.R3', vm.short, 'rejects absolute and multi-component names', bool(vm.calls_to('std::path::Path::is_absolute')) and bool(vm.calls_to('re:Components.*::next$', 're:Iterator>::next$')) and len(flow.err_blocks(vm)) >= 3,
             'Err exits: %d' % len(flow.err_blocks(vm)))
    users = sorted(set(c.body.short.split('::{')[0] for c in prog.callers_of('backup::read_archive_member_header')))
    ctx.inst('C12.R3', 'archive readers', 'every archive reader goes through the validating header reader', 'backup::RestoreManager::extract_backup_archive' in users and 'backup::compute_backup_checksum' in users,
             'callers of read_archive_member_header: %s' % users)

    # ------------------------------------------------------------------ R4
    ctx.rule('C12.R4', 'prune respects dependencies: prune_backups reads parent_id and extends the keep set with the parents of kept '
                       'backups; the unlink is dominated by ¬to_keep.contains(id) and by ¬(age < min_age_seconds)')
    pb = ctx.body('C12.R4', 'BackupManager::prune_backups')
    fam = prog.family(pb)
    reads_parent = False
    for b in fam:
        for blk in b.blocks:
            for s in blk['s']:
                if 'BackupMetadata.parent_id' in str(s.get('rv', '')):
                    reads_parent = True
    pv = flow.Origin(pb, stop_at_vars=True)
    pf = flow.Origin(pb)
    keep_ins = [c for c in pb.calls if c.callee and re.search(r'HashSet<.*>::insert$|HashSet::insert$', c.callee) and c.args and flow.render(pv.of_operand(c.args[0])) == 'var:to_keep']
    def from_parent_link(r):
        # structurally (no variable name involved): the inserted value is a parent_id, or comes out of a collection built by a closure of this function that reads parent_id
        if 'BackupMetadata.parent_id' in r:
            return True
        for m in re.findall(r'closure:((?:\w+::)*\{closure#\d+\}(?:::\{closure#\d+\})*)', r):
            for b in fam:
                if b.kind == 'Closure' and b.id.endswith('::' + m) and any('BackupMetadata.parent_id' in str(s.get('rv', '')) for blk in b.blocks for s in blk['s']):
                    return True
        return False
    parent_ins = [c for c in keep_ins if re.search(r'parent', flow.render(pv.of_operand(c.args[1]))) or 'parent_of' in flow.render(pf.of_operand(c.args[1]))
                  or from_parent_link(flow.render(pf.of_operand(c.args[1])))]
    ctx.inst('C12.R4', pb.short, 'keep set closed under parent_id', reads_parent and bool(parent_ins),
             ('prune_backups never reads BackupMetadata.parent_id: a full backup can be removed while an incremental that depends on it is kept '
              '(restore then fails with "Parent backup … not found")') if not reads_parent else
             'reads parent_id: True; inserts of a parent into to_keep: %d of %d inserts' % (len(parent_ins), len(keep_ins)))
    # closure is a fixpoint: the parent insertion sits in a loop that re-queues newly kept ids
    if parent_ins:
        c0 = parent_ins[0]
        cyc = c0.bb in pb.reach(pb.succ(c0.bb))
        ctx.inst('C12.R4', pb.short, 'parent retention is transitive (whole chain)', cyc, 'parent insertion inside a loop: %s' % cyc)
    rms = [c.bb for c in pb.calls_to('std::fs::remove_file')]
    notkeep, old = [], []
    full_preds = [(i, tg, p) for i, blk in enumerate(pb.blocks) if blk['t']['k'] == 'switch' and i in pb.live_blocks() for tg, p in flow.switch_edge_predicates(pb, i, pf)]
    elem = r"Iterator>::next\((?:slice::iter\()?BackupManager::list_backups\(arg:self\)@Continue→Continue\.0\)?\)@Some→Some\.0"
    # the age test, by what is compared (fully expanded: now − element.timestamp against policy.min_age_days × constant), whatever the locals are called and
    # whether or not they exist; the variable-level form by name is kept beside it
    age_f = r'num::saturating_sub\(Duration::as_secs\([^|]*SystemTime::now\(\)[^|]*\), [^|]*' + elem + r'→BackupMetadata\.timestamp\)'
    min_f = r'\(arg:policy→RetentionPolicy\.min_age_days MulWithOverflow \d+\)(?:\.0)?'

    def not_young(a, m, p):
        return bool(re.match('^!' + flow.cmp_rx(a, m, '<=', -1)[1:-1] + '$', p) or re.match(flow.cmp_rx(a, m, '>=', 0), p))
    for i, blk in enumerate(pb.blocks):
        if blk['t']['k'] == 'switch':
            for tg, p in flow.switch_edge_predicates(pb, i, pv):
                if re.match(r'^!bool\[HashSet::contains\(var:to_keep, .*BackupMetadata\.id\)\]$', named_bool(pb, pv, p)):
                    notkeep.append((i, tg))
                if not_young(r'var:age', r'var:min_age_seconds', p):
                    old.append((i, tg))
    if not old:
        old = [(i, tg) for i, tg, p in full_preds if not_young(age_f, min_f, p)]
    for nm, es in (('¬to_keep.contains(id)', notkeep), ('age ≥ min_age_seconds', old)):
        r = pb.reach([0], avoid_edges=es)
        ctx.inst('C12.R4', pb.short, 'unlink only past ' + nm, bool(es) and bool(rms) and not any(x in r for x in rms),
                 'guard edges %s; unlink %s' % (es, 'reachable without the guard' if any(x in r for x in rms) else 'dominated'))
    # survivors = keep set: every condition (other than membership in the keep set) that lets a backup survive the deletion loop must have put that
    # backup INTO the keep set before the parent closure ran — otherwise it survives while its parent chain is pruned
    if rms:
        rm0 = min(rms)
        must = [p for i, tg, p in full_preds if rm0 not in pb.reach([0], avoid_edges=[(i, tg)]) and re.search(elem + r'→BackupMetadata\.(?!id\b)\w+', p)
                and 'HashSet::contains' not in p and 'Path::exists' not in p]
        closure_src = [c for c in pb.calls if c.callee and re.search(r'HashSet<.*>::iter$|HashSet::iter$', flow.short(c.callee)) and flow.render(pv.of_operand(c.args[0], 0, frozenset({-1}))) == 'var:to_keep']
        for k_, p in enumerate(sorted(set(must))):
            neg = p[1:] if p.startswith('!') else '!' + p
            cover = []
            for c in keep_ins:
                if c.bb in (pb.reach([rm0])):
                    continue
                if not re.search(elem + r'→BackupMetadata\.id$', flow.render(pf.of_operand(c.args[1]))):
                    continue
                guards = [q for i, tg, q in full_preds if c.bb not in pb.reach([0], avoid_edges=[(i, tg)])]
                before_closure = bool(closure_src) and all(x.bb in pb.reach([c.bb]) and c.bb not in pb.reach([x.bb]) for x in closure_src)
                if neg in guards and before_closure:
                    cover.append(c)
            short_p = re.sub(elem, 'backup', p)[:110]
            ctx.inst('C12.R4', pb.short, 'survival condition #%d of the deletion loop also puts the backup into the keep set before the parent closure' % k_, bool(cover),
                     'a backup survives deletion when ¬(%s); %s' % (short_p, 'inserted into to_keep under that condition before the closure' if cover else
                                                                     'but it is not added to to_keep before the parent closure: it is retained while its parents can be pruned'))
        ctx.floor('C12.R4', 'survival conditions of the deletion loop besides keep-set membership', len(set(must)), 1, 'min_age_days')
    # the closure runs before the deletion loop
    if parent_ins and rms:
        ctx.inst('C12.R4', pb.short, 'parents are added before anything is deleted', all(x not in pb.reach([min(rms)]) for x in [c.bb for c in parent_ins]),
                 'parent insertion is not reachable from the unlink')

    # ------------------------------------------------------------------ R5
    ctx.rule('C12.R5', 'sibling agreement: full and incremental backup both run snapshot_source_fingerprints ≺ write_backup_archive ≺ '
                       'verify_source_fingerprints before writing metadata, both archive the MANIFEST, an archive that carries a MANIFEST '
                       'carries the snapshot it names unless the parent already holds the same file, and every loop that turns log segments into archive '
                       'members archives EVERY element it walks (full: each segment the archived MANIFEST lists — a listed segment missing from the restored '
                       'directory makes strict recovery refuse to start; incremental: each segment the R6 filter selected)')
    eff.define('fp', 'backup::snapshot_source_fingerprints')
    eff.define('write', 'backup::write_backup_archive')
    eff.define('verify', 'backup::verify_source_fingerprints')
    for fn in ('BackupManager::create_full_backup', 'BackupManager::create_incremental_backup'):
        f = ctx.body('C12.R5', fn)
        fo = flow.Origin(f)
        fv = flow.Origin(f, stop_at_vars=True)
        st = [util.Step('snapshot_source_fingerprints', f, eff.blocks(f, 'fp')), util.Step('write_backup_archive', f, eff.blocks(f, 'write')),
              util.Step('verify_source_fingerprints', f, eff.blocks(f, 'verify'))]
        util.check_chain(ctx, 'C12.R5', f, st, final_ok=False, no_reorder=False)
        # metadata written only after a successful verification
        mw = [c for c in f.calls if c.is_('std::fs::write') and 'backup_' in flow.render(fo.of_operand(c.args[0])) and '.json' in flow.render(fo.of_operand(c.args[0]))]
        v_succ = eff.success_edges(f, eff.blocks(f, 'verify'))
        r = f.reach([0], avoid_edges=v_succ)
        # the retry loop records `checksum = Some(..)` only on the verified edge and the code after the loop unwraps it
        # (the slot is found as the Option that receives write_backup_archive's result — bind_roles; by its name only when that fails)
        l_ck = roles.get(('inc' if fn.endswith('create_incremental_backup') else 'full', 'checksum'))
        ck = [l_ck] if l_ck is not None else f.var_local('checksum')
        sets = [d[0] for l_ in ck for d in f.defs.get(l_, []) if d[2] == 'assign' and 'Some' in flow.render(fv.of_rvalue(d[3]['rv'], 0, frozenset()))]
        exp = [c.bb for c in f.calls if c.is_('core::option::Option::expect', 'core::option::Option::unwrap') and c.args and
               ((fv.of_operand(c.args[0])[0] == 'var' and fv.of_operand(c.args[0])[1] in ck) or (c.args[0].get('pl') and not c.args[0]['pl'].get('p') and c.args[0]['pl']['l'] in ck))]
        okm = bool(mw) and bool(sets) and all(b_ not in r for b_ in sets) and bool(exp) and all(any(f.dominates(e_, c.bb) for e_ in exp) for c in mw)
        ctx.inst('C12.R5', f.short, 'metadata written only after source verification succeeded', okm,
                 'checksum=Some(..) only past verify success: %s; metadata write dominated by checksum.expect(): %s' % (bool(sets) and all(b_ not in r for b_ in sets), bool(exp)))
        man = [c for c in f.calls if c.is_('backup::ArchiveEntry::from_bytes') and c.args and '"MANIFEST"' in flow.render(fo.of_operand(c.args[0]))]
        ctx.inst('C12.R5', f.short, 'archives the MANIFEST', bool(man), 'MANIFEST entries: %d' % len(man))
        # every log segment the loop walks is archived: a `for` loop that builds archive members from its element (ArchiveEntry::from_path) pushes one on EVERY
        # iteration (or leaves with Err) — into the list that receives the MANIFEST — and the loop over the MANIFEST's own list walks the list of the very
        # MANIFEST that is serialized into the archive.  A listed segment that is skipped (empty, header-only, old, ..) is a file strict recovery of the restored
        # directory requires and does not find
        man_list = set(flow.render(fv.of_operand(c2.args[0])) for c2 in f.calls if c2.callee and c2.callee.endswith('::push') and len(c2.args) == 2 and
                       any(flow.render(fo.of_operand(c2.args[1])) == flow.render(fo.of_local(m_.dest['l'])) for m_ in man if m_.dest))
        ser = [flow.render(fo.of_operand(c2.args[0])) for c2 in f.calls if c2.callee and re.search(r'serde_json::(ser::)?to_vec(_pretty)?$', c2.callee) and c2.args]
        n_loops, k_disk = 0, 0
        seen_heads = set()
        for e_ in [c2 for c2 in f.calls if c2.is_('backup::ArchiveEntry::from_path')]:
            h = loop_head_for(f, e_.bb)
            if h is None or h.bb in seen_heads or not any('Iterator>::next(' in flow.render(fo.of_operand(a_)) for a_ in e_.args):
                continue
            seen_heads.add(h.bb)
            n_loops += 1
            pushes_ = [c2 for c2 in f.calls if c2.callee and c2.callee.endswith('::push') and len(c2.args) == 2 and e_.dest and loop_head_for(f, c2.bb) is h and
                       flow.render(fo.of_operand(c2.args[1])) == flow.render(fo.of_local(e_.dest['l']))]
            s_e, f_e = flow.outcome_edges(f, h)
            starts = [x[1] for x in (s_e or [])]
            r = (f.reach(starts, avoid_blocks=[c2.bb for c2 in pushes_]) | set(starts)) - set(c2.bb for c2 in pushes_)
            every = bool(pushes_) and bool(starts) and h.bb not in r
            same_list = bool(pushes_) and all(flow.render(fv.of_operand(c2.args[0])) in man_list for c2 in pushes_)
            src_full = loop_source_full(f, h)
            listed = src_full.endswith('→Manifest.wal_segments')
            if listed:
                descr = 'every segment the archived MANIFEST lists is archived'
                agree = any(src_full in (x + '→Manifest.wal_segments', 'slice::iter(%s→Manifest.wal_segments)' % x) for x in ser)
            else:
                descr = 'every selected on-disk segment is archived #%d' % k_disk
                k_disk += 1
                agree = True
            ctx.inst('C12.R5', f.short, descr, every and same_list and agree,
                     'loop over %s: %s' % (('…' + src_full[-70:]) if len(src_full) > 70 else src_full,
                                           'the next iteration is reachable without an ArchiveEntry::from_path of the element having been pushed — a segment is left out of the archive' if not every else
                                           'the members are not pushed into the list that receives the MANIFEST' if not same_list else
                                           'the list walked is not the list of the MANIFEST that is serialized into the archive' if not agree else
                                           'each iteration pushes its member or leaves with Err'))
        ctx.floor('C12.R5', 'segment loops of %s' % f.short.split('::')[-1], n_loops, 1 if fn.endswith('create_incremental_backup') else 3,
                  'incremental: the filtered list' if fn.endswith('create_incremental_backup') else 'MANIFEST list, legacy MANIFEST, no MANIFEST')
        # snapshot named by the archived manifest
        snap_push = [c for c in f.calls if c.is_('backup::ArchiveEntry::from_path') and c.args and re.search(r'snapshot_name|latest_snapshot|Legacy\.snapshot_number', flow.render(fv.of_operand(c.args[0])) + flow.render(fo.of_operand(c.args[0])))]
        reads_latest = any('Manifest.latest_snapshot' in str(s.get('rv', '')) for blk in f.blocks for s in blk['s'])
        if fn.endswith('create_incremental_backup'):
            reads_parent_snap = any('BackupMetadata.snapshot_file' in str(s.get('rv', '')) for blk in f.blocks for s in blk['s'])
            # the metadata records it
            rec = None
            for blk in f.blocks:
                for s in blk['s']:
                    rv = s.get('rv')
                    if rv and rv['k'] == 'agg' and rv.get('adt', '').endswith('backup::BackupMetadata'):
                        rec = flow.render(fv.of_operand(rv['ops'][rv['fields'].index('snapshot_file')]))
            ok = reads_latest and reads_parent_snap and bool(snap_push) and rec == 'var:snapshot_file'
            ctx.inst('C12.R5', f.short, 'ships the snapshot named by the archived MANIFEST unless the parent holds it', ok,
                     ('create_incremental_backup archives the current MANIFEST but never consults manifest.latest_snapshot: after a snapshot '
                      '(and WAL compaction) between parent and incremental, restore succeeds but start-up from the restored directory is refused')
                     if not (reads_latest and snap_push) else
                     'reads manifest.latest_snapshot: %s; compares with parent.snapshot_file: %s; snapshot entries: %d; metadata.snapshot_file = %s' % (reads_latest, reads_parent_snap, len(snap_push), rec))
            # path form: the serialized MANIFEST is pushed only (i) behind the push of the snapshot it names, or (ii) across the edge on which the parent's recorded
            # snapshot EQUALS that name, or (iii) when the MANIFEST names no snapshot. A parent that records no snapshot (an incremental that shipped none, a full
            # backup taken before the first snapshot) holds nothing: that case must take the push, not skip it.
            man_push = [c for c in f.calls if c.is_('backup::ArchiveEntry::from_bytes') and len(c.args) > 1 and re.search(r'ser::to_vec(_pretty)?\(', flow.render(fo.of_operand(c.args[1])))]
            none_e = set(util.option_edges(f, r'Manifest\.latest_snapshot$', 'None'))
            eq_e = set()
            for i_, blk in enumerate(f.blocks):
                if blk['t']['k'] == 'switch' and i_ in f.live_blocks():
                    for tg, pr in flow.switch_edge_predicates(f, i_, fo):
                        if pr.startswith('eq[') and 'BackupMetadata.snapshot_file' in pr and 'Manifest.latest_snapshot' in pr:
                            eq_e.add((i_, tg))
            if not man_push:
                ctx.missing('C12.R5', '%s: push of the serialized MANIFEST' % f.short)
            else:
                tv12 = flow.ThreadedView(f)
                r12 = tv12.reach([0], avoid_blocks=[c.bb for c in snap_push], avoid_edges=none_e | eq_e)
                bad12 = [c for c in man_push if c.bb in r12]
                ctx.inst('C12.R5', f.short, 'the MANIFEST is archived only behind the snapshot it names, or where the parent records that very snapshot', bool(none_e) and not bad12,
                         ('the MANIFEST push at %s is reachable with a snapshot named, no snapshot entry pushed and the parent not known to hold that snapshot (e.g. a parent whose '
                          'metadata records no snapshot): the restored directory names a snapshot no archive of the chain contains' % bad12[0].loc) if bad12 else
                         ('no test of manifest.latest_snapshot found' if not none_e else '%d equality edge(s), %d snapshot push(es) cut every other path' % (len(eq_e), len(snap_push))))
        else:
            ctx.inst('C12.R5', f.short, 'ships the snapshot named by the archived MANIFEST', reads_latest and bool(snap_push), 'snapshot entries: %d' % len(snap_push))
    # ------------------------------------------------------------------ R6 which log segments an incremental ships
    ctx.rule('C12.R6', 'incremental segment selection: the filter over the on-disk log segments keeps every segment with id > parent.max_wal_file_id, keeps the '
                       'parent\'s highest segment exactly when it was modified since the parent (it was the active one and kept growing — whether or not it '
                       'still is the newest), keeps unparsable names when modified, and rejects only id < parent max or (id = parent max ∧ unmodified); '
                       '"modified" means mtime ≥ parent timestamp')
    inc = ctx.body('C12.R6', 'BackupManager::create_incremental_backup')
    fam = prog.family(inc) if inc is not None else []
    sel = [b_ for b_ in fam if b_.kind == 'Closure' and b_.calls_to('backup::parse_wal_file_id') and b_.locals[0] == 'bool']
    if len(sel) != 1:
        ctx.missing('C12.R6', 'the segment filter closure of create_incremental_backup (calls parse_wal_file_id, returns bool): found %d' % len(sel))
    else:
        fc = sel[0]
        # roles inside the filter closure (its pattern bindings are locals of the closure): what is parsed, the element's path, the parsed id; and the
        # name under which it sees the parent's highest segment id (a capture is named after the captured variable)
        util.bind_role(fc, 'name', type_rx=r'^&(?:\w+::)*String$', used_as=(r'backup::parse_wal_file_id$', 0))
        util.bind_role(fc, 'path', type_rx=r'^&(?:\w+::)*PathBuf$', origin_rx=r'^arg:\w+\.1$')
        util.bind_role(fc, 'file_id', type_rx=r'^u64$', origin_rx=r'^backup::parse_wal_file_id\(.*\)@Some→Some\.0$', full=True)
        cpm = 'cap:' + re.escape(cap_of(prog, fc, roles.get(('inc', 'parent_max')), 'parent_max'))
        # "modified" = mtime >= parent timestamp (same-second writes included): the innermost test, and the closure(s) around it — calling one of those IS
        # asking "modified since the parent?", whatever the variable that holds the closure is called
        mods = [b_ for b_ in fam if b_.kind == 'Closure' and b_.locals[0] == 'bool' and b_ is not fc and 'Duration::as_secs(' in flow.render(flow.Origin(b_).of_local(0))]
        # (the closures around it: by id prefix, and by the chain of enclosing bodies — the closures of a helper fn that was inlined into the closure keep the
        # helper's path as their id, with the closure they now sit in as parent)
        anc, b_ = set(), (mods[0] if len(mods) == 1 else None)
        while b_ is not None and b_.kind == 'Closure' and b_.id not in anc:
            anc.add(b_.id)
            b_ = prog.bodies.get(b_.parent) if b_.parent else None
        msp = set(b_.id for b_ in fam if b_.kind == 'Closure' and len(mods) == 1 and (b_ is mods[0] or mods[0].id.startswith(b_.id + '::') or b_.id in anc))
        fvv = flow.Origin(fc, stop_at_vars=True)
        t_blocks = set()
        f_blocks = set()
        m_blocks = set()
        for i_, blk in enumerate(fc.blocks):
            for st in blk['s']:
                rv = st.get('rv')
                if rv and st['pl']['l'] == 0 and not st['pl'].get('p') and rv['k'] == 'use' and rv['a'].get('k') == 'c':
                    (t_blocks if rv['a'].get('int') == 1 else f_blocks).add(i_)
            t_ = blk['t']
            if t_['k'] == 'call' and t_['dest']['l'] == 0 and not t_['dest'].get('p'):
                c_ = fc.call_at(i_)
                args_ = [flow.render(fvv.of_operand(a)) for a in c_.args]
                if args_ and (args_[0] == 'cap:modified_since_parent' or (re.match(r'^cap:\w+$', args_[0]) and c_.callee in msp)) and 'var:path' in args_[-1]:
                    m_blocks.add(i_)
                else:
                    f_blocks.add(i_)   # any other computed answer counts as "may reject"
        atoms = [pathsens.Atom('gt', r'^cmp\[\+ %s - var:file_id <= -1\]$|^cmp\[\+ var:file_id - %s >= 1\]$' % (cpm, cpm)),
                 pathsens.Atom('eq', r'^cmp\[\+ %s - var:file_id == 0\]$|^cmp\[\+ var:file_id - %s == 0\]$' % (cpm, cpm)),
                 pathsens.VariantAtom('parsed', r'parse_wal_file_id\(var:name\)', 'Some')]
        terms, seen = _explore(fc, atoms, mark_blocks={'T': t_blocks, 'F': f_blocks, 'M': m_blocks})
        bad = []
        for bb_, via_err, a_, path_ in terms:
            ans = [k_ for k_ in ('T', 'F', 'M') if a_.get(k_)]
            if len(ans) != 1:
                bad.append('a path returns through %s' % (ans or 'no recognised answer'))
                continue
            ans = ans[0]
            if a_.get('parsed') is False:
                if ans != 'M':
                    bad.append('unparsable name answered %s' % ans)
            elif a_.get('gt') is True:
                if ans != 'T':
                    bad.append('id > parent max answered %s' % ans)
            elif a_.get('gt') is False and a_.get('eq') is True:
                if ans != 'M':
                    bad.append('id = parent max answered %s instead of modified_since_parent(path)' % ans)
            elif a_.get('gt') is False and a_.get('eq') is False:
                if ans != 'F':
                    bad.append('id < parent max answered %s' % ans)
            else:
                bad.append('a path decides %s without comparing the id with the parent\'s highest segment (gt=%s, eq=%s)' % (ans, a_.get('gt'), a_.get('eq')))
        ctx.inst('C12.R6', inc.short + ' [segment filter]', 'decision table of the segment filter', bool(terms) and not bad and all(k_ in seen for k_ in ('gt', 'eq', 'parsed')),
                 '%d paths; %s' % (len(terms), '; '.join(sorted(set(bad)))[:300] if bad else 'gt→keep, eq→modified(path), unparsable→modified(path), lower→drop'))
        # parent_max is the parent's recorded highest segment id
        pv = flow.Origin(inc)
        pm = inc.var_local('parent_max')
        pmo = flow.render(pv.of_local(pm[0])) if pm else ''
        ctx.inst('C12.R6', inc.short, 'parent_max = parent_metadata.max_wal_file_id', bool(re.search(r'BackupMetadata\.max_wal_file_id@Some→Some\.0$', pmo)), 'parent_max = %s' % pmo[-80:])
        # the filtered iterator runs over every on-disk segment and feeds the archive list
        flt = [c for c in inc.calls if c.callee and c.is_('re:Iterator::filter$') and any(g == fc.id for g in c.gc)]
        src = flow.render(pv.of_operand(flt[0].args[0])) if flt else ''
        ctx.inst('C12.R6', inc.short, 'the filter runs over list_wal_segments_in_dir(data_dir)', bool(flt) and 'backup::list_wal_segments_in_dir(' in src, 'source: %s' % src[:100])
        # "modified" = mtime >= parent timestamp (same-second writes included).  The right-hand side is a capture: recognised by the name it carries, or by
        # following it out to the function body, where it must be the timestamp of the decoded parent metadata (bind_roles)
        t_ = flow.Origin(mods[0]).of_local(0) if len(mods) == 1 else None
        r_ = flow.render(t_) if t_ else ''
        by_name = bool(re.match(r'^\(Duration::as_secs\(arg:\w+\) Ge cap:parent_metadata\b[^)]*\)$', r_))
        csrc = capture_source(prog, mods[0], _cap_index(t_[3])) if t_ and t_[0] == 'bin' and re.match(r'^\(Duration::as_secs\(arg:\w+\) Ge cap:\w+\)$', r_) else ''
        by_role = roles.get(('inc', 'parent_metadata')) is not None and csrc == 'var:parent_metadata→BackupMetadata.timestamp'
        ctx.inst('C12.R6', inc.short, 'modified_since_parent compares mtime ≥ parent timestamp', by_name or by_role,
                 'innermost test: %s%s' % (r_[:120], ('; the captured value is %s' % csrc[:100]) if csrc else ''))
    # ------------------------------------------------------------------ R7 which backups a point-in-time restore applies
    ctx.rule('C12.R7', 'point-in-time chain selection: the backup list is sorted newest first; the base is the first Full with timestamp ≤ target in that order; '
                       'each hop takes the FIRST element of that list (newest) whose parent is the current backup, whose timestamp is ≤ target and which is '
                       'Incremental, and moves to it; the walk ends when there is none. (A map keyed by parent, or a last-match scan, picks an older sibling '
                       'when two incrementals share a parent and restores a stale collection without any error)')
    lbd = ctx.body('C12.R7', 'backup::list_backups_from_dir')
    if lbd is not None:
        # the stable sorts: by a comparator, or by a key (`sort_by_key(f)` is `sort_by(|a, b| f(a).cmp(&f(b)))`, the same stable merge sort)
        srt = [c for c in lbd.calls if c.callee and flow.short(c.callee) in ('slice::sort_by', 'slice::sort_by_key')]
        cmpb = [prog.bodies.get(g) for c in srt for g in c.gc]
        t_ = flow.Origin(cmpb[0]).of_local(0) if cmpb and cmpb[0] is not None else None
        r_ = flow.render(t_) if t_ else ''
        by_key = bool(srt) and flow.short(srt[0].callee) == 'slice::sort_by_key'
        rets = [x for x in lbd.return_blocks() if x in lbd.live_blocks()]
        okret = [x for x in rets if x not in flow.err_blocks(lbd)]
        # descending = the SECOND parameter's timestamp compared with the first's (closure locals: _1 environment, _2 first, _3 second parameter), whatever the
        # two parameters of the comparator are called
        desc = not by_key and (r_ == 'impls::cmp(arg:b→BackupMetadata.timestamp, arg:a→BackupMetadata.timestamp)' or (
            bool(re.match(r'^impls::cmp\(arg:\w+→BackupMetadata\.timestamp, arg:\w+→BackupMetadata\.timestamp\)$', r_)) and t_[0] == 'call' and
            [a_[1][1] if a_[0] == 'field' and a_[1][0] == 'arg' else None for a_ in t_[2]] == [3, 2]))
        # descending by key: the key of an element (closure locals: _1 environment, _2 the element) is core::cmp::Reverse of ITS timestamp — Reverse(x).cmp(&Reverse(y))
        # is y.cmp(&x), the comparator above; the key type is the std wrapper (return type of the closure), not something of the same name
        if by_key and t_ is not None and cmpb[0].locals[0] == 'core::cmp::Reverse<u64>':
            desc = t_[0] == 'agg' and isinstance(t_[1], str) and t_[1].endswith('cmp::Reverse::Reverse') and len(t_[2]) == 1 and t_[2][0][0] == 'field' and \
                t_[2][0][1][0] == 'arg' and t_[2][0][1][1] == 2 and bool(re.match(r'^cmp::Reverse::Reverse\{arg:\w+→BackupMetadata\.timestamp\}$', r_))
        ctx.inst('C12.R7', lbd.short, 'sorted by timestamp, newest first, before it is returned', len(srt) == 1 and desc and
                 bool(rets) and not any(x in lbd.reach([0], avoid_blocks=[srt[0].bb] + sorted(flow.err_blocks(lbd))) for x in rets),
                 '%s: %s' % ('sort key' if by_key else 'comparator', r_))
    for nm in ('RestoreManager::list_backups', 'BackupManager::list_backups'):
        lb_ = ctx.body('C12.R7', nm)
        if lb_ is not None:
            r_ = flow.render(flow.Origin(lb_).of_local(0))
            ctx.inst('C12.R7', lb_.short, 'returns list_backups_from_dir(backup_dir) unchanged', bool(re.match(r'^backup::list_backups_from_dir\(.*backup_dir\)$', r_)), r_[:100])
    pit = ctx.body('C12.R7', 'RestoreManager::restore_point_in_time_with_options')
    if pit is not None:
        po = flow.Origin(pit)
        pvv = flow.Origin(pit, stop_at_vars=True)
        nx = pit.var_local('next')
        nxo = flow.render(po.of_local(nx[0])) if len(nx) == 1 else ''
        fnd = [c for c in pit.calls if c.callee and re.search(r'Iterator>?::find$', c.callee)]
        # the search of a hop is the one inside the walk's loop (the base may be chosen by a search of its own, before the loop)
        hop = [c for c in fnd if c.bb in pit.reach(pit.succ(c.bb))] if len(fnd) > 1 else fnd
        if not nx and len(hop) == 1 and hop[0].dest and not hop[0].dest.get('p'):
            nxo = flow.render(po.of_local(hop[0].dest['l']))   # the search result is matched on directly, without a variable for the candidate
        first_match = len(hop) == 1 and nxo.startswith("<iter::Iter<'a, T> as iterator::Iterator>::find(slice::iter(RestoreManager::list_backups(arg:self)@Continue→Continue.0), closure:")
        ctx.inst('C12.R7', pit.short, 'each hop is the first match (find) over the newest-first list', first_match, 'next = %s' % nxo[:130])
        def conjunction_with_type(fcl, atoms, variant):
            """decision table of a `|b| t1 && t2 .. && b.backup_type == <variant>` predicate: (number of paths, what is wrong, atoms recognised)"""
            f_blocks = set(i_ for i_, blk in enumerate(fcl.blocks) for st in blk['s'] if st.get('rv') and st['pl']['l'] == 0 and st['rv']['k'] == 'use' and st['rv']['a'].get('k') == 'c' and st['rv']['a'].get('int') == 0)
            t_blocks = set(i_ for i_, blk in enumerate(fcl.blocks) for st in blk['s'] if st.get('rv') and st['pl']['l'] == 0 and st['rv']['k'] == 'use' and st['rv']['a'].get('k') == 'c' and st['rv']['a'].get('int') == 1)
            fv = flow.Origin(fcl, stop_at_vars=True)
            i_blocks = set(i_ for i_, blk in enumerate(fcl.blocks) if blk['t']['k'] == 'call' and blk['t']['dest']['l'] == 0 and fcl.call_at(i_).callee and fcl.call_at(i_).callee.endswith('PartialEq>::eq') and
                           len(fcl.call_at(i_).args) == 2 and re.match(r'^arg:\w+→BackupMetadata\.backup_type$', flow.render(fv.of_operand(fcl.call_at(i_).args[0]))) and
                           flow.render(fv.of_operand(fcl.call_at(i_).args[1])) == 'backup::BackupType::%s{}' % variant)
            terms, seen = _explore(fcl, atoms, mark_blocks={'F': f_blocks, 'T': t_blocks, 'ISTYPE': i_blocks})
            names = [a.name for a in atoms]
            bad = []
            for bb_, via, a_, path_ in terms:
                ans = [k_ for k_ in ('F', 'T', 'ISTYPE') if a_.get(k_)]
                if len(ans) != 1:
                    bad.append('answer %s' % ans)
                elif ans[0] == 'ISTYPE' and not all(a_.get(n_) is True for n_ in names):
                    bad.append('type test reached without %s' % ' ∧ '.join(names))
                elif ans[0] == 'T':
                    bad.append('accepts without the type test')
                elif ans[0] == 'F' and not any(a_.get(n_) is False for n_ in names):
                    bad.append('rejects although %s' % ' ∧ '.join(names))
            return len(terms), bad, seen
        intime = r'^cmp\[\+ arg:\w+→BackupMetadata\.timestamp - cap:timestamp <= 0\]$'
        if hop and hop[0].gc:
            fcl = prog.bodies.get(hop[0].gc[0])
            # (the closure sees the walk's position under the source name of that variable: looked up by capture position, see cap_of)
            ccur = 'cap:' + re.escape(cap_of(prog, fcl, roles.get(('pit', 'current_id')), 'current_id'))
            n_, bad, seen = conjunction_with_type(fcl, [pathsens.Atom('parent = current', r'^eq\[arg:\w+→BackupMetadata\.parent_id, option::Option::Some\{%s\}\]$' % ccur),
                                                        pathsens.Atom('timestamp ≤ target', intime)], 'Incremental')
            ctx.inst('C12.R7', pit.short, 'hop predicate = parent is current ∧ timestamp ≤ target ∧ Incremental', bool(n_) and not bad and 'parent = current' in seen and 'timestamp ≤ target' in seen,
                     '%d paths; %s' % (n_, '; '.join(sorted(set(bad))) or 'exact'))
        ci = pit.var_local('current_id')
        cio = flow.render(po.of_local(ci[0])) if len(ci) == 1 else ''
        ctx.inst('C12.R7', pit.short, 'the walk moves to the found backup (current_id := found.id, starting from the base)', 'find(' in cio and '@Some→Some.0→BackupMetadata.id' in cio and 'BackupMetadata.id' in cio.split('|')[-1], 'current_id = %s' % cio[:60])
        # the slot that receives the base: the Option that starts None and is set to Some(..) (bind_roles; the later `let` of the same name shadows it, so it is
        # addressed by local number), by name when that is not found
        fb = [roles['pit', 'base']] if roles.get(('pit', 'base')) is not None else pit.var_local('full_backup')
        fbo = flow.render(po.of_local(fb[0])) if fb else ''
        preds = [(i_, tg, p) for i_, blk in enumerate(pit.blocks) if blk['t']['k'] == 'switch' and i_ in pit.live_blocks() for tg, p in flow.switch_edge_predicates(pit, i_, pvv)]
        preds_f = [(i_, tg, p) for i_, blk in enumerate(pit.blocks) if blk['t']['k'] == 'switch' and i_ in pit.live_blocks() for tg, p in flow.switch_edge_predicates(pit, i_, po)]

        def base_tests(e, ps):
            ts = [(i_, tg) for i_, tg, p in ps if re.match(flow.cmp_rx(e + r'→BackupMetadata\.timestamp', r'arg:timestamp', '<=', 0), p)]
            fl = [(i_, tg) for i_, tg, p in ps if re.match(r'^eq\[backup::BackupType::Full\{\}, %s→BackupMetadata\.backup_type\]$|^eq\[%s→BackupMetadata\.backup_type, backup::BackupType::Full\{\}\]$' % (e, e), p)]
            return ts, fl
        # the two tests on the scanned element: by the loop variable's name, else on the fully expanded predicate (an element of an iteration over list_backups(self))
        base_ts, base_full = base_tests(r'var:backup', preds)
        ts_f, fl_f = base_tests(r"<[^|]*?Iterator>::next\((?:slice::iter\()?RestoreManager::list_backups\(arg:self\)@Continue→Continue\.0\)?\)@Some→Some\.0", preds_f)
        base_ts, base_full = base_ts or ts_f, base_full or fl_f
        sets = [d[0] for l_ in fb for d in pit.defs.get(l_, []) if d[2] == 'assign' and 'Some' in flow.render(pvv.of_rvalue(d[3]['rv'], 0, frozenset()))]
        r0 = pit.reach([0], avoid_edges=base_ts)
        r1 = pit.reach([0], avoid_edges=base_full)
        heads = [c for c in pit.calls if c.callee and c.is_('re:Iterator>::next$') and sets and pit.dominates(c.bb, sets[0]) and 'list_backups(arg:self)' in flow.render(po.of_operand(c.args[0]))]
        brk = bool(sets) and bool(heads) and all(h.bb not in pit.reach([sets[0]]) for h in heads)   # after taking a base the scan does not continue (break)
        ok_base = bool(re.search(r"Iterator>::next\(RestoreManager::list_backups\(arg:self\)", fbo)) and bool(base_ts) and bool(base_full) and bool(sets) and all(x not in r0 and x not in r1 for x in sets) and brk
        # the same selection written as a search: base = list.iter().find(|b| b.timestamp <= target && b.backup_type == Full) — first match in list order by the
        # definition of find; what remains to check is the list, that nothing else defines the base, and the predicate
        bfind = [c for c in fnd if c not in hop and c.bb not in pit.reach(pit.succ(c.bb))]
        if not ok_base and not sets and len(bfind) == 1 and bfind[0].gc:
            bl = [roles['pit', 'base_ref']] if roles.get(('pit', 'base_ref')) is not None else pit.var_local('full_backup')
            fbo = flow.render(po.of_local(bl[0])) if len(bl) == 1 else ''
            bcl = prog.bodies.get(bfind[0].gc[0])
            m_ = re.match(r"^<[^|]*Iterator>::find\(slice::iter\(RestoreManager::list_backups\(arg:self\)@Continue→Continue\.0\), closure:([^|{]*\{closure#\d+\})\{[^|]*\}\)@Continue→Continue\.0$", fbo)
            if m_ and bcl is not None and bcl.id.endswith('::' + m_.group(1)):
                n_, bad, seen = conjunction_with_type(bcl, [pathsens.Atom('timestamp ≤ target', intime)], 'Full')
                ok_base = bool(n_) and not bad and 'timestamp ≤ target' in seen
                fbo = '%s [%d paths; %s]' % (fbo[:60], n_, ('; '.join(sorted(set(bad))) or 'exact')[:50])
        ctx.inst('C12.R7', pit.short, 'base = first Full with timestamp ≤ target in list order', ok_base, 'full_backup = %s' % fbo[:120])
    # ------------------------------------------------------------------ R8 restore by id follows the requested backup's own ancestry
    ctx.rule('C12.R8', 'restore-by-id restores the requested backup\'s OWN chain: starting from the requested metadata, each further element is the backup named by the '
                       'previous element\'s parent_id (loop on parent_id = Some, decode of that file, push), the walk ends at a Full or refuses, the chain is reversed '
                       'before it is verified and extracted, the verification loop runs over that chain — and the selection is not delegated to the time-based '
                       'lookup, which picks the newest Full before a timestamp (a different chain whenever another Full lies in between)')
    rb = ctx.body('C12.R8', 'RestoreManager::restore_from_backup_with_options')
    if rb is not None:
        ov8 = flow.Origin(rb, stop_at_vars=True)
        pit = [c for c in rb.calls if c.callee and re.search(r'restore_point_in_time', c.callee)]
        ctx.inst('C12.R8', rb.short, 'the chain is not chosen by timestamp', not pit, 'calls to the point-in-time selection: %s' % [flow.short(c.callee) for c in pit])
        pe = [(i_, tg) for i_, blk in enumerate(rb.blocks) if blk['t']['k'] == 'switch' and i_ in rb.live_blocks() for tg, p_ in flow.switch_edge_predicates(rb, i_, ov8)
              if re.match(r'^variant\(var:(\w+)→BackupMetadata\.parent_id\) = Some$', p_)]
        pushes = [c for c in rb.calls if c.callee and re.search(r'Vec(<.*>)?::push$', flow.short(c.callee)) and len(c.args) == 2 and 'BackupMetadata' in rb.locals[c.args[0]['pl']['l']]
                  and 'Uuid' not in rb.locals[c.args[0]['pl']['l']].split('BackupMetadata')[0][-30:]]
        pushes = [c for c in pushes if re.match(r'^var:\w+$', flow.render(ov8.of_operand(c.args[0]))) and 'tuple' not in flow.render(ov8.of_operand(c.args[1]))]
        dec = [c for c in rb.calls if c.callee and re.search(r'serde_json::(de::)?from_str$', c.callee)]
        ok_walk = bool(pe) and bool(pushes)
        why = []
        for c in pushes:
            # the pushed element is decoded after the Some(parent_id) edge, in the same iteration
            behind = any(c.bb not in rb.reach([0], avoid_edges=pe) and any(d.bb in (rb.reach([tg]) | {tg}) and rb.dominates(d.bb, c.bb) for d in dec) for (_, tg) in pe)
            if not behind:
                ok_walk = False
                why.append('push at %s is not behind a decode on the Some(parent_id) edge' % c.loc)
        # the path of the decoded file is built from that parent id
        pid = rb.var_local('parent_id')
        pid_o = [flow.render(ov8.of_local(l)) for l in (pid or [])]
        ok_pid = any(re.match(r'^var:\w+→BackupMetadata\.parent_id@Some→Some\.0$', x) for x in pid_o)
        ctx.inst('C12.R8', rb.short, 'ancestry walk: each further element is decoded from the previous element\'s parent_id', ok_walk and ok_pid,
                 '; '.join(why) or 'Some(parent_id) edges %d, chain pushes %d, parent id = %s' % (len(pe), len(pushes), pid_o[:1]))
        chv = flow.render(ov8.of_operand(pushes[0].args[0])) if pushes else '?'
        rev = [c for c in rb.calls if c.callee and re.search(r'::reverse$', c.callee) and c.args and flow.render(ov8.of_operand(c.args[0])) == chv]
        ver = rb.calls_to('RestoreManager::verify_backup_archive')
        heads = [h for h in rb.calls if h.callee and h.is_('re:Iterator>::next$') and ver and rb.dominates(h.bb, ver[0].bb) and h.bb in rb.reach([ver[0].bb])]
        src = util.loop_source(rb, heads[0]) if heads else '?'
        ver_at = [ver[0].bb] if ver else []
        if not ver:
            # the verification loop in iterator form (R1, collect_sites): it runs where its `collect` is called, over what its `map` adapts
            cver8 = collect_sites(prog, rb, 'RestoreManager::verify_backup_archive')
            if cver8:
                ver_at, src = [cver8[0].collect.bb], cver8[0].src
        rc = rb.var_local('restore_chain')
        rco = flow.render(ov8.of_local(rc[0])) if rc else '?'
        ok_rev = bool(rev) and bool(ver_at) and all(r_.bb not in rb.reach(ver_at) for r_ in rev) and 'restore_chain' in src and \
            (chv in rco or (chv.startswith('var:') and util.var_chain_reaches(rb, 'restore_chain', chv[4:])))   # directly, or through named bindings (`?` on a helper's result)
        ctx.inst('C12.R8', rb.short, 'the chain is reversed (Full first) and is what the verification loop runs over', ok_rev,
                 'reverse(%s): %d; verification loop over %s; restore_chain = %s' % (chv, len(rev), src[:60], rco[:90]))
        full_e = [(i_, tg) for i_, blk in enumerate(rb.blocks) if blk['t']['k'] == 'switch' and i_ in rb.live_blocks() for tg, p_ in flow.switch_edge_predicates(rb, i_, ov8)
                  if re.search(r'BackupMetadata\.backup_type', p_)]
        ctx.inst('C12.R8', rb.short, 'the walk tests backup_type (ends at a Full, refuses a chain without one)', len(full_e) >= 3, 'backup_type tests: %d edges' % len(full_e))
    # ------------------------------------------------------------------ R9 later archives of a chain replace what earlier ones wrote
    ctx.rule('C12.R9', 'chain extraction: every archive of a chain carries a MANIFEST (R5) and an incremental can carry its parent\'s highest segment (R6), so restoring a '
                       'chain writes the same file name more than once and the LAST writer must win completely: (a) the file an archive member is extracted into is '
                       'opened truncating (File::create, or OpenOptions with write(true) and truncate(true)) — without it a shorter later MANIFEST keeps the tail of the '
                       'older one and start-up from the restored directory is refused; (b) the point-in-time entry point records (and therefore extracts: R1) the base '
                       'Full archive before the incrementals of the walk — recorded after them, the Full overwrites the newer MANIFEST and segment and the directory '
                       'silently starts as of the Full backup (restore-by-id: the reversed chain of R8)')
    ex9 = ctx.body('C12.R9', 'RestoreManager::extract_backup_archive')
    # (c) the last writer wins completely only if it writes at all: every member of the archive is streamed into its target — no iteration of the member loop reaches
    # the next member without the stream call (a "target already has that length" short-cut keeps the parent's MANIFEST, which has the same length as the
    # incremental's whenever the segment count and the digit counts agree)
    if ex9 is not None:
        st9 = [c for c in ex9.calls if c.callee and re.search(r'stream_member_to_writer$', c.callee)]
        heads9 = [h for h in ex9.calls if h.callee and h.is_('re:Iterator>::next$', 're:range::next$') and st9 and all(ex9.dominates(h.bb, c.bb) for c in st9) and
                  any(h.bb in ex9.reach(ex9.succ(c.bb)) for c in st9)]
        if not st9 or not heads9:
            ctx.missing('C12.R9', 'extract_backup_archive: member loop with stream_member_to_writer')
        else:
            h9 = heads9[-1]
            errs9 = flow.err_blocks(ex9)
            # enter the loop body through the Some edge, come back to the head without streaming
            body_starts = [x for x in ex9.succ(h9.to if h9.to is not None else h9.bb)]
            r9 = ex9.reach(ex9.succ(h9.bb), avoid_blocks=[c.bb for c in st9] + list(errs9))
            # the head itself is re-entered only through the body; the first entry into the head comes from outside the loop
            back = h9.bb in ex9.reach([x for x in ex9.succ(h9.bb)], avoid_blocks=[c.bb for c in st9] + list(errs9)) and \
                any(h9.bb in ex9.reach(ex9.succ(x), avoid_blocks=[c.bb for c in st9] + list(errs9)) for x in r9 if x != h9.bb and ex9.dominates(h9.bb, x) and x in ex9.reach(ex9.succ(h9.bb)))
            ctx.inst('C12.R9', ex9.short, 'every member of the archive is streamed into its target', not back,
                     'the next member can be reached without stream_member_to_writer for this one (a member is skipped: an older file of the same name stays in place)' if back
                     else 'no iteration of the member loop avoids the stream call (%d stream site(s))' % len(st9))
    if ex9 is not None:
        o9 = flow.Origin(ex9)
        sinks = [c for c in ex9.calls if c.callee and c.is_('backup::stream_member_to_writer', 're:io::copy$', 're:Write>::write_all$', 're:fs::write$')]
        opens = []
        for c in sinks:
            for a_ in c.args[1:2] if c.is_('backup::stream_member_to_writer', 're:io::copy$') else c.args[:1]:
                opens += file_opens(prog, ex9, o9.of_operand(a_))
        uniq = []
        for b_, t_ in opens:
            if (b_.id, flow.render(t_)) not in [(x.id, flow.render(y)) for x, y in uniq]:
                uniq.append((b_, t_))
        bad9 = [(b_, t_) for b_, t_ in uniq if not opens_truncating(t_)]
        ctx.inst('C12.R9', ex9.short, 'a restore target that already exists is truncated', bool(sinks) and bool(uniq) and not bad9,
                 ('%s in %s opens the target without truncating it: a later archive of the chain overwrites only the beginning of the file an earlier one wrote' % (
                     flow.render(bad9[0][1])[:160], bad9[0][0].short)) if bad9 else
                 '%d member sink(s); opened by %s' % (len(sinks), '; '.join('%s in %s' % (flow.short(t_[1]), b_.short) for b_, t_ in uniq)[:160] or 'nothing recognised'))
    pit9 = ctx.body('C12.R9', 'RestoreManager::restore_point_in_time_with_options')
    if pit9 is not None:
        v9 = flow.Origin(pit9, stop_at_vars=True)
        push9 = [c for c in pit9.calls if c.callee and c.callee.endswith('::push') and len(c.args) == 2 and flow.render(v9.of_operand(c.args[0])) == 'var:verified_archives']
        base9 = [c for c in push9 if loop_head_for(pit9, c.bb) is None and re.match(r'^tuple\{var:full_backup→BackupMetadata\.id, ', flow.render(v9.of_operand(c.args[1])))]
        hops9 = [c for c in push9 if c not in base9]
        heads9 = [loop_head_for(pit9, c.bb) for c in hops9]
        in_walk = bool(hops9) and all(h is not None and iterated(util.loop_source(pit9, h)) == 'var:incrementals' for h in heads9)
        first = len(base9) == 1 and in_walk and all(pit9.dominates(base9[0].bb, h.bb) and base9[0].bb not in pit9.reach([h.bb]) for h in heads9)
        ctx.inst('C12.R9', pit9.short, 'the base (Full) archive is recorded before the incrementals of the walk', first,
                 ('pushes into verified_archives: %d for the base, %d others; others inside a loop over the collected incrementals: %s; %s' % (
                     len(base9), len(hops9), in_walk, 'base first' if first else
                     'the Full archive is recorded after (or not before) the incrementals: extraction follows the recording order, so the Full overwrites the newer MANIFEST and shared segment')))
    ctx.stat('functions_analysed', len(set(i['key'].split(' | ')[1] for i in ctx.instances)))
